#!/bin/bash
# MANIFEST.setup_cmd: regenerate Gen/* from /repo, then build the whole Lean library and the driver (offline).
set -e
cd "$(dirname "$0")"
export PYTHONPATH="$PWD:/repo${PYTHONPATH:+:$PYTHONPATH}" PYTHONDONTWRITEBYTECODE=1
/venv/bin/python -m harness.regen
cd lean && lake build
