"""Entry point: python -m harness.run C01 --tier quick"""
from __future__ import annotations

import argparse
import importlib
import json
import os
import signal
import sys
import time
import traceback

from harness.common import Ctx, quiet_pynenc


def main() -> int:
    ap = argparse.ArgumentParser()
    ap.add_argument("prop")
    ap.add_argument("--tier", default=os.environ.get("VERIF_TIER", "quick"), choices=["quick", "thorough"])
    ap.add_argument("--replay", default=None)
    a = ap.parse_args()
    seed = int(os.environ.get("VERIF_SEED", "0") or 0)
    quiet_pynenc()
    try:
        from pynenc.app import Pynenc

        Pynenc._clear_instances()
    except Exception:
        pass
    mod = importlib.import_module(f"harness.props.{a.prop.lower()}")
    if a.replay:
        data = json.load(open(a.replay))
        return int(mod.replay(data) or 0)
    ctx = Ctx(a.prop, a.tier, seed)
    try:
        mod.run(ctx)
    except Exception as e:
        # The harness itself blew up on this tree.  On the unchanged tree that does not happen; on a changed tree it means the code no longer
        # behaves the way the correspondence expects (a record that vanished, a call that now raises): by the protocol a broken correspondence
        # is reported - with the concrete violations found before the crash, or as no-failing-input-found.
        traceback.print_exc()
        tb = traceback.extract_tb(e.__traceback__)
        where = " <- ".join(f"{os.path.basename(f.filename)}:{f.lineno}" for f in tb[-3:])
        try:
            ctx.obligation("the check ran to completion on this tree (harness, driver and the code under test raised nothing unexpected)", False,
                           f"{type(e).__name__}: {str(e)[:200]} at {where}")
            return ctx.finish()
        except Exception:
            traceback.print_exc()
            ctx.cleanup()
            print(f"{a.prop}: infrastructure error", file=sys.stderr)
            return 2
    return ctx.finish()


def _become_subreaper() -> None:
    """processes orphaned by a dying descendant (a worker of a runner process that was killed on purpose) are re-parented to this
    process instead of init, so that the sweep at the end finds them"""
    try:
        import ctypes

        ctypes.CDLL(None, use_errno=True).prctl(36, 1, 0, 0, 0)  # PR_SET_CHILD_SUBREAPER
    except Exception:  # noqa: BLE001
        pass


def _kill_descendants() -> int:
    """nothing started by a check outlives it (on a changed tree a runner may not stop when told to)"""
    me, killed = os.getpid(), 0
    for _ in range(5):
        ppid: dict[int, int] = {}
        for d in os.listdir("/proc"):
            if d.isdigit():
                try:
                    stat = open(f"/proc/{d}/stat").read()
                    rest = stat[stat.rindex(")") + 2:].split()
                    if rest[0] != "Z":
                        ppid[int(d)] = int(rest[1])
                except (OSError, ValueError, IndexError):
                    pass
        desc: set[int] = set()
        frontier = [me]
        while frontier:
            p = frontier.pop()
            for c, pp in ppid.items():
                if pp == p and c not in desc:
                    desc.add(c)
                    frontier.append(c)
        if not desc:
            break
        for c in desc:
            try:
                os.kill(c, signal.SIGKILL)
                killed += 1
            except OSError:
                pass
        time.sleep(0.05)
        try:
            while os.waitpid(-1, os.WNOHANG)[0]:
                pass
        except OSError:
            pass
    return killed


def _terminated(signum: int, frame: object) -> None:
    raise SystemExit(2)


if __name__ == "__main__":
    _become_subreaper()
    try:
        signal.signal(signal.SIGTERM, _terminated)
    except Exception:  # noqa: BLE001
        pass
    rc = 2
    try:
        rc = main()
    finally:
        sys.stdout.flush()
        sys.stderr.flush()
        _kill_descendants()
    sys.exit(rc)
