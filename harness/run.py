"""Entry point: python -m harness.run C01 --tier quick"""
from __future__ import annotations

import argparse
import importlib
import json
import os
import sys
import traceback

from harness.common import Ctx, quiet_pynenc


def main() -> int:
    ap = argparse.ArgumentParser()
    ap.add_argument("prop")
    ap.add_argument("--tier", default=os.environ.get("VERIF_TIER", "quick"), choices=["quick", "thorough"])
    ap.add_argument("--replay", default=None)
    a = ap.parse_args()
    seed = int(os.environ.get("VERIF_SEED", "0") or 0)
    quiet_pynenc()
    try:
        from pynenc.app import Pynenc

        Pynenc._clear_instances()
    except Exception:
        pass
    mod = importlib.import_module(f"harness.props.{a.prop.lower()}")
    if a.replay:
        data = json.load(open(a.replay))
        return int(mod.replay(data) or 0)
    ctx = Ctx(a.prop, a.tier, seed)
    try:
        mod.run(ctx)
    except Exception as e:
        # The harness itself blew up on this tree.  On the unchanged tree that does not happen; on a changed tree it means the code no longer
        # behaves the way the correspondence expects (a record that vanished, a call that now raises): by the protocol a broken correspondence
        # is reported - with the concrete violations found before the crash, or as no-failing-input-found.
        traceback.print_exc()
        tb = traceback.extract_tb(e.__traceback__)
        where = " <- ".join(f"{os.path.basename(f.filename)}:{f.lineno}" for f in tb[-3:])
        try:
            ctx.obligation("the check ran to completion on this tree (harness, driver and the code under test raised nothing unexpected)", False,
                           f"{type(e).__name__}: {str(e)[:200]} at {where}")
            return ctx.finish()
        except Exception:
            traceback.print_exc()
            ctx.cleanup()
            print(f"{a.prop}: infrastructure error", file=sys.stderr)
            return 2
    return ctx.finish()


if __name__ == "__main__":
    sys.exit(main())
