"""C18 instrumentation shared by the check (harness/props/c18.py), the task bodies (harness/tasks.py:
``wf_script`` / ``wf_child``) and the fresh-interpreter helper (harness/c18_child.py).

* ``run_script`` is the body of the scripted workflow tasks: it performs a list of operations through
  the task's own ``wf`` helper and records what it was given.
* ``install(app)`` wraps the three *public* entry points through which a deterministic workflow
  operation reaches the outside — ``state_backend.get_workflow_data``, ``state_backend.set_workflow_data``
  and ``orchestrator.route_call`` (the launch of a sub-task) — on that app's instances only.  The wrappers
  log every access made from inside a scripted body (``TRACE``) and, when a cooperative scheduler is
  active for the calling thread, block *before* the access until the scheduler grants it.
* ``install_clock`` replaces ``datetime.now`` as seen from ``pynenc.workflow.workflow_deterministic`` by a
  counter: the k-th reading is EPOCH + 1000·k s (so a re-read base time is never mistaken for a recorded one).

Nothing here touches /repo; everything is instance / module attribute patching from the harness.
"""
from __future__ import annotations

import datetime as _dt
import itertools
import threading
from typing import Any

TRACE: list[tuple] = []
APPS: dict[str, Any] = {}
LIMIT: dict[str, int] = {}  # tag -> number of operations after which the body raises (direct re-execution)
EPOCH = _dt.datetime(2024, 1, 1, tzinfo=_dt.UTC)
TICK_S = 1000

_local = threading.local()
_uid = itertools.count(1)
_installed: set[int] = set()


class RetryScript(Exception):
    """raised by a scripted body to end an attempt early (retriable)"""


class Abort(BaseException):
    """hard stop of an execution at a backend access (not an ``Exception``: nothing catches it)"""


def cur() -> int | None:
    return getattr(_local, "uid", None)


def vrepr(v: Any) -> str:
    if v is None:
        return "none"
    if isinstance(v, bool):
        return f"o:{v!r}"
    if isinstance(v, float):
        return "r:" + v.hex()
    if isinstance(v, int):
        return f"n:{v}"
    if isinstance(v, str):
        return "s:" + v
    if isinstance(v, _dt.datetime):
        return "s:" + v.isoformat()
    return "o:" + repr(v)[:80]


# --------------------------------------------------------------------------------------------
# cooperative scheduling hook (set by the check)
# --------------------------------------------------------------------------------------------

def _point(kind: str) -> None:
    h = getattr(_local, "handle", None)
    if h is not None and cur() is not None:
        h.point(kind)


# --------------------------------------------------------------------------------------------
# clock
# --------------------------------------------------------------------------------------------

class _Clock:
    def __init__(self) -> None:
        self.lock = threading.Lock()
        self.tick = 1

    def next(self) -> int:
        with self.lock:
            t = self.tick
            self.tick += 1
        return t


CLOCK = _Clock()
_clock_saved: list[tuple[Any, str, Any]] = []


def _now(tz=None):  # type: ignore[no-untyped-def]
    t = CLOCK.next()
    TRACE.append(("now", cur(), t))
    d = EPOCH + _dt.timedelta(seconds=TICK_S * t)
    return d if tz is not None else d.replace(tzinfo=None)


def install_clock(start_tick: int | None = None) -> bool:
    """Returns True when the patch took (the module reads the clock through a name we can replace)."""
    import pynenc.workflow.workflow_deterministic as WD

    if start_tick is not None:
        CLOCK.tick = start_tick
    if _clock_saved:
        return True
    real = getattr(WD, "datetime", None)

    class _FakeDT(_dt.datetime):
        @classmethod
        def now(cls, tz=None):  # type: ignore[override]
            return _now(tz)

    if real is _dt:  # `import datetime`
        class _Shim:
            datetime = _FakeDT
            timedelta = _dt.timedelta
            UTC = _dt.UTC
            timezone = _dt.timezone
            date = _dt.date

            def __getattr__(self, name):  # anything else: the real module
                return getattr(_dt, name)

        _clock_saved.append((WD, "datetime", real))
        WD.datetime = _Shim()
        return True
    if real is _dt.datetime:  # `from datetime import datetime`
        _clock_saved.append((WD, "datetime", real))
        WD.datetime = _FakeDT
        return True
    return False


def uninstall_clock() -> None:
    for mod, name, val in reversed(_clock_saved):
        setattr(mod, name, val)
    _clock_saved.clear()


def secs(iso: str) -> int | None:
    """ISO timestamp -> whole seconds since EPOCH (None when it is not a whole number of seconds)"""
    try:
        d = _dt.datetime.fromisoformat(iso)
    except ValueError:
        return None
    if d.tzinfo is None:
        d = d.replace(tzinfo=_dt.UTC)
    delta = d - EPOCH
    if delta.microseconds:
        return None
    return delta.days * 86400 + delta.seconds


# --------------------------------------------------------------------------------------------
# wrappers on one app's state backend / orchestrator instances
# --------------------------------------------------------------------------------------------

def install(app) -> None:  # type: ignore[no-untyped-def]
    APPS[app.app_id] = app
    sb, orch = app.state_backend, app.orchestrator
    if id(sb) in _installed:
        return
    _installed.add(id(sb))
    g0, s0, r0 = sb.get_workflow_data, sb.set_workflow_data, orch.route_call

    def get_workflow_data(workflow_identity, key, default=None):  # type: ignore[no-untyped-def]
        u = cur()
        if u is None:
            return g0(workflow_identity, key, default)
        _point("get")
        v = g0(workflow_identity, key, default)
        TRACE.append(("get", u, str(workflow_identity.workflow_id), key, vrepr(v)))
        return v

    def set_workflow_data(workflow_identity, key, value):  # type: ignore[no-untyped-def]
        u = cur()
        if u is None:
            return s0(workflow_identity, key, value)
        _point("set")
        r = s0(workflow_identity, key, value)
        TRACE.append(("set", u, str(workflow_identity.workflow_id), key, vrepr(value)))
        return r

    def route_call(call):  # type: ignore[no-untyped-def]
        u = cur()
        if u is None:
            return r0(call)
        _point("launch")
        inv = r0(call)
        TRACE.append(("launch", u, str(inv.workflow.workflow_id), str(call.call_id), str(inv.invocation_id)))
        return inv

    sb.get_workflow_data = get_workflow_data
    sb.set_workflow_data = set_workflow_data
    orch.route_call = route_call


def register_tasks(app, max_retries: int = 0):  # type: ignore[no-untyped-def]
    """The two scripted tasks, bound to `app` (same options in every interpreter)."""
    from harness import tasks as T

    t = app.task(T.wf_script, max_retries=max_retries, retry_for=(RetryScript,))
    c = app.task(T.wf_child)
    return t, c


# --------------------------------------------------------------------------------------------
# the task body
# --------------------------------------------------------------------------------------------

_SPELL = [0]


def opcode(op: Any) -> str:
    return op if isinstance(op, str) else f"s{op[1]}"


def _do(app, t, app_id: str, op: Any) -> str:  # type: ignore[no-untyped-def]
    from pynenc.identifiers.task_id import TaskId

    if op == "r":
        return "r:" + float(t.wf.random()).hex()
    if op == "u":
        return "u:" + str(t.wf.uuid())
    if op == "t":
        return "t:" + t.wf.utc_now().isoformat()
    if isinstance(op, (list, tuple)) and op[0] == "s":
        child = app.get_task(TaskId("harness.tasks", "wf_child"))
        # the same call, spelled positionally, by keyword, or with its defaulted parameter written out - the spelling changes from one
        # launch to the next (a body edited between an execution and its replay; two call sites of one sub-task): one call, one record
        _SPELL[0] += 1
        how = _SPELL[0] % 3
        if how == 0:
            inv = t.wf.execute_task(child, app_id, op[1], list(op[2]))
        elif how == 1:
            inv = t.wf.execute_task(child, app_id=app_id, tag=op[1], script=list(op[2]))
        else:
            inv = t.wf.execute_task(child, app_id, op[1], script=list(op[2]), note="-")
        return "i:" + str(inv.invocation_id)
    raise ValueError(f"bad op {op!r}")


def run_script(name: str, app_id: str, tag: Any, script: list, fail_after: list | None) -> list:
    from pynenc.identifiers.task_id import TaskId

    app = APPS[app_id]
    t = app.get_task(TaskId("harness.tasks", name))
    inv = t.invocation
    try:
        wf_id = str(inv.workflow.workflow_id)
    except NotImplementedError:
        wf_id = None
    attempt = inv.num_retries
    tkey = str(tag)
    if tkey in LIMIT:
        limit = LIMIT[tkey]
    elif fail_after and attempt < len(fail_after):
        limit = fail_after[attempt]
    else:
        limit = None
    eff = list(script) if limit is None else list(script)[:limit]
    uid = next(_uid)
    prev = cur()
    _local.uid = uid
    TRACE.append(("begin", uid, tkey, str(inv.invocation_id), wf_id, attempt, [opcode(o) for o in eff]))
    vals: list[str] = []
    try:
        for i, op in enumerate(eff):
            v = _do(app, t, app_id, op)
            TRACE.append(("ret", uid, i, v))
            vals.append(v)
        if limit is not None:
            raise RetryScript(f"{tkey}:{attempt}")
        TRACE.append(("end", uid, "ok"))
        return vals
    except Abort:
        TRACE.append(("kill", uid))
        raise
    except RetryScript:
        TRACE.append(("end", uid, "raise"))
        raise
    except BaseException as e:  # noqa: BLE001
        TRACE.append(("end", uid, f"error:{type(e).__name__}:{str(e)[:80]}"))
        raise
    finally:
        _local.uid = prev
