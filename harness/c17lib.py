"""Helpers of the C17 check (isolation of applications with different ids).

* an adversarial application-id generator (pairs / triples built from one another),
* an SQL tracer (every connection opened through ``sqlite3.connect`` reports its statements, tagged with the
  application the harness is currently operating),
* ``Handle``: one real application + the operations the scenarios run on it + a full read-out of its observable state
  (public API) + a raw dump of its storage (SQLite: every row of every table it owns; memory: the component objects),
* ``own_prefix``: the storage prefix computed from the *documentation* of the scheme with ``re``/``hashlib`` only
  (independent of pynenc and of the Lean model).
"""
from __future__ import annotations

import hashlib
import re
import sqlite3
import unicodedata
from datetime import UTC, datetime
from typing import Any

from harness import tasks as T
from harness.apps import flush, make_app, rctx

COMPONENT_ATTRS = ["broker", "orchestrator", "state_backend", "trigger", "client_data_store"]

# ------------------------------------------------------------------------------------------------
# the naming scheme as documented (docstring of sanitize_table_prefix / TableNames)
# ------------------------------------------------------------------------------------------------


def sha8(app_id: str) -> str:
    return hashlib.sha256(app_id.encode()).hexdigest()[:8]


def own_prefix(app_id: str) -> str:
    s = "".join(c if (c.isascii() and (c.isalnum() or c == "_")) else "_" for c in app_id)
    if s and (s[0] in "0123456789" or (s + "_")[:7].lower() == "sqlite_"):
        s = "_" + s
    return (s or "_default") + "_" + sha8(app_id)


IDENT = re.compile(r"[A-Za-z_][A-Za-z0-9_]*\Z")


def encodable(s: str) -> bool:
    try:
        s.encode()
        return True
    except UnicodeEncodeError:
        return False


# ------------------------------------------------------------------------------------------------
# adversarial ids
# ------------------------------------------------------------------------------------------------

BASE_IDS = [
    "a", "app", "my-app", "my_app", "my app", "My_App", "MY-APP", "a.b", "a;b", "a'b", 'a"b', "a%b", "a%", "%", "_", "__",
    "a_", "", " ", "1app", "9", "_1app", "٣app", "３", "²x", "été", "日本", "\U0001f600",
    "a\nb", "a\tb", "x; DROP TABLE y;--", "a' OR '1'='1", "[a]", "`a`", "a]b", "a\\b", "_default", "default",
    "idx_a", "idx", "main", "temp", "select", "a--b", "a/*b*/", "A", "b", "ab", "a_b", "a__b", "a b c",
    "app.v1", "app.v2", "app/v1", "tenant:42", "42", "0", "007", "x" * 120,
    "sqlite", "SQLite-app", "sqlite_x", "sqlite.db", "sqlit", "Sqlite", "my-sqlite",
]
PUNCT = list("-_ .;:'\"%/\\()[]`,!?*+=\n")


def variants(rng, s: str) -> list[str]:
    """ids that are 'close' to s in the ways the property text names"""
    out = [s.upper(), s.lower(), s.swapcase(), s.title()]
    # punctuation variants
    for i, c in enumerate(s):
        if not (c.isascii() and c.isalnum()):
            for p in rng.sample(PUNCT, 3):
                out.append(s[:i] + p + s[i + 1:])
        else:
            if rng.random() < 0.3:
                out.append(s[:i] + rng.choice(["_", "%", "-", "é"]) + s[i + 1:])
    # prefixes / extensions
    for k in range(len(s)):
        out.append(s[:k])
    for ext in ["_", "__", "x", "%", "'", "_%", "__broker", "-", " ", "0"]:
        out.append(s + ext)
    out += ["1" + s, "_" + s, "٣" + s, " " + s, "idx_" + s]
    # ids that look like this id's storage names
    if encodable(s):
        p = own_prefix(s)
        out += [p, p + "_", p + "__", p + "__broker", p + "__broker_", p + "__broker_message_queue", p + "__orchestrator",
                p + "__state_backend_app_info", p + "__client", p + "__trg", "idx_" + p + "__broker_message_queue",
                p[:-1], p[:-8], p.upper(), p.replace("_", "%"), p.replace("_", "-"), own_prefix(p) + "__broker"]
    return out


def gen_ids(rng, n: int) -> list[str]:
    """n ids: the fixed adversarial bases + seeded random strings over a nasty alphabet"""
    alpha = list("abAB01_-. ;'\"%") + ["é", "٣", "\n", "日", "__", "sqlite_", "a_", "\x00"]
    ids = list(BASE_IDS)
    while len(ids) < n:
        ids.append("".join(rng.choice(alpha) for _ in range(rng.randint(0, 9))))
    return ids[:n] if n < len(ids) else ids


def gen_groups(rng, n: int, size: int) -> list[tuple[str, ...]]:
    """n groups of `size` pairwise different ids; members after the first are variants of earlier members"""
    groups: list[tuple[str, ...]] = []
    pool = gen_ids(rng, 90)
    guard = 0
    while len(groups) < n and guard < 50 * n:
        guard += 1
        g = [rng.choice(pool)]
        while len(g) < size:
            src = rng.choice(g)
            v = [x for x in variants(rng, src) if x not in g and encodable(x)]
            if not v:
                break
            g.append(rng.choice(v))
        if len(g) == size and all(encodable(x) for x in g):
            groups.append(tuple(g))
    return groups


# ------------------------------------------------------------------------------------------------
# SQL tracer
# ------------------------------------------------------------------------------------------------

_SQL_STRIP = re.compile(r"'(?:[^']|'')*'|\"(?:[^\"]|\"\")*\"|--[^\n]*|/\*.*?\*/", re.S)
_SQL_TOKEN = re.compile(r"[A-Za-z0-9_]+")


def sql_idents(sql: str) -> list[str]:
    """maximal [A-Za-z0-9_]+ runs of a statement outside string literals and comments"""
    return _SQL_TOKEN.findall(_SQL_STRIP.sub(" ", sql))


class Tracer:
    """Patches ``sqlite3.connect`` so that every connection reports its statements with the current actor."""

    def __init__(self) -> None:
        self.actor: Any = None
        self.log: list[tuple[Any, str]] = []
        self._orig = None

    def install(self) -> "Tracer":
        self._orig = sqlite3.connect
        tracer = self
        orig = self._orig

        def connect(*a, **k):
            c = orig(*a, **k)
            c.set_trace_callback(lambda s: tracer.log.append((tracer.actor, s)))
            return c

        sqlite3.connect = connect  # type: ignore[assignment]
        return self

    def uninstall(self) -> None:
        if self._orig is not None:
            sqlite3.connect = self._orig  # type: ignore[assignment]
            self._orig = None

    def take(self) -> list[tuple[Any, str]]:
        out, self.log = self.log, []
        return out


# ------------------------------------------------------------------------------------------------
# one real application
# ------------------------------------------------------------------------------------------------


def _exc(e: BaseException) -> str:
    return "err:" + type(e).__name__


def canon(o: Any, depth: int = 0) -> Any:
    """order-insensitive, address-free picture of a Python object graph (memory backends' raw dump)"""
    import threading

    if depth > 8:
        return "<deep>"
    if o is None or isinstance(o, (bool, int, float, str, bytes)):
        return o
    if isinstance(o, datetime):
        return o.isoformat()
    if isinstance(o, dict):
        return sorted(((repr(canon(k, depth + 1)), canon(v, depth + 1)) for k, v in o.items()), key=lambda kv: kv[0])
    if isinstance(o, (set, frozenset)):
        return sorted((repr(canon(x, depth + 1)) for x in o))
    if isinstance(o, (list, tuple)) or type(o).__name__ == "deque":
        return [canon(x, depth + 1) for x in o]
    if isinstance(o, type(threading.Lock())) or isinstance(o, type(threading.RLock())):
        return "<lock>"
    tn = type(o).__name__
    if tn in ("Pynenc", "Logger", "Task", "Thread", "ThreadPoolExecutor", "Event", "Condition"):
        return f"<{tn}>"
    if hasattr(o, "value") and hasattr(type(o), "__members__"):
        return f"{tn}.{o.name}"
    d = getattr(o, "__dict__", None)
    if d is not None:
        return (tn, canon({k: v for k, v in d.items() if k not in ("app", "conf", "_logger", "logger")}, depth + 1))
    return repr(o) if "0x" not in repr(o) else f"<{tn}>"


class Handle:
    """One application under test and everything the harness knows it created."""

    def __init__(self, kind: str, tmp: str, app_id: str, db: str | None, tracer: Tracer | None = None):
        self.kind = kind
        self.app_id = app_id
        self.tracer = tracer
        self._as_actor()
        self.app = make_app(kind, tmp, app_id=app_id, db=db, min_size_to_cache=64)
        self.db = db
        self.t_add = self.app.task(T.add)
        self.t_keyed = self.app.task(T.keyed)
        self.invs: list[Any] = []  # DistributedInvocation objects, creation order
        self.cds_keys: list[str] = []
        self.conds: list[str] = []
        self.trigs: list[str] = []
        self.runners: list[str] = []
        self.wf_keys: list[str] = []
        self.n = 0
        # touch every component so that its storage exists
        for c in COMPONENT_ATTRS:
            getattr(self.app, c)

    # -- bookkeeping ---------------------------------------------------------------------------
    def _as_actor(self) -> None:
        if self.tracer is not None:
            self.tracer.actor = self.app_id

    def inv_ids(self) -> list[str]:
        return [i.invocation_id for i in self.invs]

    def idx(self, inv_id: str | None) -> str:
        if inv_id is None:
            return "None"
        ids = self.inv_ids()
        return f"inv#{ids.index(inv_id)}" if inv_id in ids else f"unknown:{inv_id}"

    def table_names(self) -> list[str]:
        if self.kind != "sqlite":
            return []
        out = []
        for c in COMPONENT_ATTRS:
            out += getattr(self.app, c).tables.all_table_names()
        return out

    # -- operations ----------------------------------------------------------------------------
    neighbour: "Handle | None" = None      # another application living in the same process / database file

    OPS = ["route", "route_inside", "route_keyed", "retrieve", "count", "set_status", "set_result", "sb_result", "sb_exception", "heartbeat",
           "store_rctx", "wf_data", "wait", "cds_store", "reg_trigger", "emit", "cron", "cron_tick", "claim", "trigger_loop",
           "purge_broker", "purge_orchestrator", "purge_state_backend", "purge_trigger", "purge_client_data_store", "purge_app"]

    def do(self, op: str, arg: int = 0) -> str:
        """run one operation through the public API; returns a canonical outcome string"""
        from pynenc.invocation.status import InvocationStatus as S

        self._as_actor()
        a = self.app
        self.n += 1
        try:
            if op == "route":
                self.invs.append(self.t_add(arg, 1))
                return f"inv#{len(self.invs) - 1}"
            if op == "route_inside":
                # the call is made from INSIDE a running invocation of the neighbouring application (a task of one application calling a
                # task of another): that invocation is the neighbour's business - here the call has no parent and starts its own workflow
                from pynenc import context

                nb = self.neighbour
                if nb is None or not nb.invs:
                    self.invs.append(self.t_add(arg, 1))
                    return f"inv#{len(self.invs) - 1}"
                prev = context.swap_dist_invocation_context(nb.app.app_id, nb.invs[arg % len(nb.invs)])
                try:
                    self.invs.append(self.t_add(arg, 1))
                finally:
                    context.swap_dist_invocation_context(nb.app.app_id, prev)
                return f"inv#{len(self.invs) - 1}"
            if op == "route_keyed":
                self.invs.append(self.t_keyed(f"k{arg}"))
                return f"inv#{len(self.invs) - 1}"
            if op == "retrieve":
                return self.idx(a.broker.retrieve_invocation())
            if op == "count":
                return str(a.broker.count_invocations())
            if op in ("set_status", "set_result", "sb_result", "sb_exception", "wait", "wf_data") and not self.invs:
                return "skip"
            if op == "set_status":
                inv = self.invs[arg % len(self.invs)]
                nxt = {"registered": [S.PENDING], "pending": [S.RUNNING, S.REROUTED, S.KILLED], "running": [S.FAILED, S.RETRY, S.PAUSED, S.KILLED],
                       "paused": [S.RESUMED, S.KILLED], "resumed": [S.FAILED, S.RETRY], "retry": [S.PENDING], "rerouted": [S.PENDING],
                       "killed": [S.PENDING]}
                try:
                    rec = a.orchestrator.get_invocation_status_record(inv.invocation_id)
                    cands = nxt.get(rec.status.value, [S.PENDING, S.RUNNING])
                    rid = rec.runner_id if rec.status.value in ("pending", "running", "paused", "resumed") else f"r{arg % 2}"
                except KeyError:
                    cands, rid = [S.PENDING], "r0"
                st = cands[(arg // 7) % len(cands)] if arg % 5 else S.SUCCESS
                a.orchestrator.set_invocation_status(inv.invocation_id, st, rctx(rid))
                return "ok"
            if op == "set_result":
                inv = self.invs[arg % len(self.invs)]
                a.orchestrator.set_invocation_result(inv, {"v": arg}, rctx(f"r{arg % 2}"))
                return "ok"
            if op == "sb_result":
                a.state_backend.set_result(self.invs[arg % len(self.invs)].invocation_id, f"res-{self.app_id!r}-{arg}")
                return "ok"
            if op == "sb_exception":
                a.state_backend.set_exception(self.invs[arg % len(self.invs)].invocation_id, ValueError(f"boom {arg}"))
                return "ok"
            if op == "heartbeat":
                rid = f"runner-{arg % 3}"
                a.orchestrator.register_runner_heartbeats([rid], can_run_atomic_service=bool(arg % 2))
                if rid not in self.runners:
                    self.runners.append(rid)
                return "ok"
            if op == "store_rctx":
                rid = f"runner-{arg % 3}"
                a.state_backend.store_runner_context(rctx(rid))
                if rid not in self.runners:
                    self.runners.append(rid)
                return "ok"
            if op == "wf_data":
                key = f"wk{arg % 3}"
                a.state_backend.set_workflow_data(self.invs[0].workflow, key, {"d": arg})
                if key not in self.wf_keys:
                    self.wf_keys.append(key)
                return "ok"
            if op == "wait":
                if len(self.invs) < 2:
                    return "skip"
                i, j = arg % len(self.invs), (arg + 1) % len(self.invs)
                a.orchestrator.waiting_for_results(self.invs[i].invocation_id, [self.invs[j].invocation_id])
                return "ok"
            if op == "cds_store":
                key = a.client_data_store.serialize(f"payload-{arg}-" + "x" * 200)
                if a.client_data_store.is_reference(key) and key not in self.cds_keys:
                    self.cds_keys.append(key)
                return "ref" if a.client_data_store.is_reference(key) else "inline"
            if op == "reg_trigger":
                from pynenc.trigger.trigger_builder import on_event

                b = on_event(f"ev{arg % 2}")
                a.trigger.register_task_triggers(self.t_keyed, b)
                for c in b.conditions:
                    if c.condition_id not in self.conds:
                        self.conds.append(c.condition_id)
                tid = b.build(self.t_keyed.task_id).trigger_id
                if tid not in self.trigs:
                    self.trigs.append(tid)
                return "ok"
            if op == "emit":
                a.trigger.emit_event(f"ev{arg % 2}", {"k": f"e{arg}"})
                return "ok"
            if op == "cron":
                from pynenc.trigger.conditions import CronCondition

                c = CronCondition("*/5 * * * *")
                a.trigger.register_condition(c)
                if c.condition_id not in self.conds:
                    self.conds.append(c.condition_id)
                ok = a.trigger.store_last_cron_execution(
                    c.condition_id, datetime(2024, 1, 1 + arg % 27, tzinfo=UTC), a.trigger.get_last_cron_execution(c.condition_id))
                return f"cas:{ok}"
            if op == "cron_tick":
                # one pass of the time-based trigger check at a fixed instant (5 s into a minute): whether this application's
                # own cron condition fires depends on this application's own history only
                from pynenc.trigger.conditions import CronCondition

                c = CronCondition("* * * * *")
                a.trigger.register_condition(c)
                if c.condition_id not in self.conds:
                    self.conds.append(c.condition_id)
                t = datetime(2024, 3, 1, 12, (arg // 3) % 50, 5, tzinfo=UTC)   # (in the set-up every application ticks at the SAME instant)
                before = a.trigger.get_last_cron_execution(c.condition_id)
                a.trigger.check_time_based_triggers(t)
                after = a.trigger.get_last_cron_execution(c.condition_id)
                # (no absolute time in the answer: an earlier `trigger_loop` stores the real clock's reading)
                return f"tick:{'none' if after is None else 'this-instant' if after == t else 'other'}:{'fired' if after != before else 'quiet'}"
            if op == "claim":
                return f"claim:{a.trigger.claim_trigger_run(f'run-{arg % 4}', 3600)}"
            if op == "trigger_loop":
                a.trigger.trigger_loop_iteration()
                self._refresh()
                return "ok"
            if op.startswith("purge_"):
                what = op[len("purge_"):]
                if what == "app":
                    a.purge()
                else:
                    getattr(a, what).purge()
                # a purge must at least purge the application's OWN data (whatever its id looks like)
                left = []
                if what in ("broker", "app") and a.broker.count_invocations() != 0:
                    left.append(f"queue={a.broker.count_invocations()}")
                if what in ("orchestrator", "app") and a.orchestrator.count_invocations() != 0:
                    left.append(f"invocations={a.orchestrator.count_invocations()}")
                if what in ("trigger", "app") and list(a.trigger.get_valid_conditions()):
                    left.append("valid-conditions")
                return "ok" if not left else "ineffective:" + ",".join(left)
            raise ValueError(op)
        except BaseException as e:  # noqa: BLE001
            return _exc(e)
        finally:
            try:
                flush(a)
            except BaseException:  # noqa: BLE001
                pass

    def _refresh(self) -> None:
        """invocations launched by the trigger loop become known to the handle"""
        a = self.app
        known = set(self.inv_ids())
        for t in (self.t_add, self.t_keyed):
            for iid in sorted(a.orchestrator.get_task_invocation_ids(t.task_id)):
                if iid not in known:
                    try:
                        self.invs.append(a.state_backend.get_invocation(iid))
                        known.add(iid)
                    except BaseException:  # noqa: BLE001
                        pass

    # -- read-out ------------------------------------------------------------------------------
    def readout(self) -> dict:
        """observable state through the public API (no wall-clock dependent values)"""
        self._as_actor()
        a = self.app
        o, sb, tr, cds = a.orchestrator, a.state_backend, a.trigger, a.client_data_store
        out: dict[str, Any] = {}

        def g(f):
            try:
                return f()
            except BaseException as e:  # noqa: BLE001
                return _exc(e)

        out["queue"] = g(lambda: a.broker.count_invocations())
        invs = {}
        for k, inv in enumerate(self.invs):
            iid = inv.invocation_id
            rec = g(lambda: (lambda r: (r.status.value, r.runner_id))(o.get_invocation_status_record(iid)))
            invs[f"inv#{k}"] = {
                "status": rec,
                "retries": g(lambda: o.get_invocation_retries(iid)),
                "result": g(lambda: repr(sb.get_result(iid))),
                "exception": g(lambda: repr(sb.get_exception(iid))),
                "history": g(lambda: [(h.status_record.status.value, h.status_record.runner_id) for h in sb.get_history(iid)]),
                "stored": g(lambda: (lambda d: (str(d.call.task.task_id), sorted(d.call.serialized_arguments.items())))(sb.get_invocation(iid))),
                # who launched it and which workflow it belongs to, as stored
                "lineage": g(lambda: (lambda d: (d.parent_invocation_id, str(d.workflow.workflow_id), str(getattr(d.workflow, "parent_workflow_id", None)),
                                                 [h.registered_by_inv_id for h in sb.get_history(iid)]))(sb.get_invocation(iid))),
            }
        out["invocations"] = invs
        for t in (self.t_add, self.t_keyed):
            out[f"ids:{t.task_id}"] = g(lambda: sorted(o.get_task_invocation_ids(t.task_id)))
        out["blocking"] = g(lambda: sorted(o.get_blocking_invocations(50)))
        out["runners"] = g(lambda: sorted(r.runner_id for r in o.get_active_runners()))
        out["rctx"] = {r: g(lambda: (lambda c: None if c is None else (c.runner_cls, c.runner_id))(sb.get_runner_context(r))) for r in self.runners}
        if self.invs:
            out["wf"] = {k: g(lambda: sb.get_workflow_data(self.invs[0].workflow, k)) for k in self.wf_keys}
        out["app_info"] = g(lambda: sb.get_app_info().app_id)
        out["conditions"] = {c: g(lambda: type(tr.get_condition(c)).__name__) for c in self.conds}
        out["cron"] = {c: g(lambda: (lambda d: d and d.isoformat())(tr.get_last_cron_execution(c))) for c in self.conds}
        out["triggers"] = {t: g(lambda: (lambda d: None if d is None else str(d.task_id))(tr.get_trigger(t))) for t in self.trigs}
        out["cond_trigs"] = {c: g(lambda: sorted(t.trigger_id for t in tr.get_triggers_for_condition(c))) for c in self.conds}
        out["valid"] = g(lambda: sorted(tr.get_valid_conditions().keys()))
        out["cds"] = {k: g(lambda: hashlib.sha1(cds._retrieve(k).encode()).hexdigest()[:12]) for k in self.cds_keys}
        return out

    def raw(self) -> Any:
        """everything stored for this application, below the API"""
        self._as_actor()
        if self.kind == "sqlite":
            names = self.table_names()
            con = sqlite3.connect(self.db)
            try:
                have = {r[0] for r in con.execute("SELECT name FROM sqlite_master WHERE type='table'")}
                dump = {}
                for n in names:
                    if n in have:
                        dump[n] = sorted(repr(r) for r in con.execute(f'SELECT * FROM "{n}"'))
                    else:
                        dump[n] = "<missing>"
                return dump
            finally:
                con.close()
        a = self.app
        return {c: canon(getattr(a, c)) for c in COMPONENT_ATTRS}

    def strings(self, o: Any) -> set[str]:
        """every string occurring in a read-out (to look for another application's identifiers)"""
        out: set[str] = set()

        def walk(x):
            if isinstance(x, str):
                out.add(x)
            elif isinstance(x, dict):
                for k, v in x.items():
                    walk(k)
                    walk(v)
            elif isinstance(x, (list, tuple, set)):
                for y in x:
                    walk(y)

        walk(o)
        return out


def nfc(s: str) -> str:
    return unicodedata.normalize("NFC", s)
