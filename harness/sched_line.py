"""Source-line-level cooperative scheduler for real threads running pynenc's *in-memory* components.

Built on `harness.sched_sql.SqlSched` (same baton, choosers, `Run`, `explore`), it adds

* yield points at every executed source LINE of chosen functions (``sys.monitoring`` LINE events
  enabled only on those code objects), and
* a shim for the ``threading`` name inside chosen modules whose ``Lock`` / ``RLock`` are cooperative:
  acquiring a held lock marks the thread blocked and yields instead of blocking the OS thread
  (a parked thread holding a real lock would deadlock the baton).

A schedule is still the list of thread indices chosen step by step, and replays exactly.
It can be combined with the SQL statement yield points of the base class (both stay active).
"""
from __future__ import annotations

import importlib
import sys
import threading as _real_threading
import time as _real_time
import types
from typing import Any, Callable, Iterable, Sequence

from harness.sched_sql import SqlSched, _tls

TOOL = sys.monitoring.DEBUGGER_ID


class _CoopLock:
    def __init__(self, sched: "LineSched", reentrant: bool):
        self._sched = sched
        self._reentrant = reentrant
        self._owner: Any = None
        self._depth = 0
        self._real = _real_threading.RLock() if reentrant else _real_threading.Lock()

    def acquire(self, blocking: bool = True, timeout: float = -1) -> bool:
        w = getattr(_tls, "worker", None)
        if w is None or self._sched._aborting:
            # unscheduled thread: behave like a real lock, but cooperate with scheduled holders
            while self._owner is not None and self._owner is not _real_threading.current_thread():
                if not blocking:
                    return False
                _real_threading.Event().wait(0.0005)
            me = _real_threading.current_thread()
            if self._owner is me and self._reentrant:
                self._depth += 1
                return True
            self._owner = me
            self._depth = 1
            return True
        self._sched._yield("lock", "acquire")
        while True:
            if self._owner is None:
                self._owner = w
                self._depth = 1
                return True
            if self._owner is w and self._reentrant:
                self._depth += 1
                return True
            if not blocking:
                return False
            self._sched._block_on_lock()

    def release(self) -> None:
        self._depth -= 1
        if self._depth <= 0:
            self._owner = None
            self._depth = 0
            self._sched._released()

    def locked(self) -> bool:
        return self._owner is not None

    def __enter__(self) -> bool:
        return self.acquire()

    def __exit__(self, *a: Any) -> None:
        self.release()


class _CoopCondition:
    """threading.Condition over a cooperative lock: a scheduled thread that waits is *blocked* until a notify reaches it
    (or, for a wait with a timeout, until every live thread is blocked: the timeout then expires); spurious wake-ups are not
    produced, so code that fails to re-check its predicate is exposed only by the notifications the code itself sends"""

    def __init__(self, sched: "LineSched", lock: Any = None):
        self._sched = sched
        self._lock = lock if lock is not None else _CoopLock(sched, True)
        self._waiters: list[list] = []
        self.acquire = self._lock.acquire
        self.release = self._lock.release

    def __enter__(self) -> bool:
        return self._lock.acquire()

    def __exit__(self, *a: Any) -> None:
        self._lock.release()

    def wait(self, timeout: float | None = None) -> bool:
        w = getattr(_tls, "worker", None)
        token = [False]
        self._waiters.append(token)
        depth, owner = self._lock._depth, self._lock._owner
        self._lock._owner, self._lock._depth = None, 0
        self._sched._released()
        if w is None or self._sched._aborting:
            end = None if timeout is None else _real_time.monotonic() + timeout
            while not token[0] and (end is None or _real_time.monotonic() < end) and not (self._sched._aborting and w is not None):
                _real_threading.Event().wait(0.0005)
        else:
            self._sched._yield("lock", "wait")
            while not token[0]:
                if w.giveup:
                    # every live thread is blocked: a timed wait runs out, an untimed one would sleep for ever
                    w.giveup = False
                    if timeout is None:
                        if token in self._waiters:
                            self._waiters.remove(token)
                        raise RuntimeError("deadlock: Condition.wait() without timeout was never notified and every other thread is blocked or done")
                    break
                if self._sched._aborting:
                    break
                self._sched._block_on_lock()
        if token in self._waiters:
            self._waiters.remove(token)
        self._lock.acquire()
        self._lock._depth = max(depth, 1)
        return token[0]

    def wait_for(self, predicate: Callable[[], Any], timeout: float | None = None) -> Any:
        r = predicate()
        while not r:
            if not self.wait(timeout) and timeout is not None:
                return predicate()
            r = predicate()
        return r

    def notify(self, n: int = 1) -> None:
        for token in self._waiters[:n]:
            token[0] = True
        del self._waiters[:n]
        self._sched._released()

    def notify_all(self) -> None:
        self.notify(len(self._waiters))


class _ThreadingShim:
    def __init__(self, sched: "LineSched"):
        self._sched = sched

    def Condition(self, lock: Any = None) -> _CoopCondition:  # noqa: N802
        return _CoopCondition(self._sched, lock)

    def Lock(self) -> _CoopLock:  # noqa: N802
        return _CoopLock(self._sched, False)

    def RLock(self) -> _CoopLock:  # noqa: N802
        return _CoopLock(self._sched, True)

    def __getattr__(self, name: str) -> Any:
        return getattr(_real_threading, name)


class LineSched(SqlSched):
    def __init__(self, line_targets: Iterable[Any] = (), lock_modules: Sequence[str] = (), patch: Sequence[tuple[str, str]] = (),
                 max_steps: int = 20000, deep_targets: Iterable[Any] = ()):
        super().__init__(patch=patch, max_steps=max_steps)
        self.line_targets = list(line_targets)  # functions / methods / classes whose lines are yield points
        # functions under which EVERY executed Python line is a yield point, also in callees and in the standard
        # library (e.g. a container whose `setdefault` is Python code): PY_START/PY_RETURN track the depth per thread
        self.deep_targets = list(deep_targets)
        self._deep_codes: list[types.CodeType] = []
        self.lock_modules = list(lock_modules)
        self._codes: list[types.CodeType] = []
        self._lsaved: list[tuple[Any, str, Any]] = []

    # -- code objects -----------------------------------------------------------------------------
    @staticmethod
    def _codes_of(obj: Any) -> list[types.CodeType]:
        out = []
        if isinstance(obj, type):
            for v in vars(obj).values():
                out += LineSched._codes_of(v)
            return out
        if isinstance(obj, (staticmethod, classmethod)):
            obj = obj.__func__
        if isinstance(obj, property):
            for f in (obj.fget, obj.fset):
                if f is not None:
                    out += LineSched._codes_of(f)
            return out
        f = getattr(obj, "__func__", obj)
        f = getattr(f, "__wrapped__", f)
        code = getattr(f, "__code__", None)
        if code is not None:
            out.append(code)
            # nested functions / lambdas / comprehensions defined inside (closures handed to other code) are lines of it too
            stack = [code]
            while stack:
                for c in stack.pop().co_consts:
                    if isinstance(c, types.CodeType):
                        out.append(c)
                        stack.append(c)
        return out

    def install(self) -> "LineSched":
        super().install()
        for t in self.line_targets:
            self._codes += self._codes_of(t)
        try:
            sys.monitoring.use_tool_id(TOOL, "verif-linesched")
        except ValueError:
            pass
        E = sys.monitoring.events
        sys.monitoring.register_callback(TOOL, E.LINE, self._on_line)
        for c in self._codes:
            sys.monitoring.set_local_events(TOOL, c, E.LINE)
        if self.deep_targets:
            for t in self.deep_targets:
                self._deep_codes += self._codes_of(t)
            sys.monitoring.register_callback(TOOL, E.PY_START, self._on_enter)
            sys.monitoring.register_callback(TOOL, E.PY_RETURN, self._on_leave)
            sys.monitoring.register_callback(TOOL, E.PY_UNWIND, self._on_unwind)
            for c in self._deep_codes:
                sys.monitoring.set_local_events(TOOL, c, E.LINE | E.PY_START | E.PY_RETURN)
            # global LINE events (filtered by the per-thread depth) and PY_UNWIND (not available as a local event)
            sys.monitoring.set_events(TOOL, E.LINE | E.PY_UNWIND)
        shim = _ThreadingShim(self)
        for m in self.lock_modules:
            mod = importlib.import_module(m)
            self._lsaved.append((mod, "threading", mod.threading))
            mod.threading = shim
        return self

    def uninstall(self) -> None:
        for c in self._codes + self._deep_codes:
            try:
                sys.monitoring.set_local_events(TOOL, c, 0)
            except Exception:
                pass
        try:
            sys.monitoring.set_events(TOOL, 0)
        except Exception:
            pass
        self._deep_codes.clear()
        try:
            sys.monitoring.register_callback(TOOL, sys.monitoring.events.LINE, None)
            sys.monitoring.free_tool_id(TOOL)
        except Exception:
            pass
        self._codes.clear()
        for mod, name, val in reversed(self._lsaved):
            setattr(mod, name, val)
        self._lsaved.clear()
        super().uninstall()

    # -- callbacks ----------------------------------------------------------------------------------
    def _on_line(self, code: types.CodeType, line: int) -> Any:
        if getattr(_tls, "worker", None) is not None and not self._aborting:
            if self._deep_codes and code not in self._codes_set():
                if getattr(_tls, "deep", 0) <= 0 or code.co_filename == __file__ or "sched_sql" in code.co_filename:
                    return None
            self._yield("line", f"{code.co_name}:{line}")
        return None

    def _codes_set(self) -> set:
        cs = getattr(self, "_cset", None)
        if cs is None or len(cs) != len(self._codes):
            cs = self._cset = set(self._codes)
        return cs

    def _on_enter(self, code: types.CodeType, offset: int) -> Any:
        if getattr(_tls, "worker", None) is not None:
            _tls.deep = getattr(_tls, "deep", 0) + 1
        return None

    def _on_unwind(self, code: types.CodeType, offset: int, exc: Any) -> Any:
        if code in self._deep_codes and getattr(_tls, "worker", None) is not None:
            _tls.deep = getattr(_tls, "deep", 0) - 1
        return None

    def _on_leave(self, code: types.CodeType, offset: int, val: Any) -> Any:
        if getattr(_tls, "worker", None) is not None:
            _tls.deep = getattr(_tls, "deep", 0) - 1
        return None

    def _block_on_lock(self) -> None:
        w = getattr(_tls, "worker", None)
        if w is None:
            return
        w.blocked = True
        if self._run is not None:
            self._run.lock_waits += 1
        self._back.release()
        w.go.acquire()

    def coop_lock(self, reentrant: bool = False) -> _CoopLock:
        return _CoopLock(self, reentrant)


class DeferredThreads:
    """Stand-in for the `threading` name of pynenc.state_backend.base_state_backend: the history-writer
    threads are not started but queued; `flush()` runs them (writers may run arbitrarily late)."""

    def __init__(self) -> None:
        self.pending: list["DeferredThreads._T"] = []

    class _T:
        def __init__(self, owner: "DeferredThreads", target: Callable, args: tuple = (), kwargs: dict | None = None, **_: Any):
            self.owner, self.target, self.args, self.kwargs = owner, target, args, kwargs or {}
            self.ran = False
            self.name = "deferred-history-writer"

        def start(self) -> None:
            self.owner.pending.append(self)

        def run_now(self) -> None:
            if not self.ran:
                self.ran = True
                self.target(*self.args, **self.kwargs)

        def join(self, timeout: float | None = None) -> None:
            self.run_now()

        def is_alive(self) -> bool:
            return not self.ran

    def Thread(self, target: Callable = None, args: tuple = (), kwargs: dict | None = None, **kw: Any) -> "DeferredThreads._T":  # noqa: N802
        return DeferredThreads._T(self, target, args, kwargs)

    def flush(self) -> int:
        n = 0
        while self.pending:
            t = self.pending.pop(0)
            t.run_now()
            n += 1
        return n

    def __getattr__(self, name: str) -> Any:
        return getattr(_real_threading, name)

    def install(self) -> "DeferredThreads":
        import pynenc.state_backend.base_state_backend as b

        self._saved = b.threading
        b.threading = self
        return self

    def uninstall(self) -> None:
        import pynenc.state_backend.base_state_backend as b

        b.threading = self._saved
