"""Helpers of the C13 check: instants, the generated cron family, an independent brute-force schedule
evaluator, small trigger configurations built on real apps, and the line-protocol rendering of the same
configurations / occurrences for the Lean driver.  Nothing here imports the Lean side's results."""
from __future__ import annotations

import datetime as dt
import random
from dataclasses import dataclass, field
from typing import Any

from harness.common import tok

UTC = dt.UTC
EPOCH = dt.datetime(1970, 1, 1, tzinfo=UTC)
US_MIN = 60_000_000
US_SEC = 1_000_000


def to_dt(us: int) -> dt.datetime:
    return EPOCH + dt.timedelta(microseconds=us)


def to_us(d: dt.datetime) -> int:
    if d.tzinfo is None:
        d = d.replace(tzinfo=UTC)
    x = d - EPOCH
    return (x.days * 86_400 + x.seconds) * US_SEC + x.microseconds


def toks(xs: list[str]) -> str:
    return ",".join(tok(x) for x in xs) if xs else "-"


# ------------------------------------------------------------------------------------------------
# cron family
# ------------------------------------------------------------------------------------------------

RANGES = [(0, 59), (0, 23), (1, 31), (1, 12), (0, 6)]
LEN_ALL = [60, 24, 31, 12, 7]


def gen_field(rng: random.Random, lo: int, hi: int, p_star: float = 0.3) -> str:
    if rng.random() < p_star:
        return "*"
    items = []
    for _ in range(rng.choice([1, 1, 2, 3])):
        k = rng.random()
        if k < 0.25:
            items.append(f"*/{rng.randint(1, max(2, (hi - lo) // 2))}")
        elif k < 0.55:
            items.append(str(rng.randint(lo, hi)))
        elif k < 0.8:
            a = rng.randint(lo, hi - 1)
            items.append(f"{a}-{rng.randint(a + 1, hi)}")
        else:
            a = rng.randint(lo, hi - 1)
            items.append(f"{a}-{rng.randint(a + 1, hi)}/{rng.randint(1, 5)}")
    return ",".join(items)


def gen_expr(rng: random.Random, dense: bool = False) -> list[str]:
    """Five fields: steps, lists, ranges, wildcards.  `dense` keeps hour/day fields mostly `*` so that poll
    sequences of a few hours meet several ticks."""
    if dense:
        return [gen_field(rng, 0, 59, 0.15), gen_field(rng, 0, 23, 0.8), "*", "*", gen_field(rng, 0, 6, 0.85)]
    return [
        gen_field(rng, 0, 59),
        gen_field(rng, 0, 23),
        gen_field(rng, 1, 31) if rng.random() < 0.5 else "*",
        gen_field(rng, 1, 12) if rng.random() < 0.35 else "*",
        gen_field(rng, 0, 6) if rng.random() < 0.5 else "*",
    ]


SPECIAL_EXPRS = [
    "* * * * *", "*/5 * * * *", "*/15 * * * *", "0 * * * *", "0 0 * * *", "0 0 1 1 *", "30 6 15 * 1-5", "0 0 1-31 * 1",
    "0 0 */1 * 1", "0 0 1-31 * */2", "0 0 * * 0-6", "0 0 5 * 0-6", "0-59 * * * *", "*/1 0-23 * 1-12 *", "0 12 1-31 2 3",
    "0 0 31 * *", "0 0 30,31 * 1", "0 0 29 2 *", "5 4 1-31/2 * 0-6/2", "0 0 1,15 * 5", "0,30 * * * *", "10-50/20 */2 * * *",
    "59 23 31 12 *", "0 0 1 */3 *", "*/7 * * * *", "3/10 * * * *",
]


# ------------------------------------------------------------------------------------------------
# independent brute-force evaluator (pure Python; no croniter, no Lean): minute by minute
# ------------------------------------------------------------------------------------------------

def _bf_items(text: str, lo: int, hi: int) -> set[int]:
    out: set[int] = set()
    for item in text.split(","):
        step = 1
        body = item
        if "/" in item:
            body, s = item.split("/")
            step = int(s)
        if body == "*":
            a, b = lo, hi
        elif "-" in body:
            a, b = (int(x) for x in body.split("-"))
        else:
            a = int(body)
            b = hi if "/" in item else a
        out.update(range(a, b + 1, step))
    return out


class BruteCron:
    """The schedule of a 5-field expression, evaluated minute by minute from the calendar.
    Day rule: when both day-of-month and day-of-week are restricted a day matches if either does; a field
    whose list covers its whole range counts as unrestricted, except a day field whose sibling is written
    without any `*` (that is how the scheduler library normalises, observed and re-checked against it)."""

    def __init__(self, fields: list[str]):
        self.fields = fields
        self.sets: list[set[int] | None] = []
        for i, f in enumerate(fields):
            lo, hi = RANGES[i]
            if f == "*":
                self.sets.append(None)
                continue
            vals = _bf_items(f, lo, hi)
            keep_list = (i == 2 and "*" not in fields[4]) or (i == 4 and "*" not in fields[2])
            self.sets.append(None if (len(vals) == LEN_ALL[i] and not keep_list) else vals)

    def tick(self, minute: int) -> bool:
        d = EPOCH + dt.timedelta(minutes=minute)
        mi, h, dom, mon, dow = self.sets
        if mi is not None and d.minute not in mi:
            return False
        if h is not None and d.hour not in h:
            return False
        if mon is not None and d.month not in mon:
            return False
        wd = (d.weekday() + 1) % 7  # Sunday = 0
        if dom is None and dow is None:
            return True
        if dom is None:
            return wd in dow  # type: ignore[operator]
        if dow is None:
            return d.day in dom
        return d.day in dom or wd in dow

    def latest(self, minute: int, back: int = 3 * 1440) -> int | None:
        """latest scheduled minute ≤ `minute`, looking at most `back` minutes back"""
        for m in range(minute, minute - back - 1, -1):
            if self.tick(m):
                return m
        return None


@dataclass
class CronCfg:
    window: int = 60
    min_interval: int = 50
    tolerance: int = 30
    strict: bool = False

    def line(self) -> str:
        return f"{self.window} {self.min_interval} {self.tolerance} {1 if self.strict else 0}"


def bf_in_window(bc: BruteCron, cfg: CronCfg, t: int) -> tuple[bool, int | None]:
    """the property's window: within `check_window_seconds` (and, in strict mode, within the tolerance)
    after the latest scheduled minute"""
    back = max(3 * 1440, cfg.window // 60 + 2)
    lt = bc.latest(t // US_MIN, back)
    if lt is None:
        return False, None
    diff = t - lt * US_MIN
    ok = 0 <= diff <= cfg.window * US_SEC and not (cfg.strict and diff > cfg.tolerance * US_SEC)
    return ok, lt


def bf_polls(bc: BruteCron, cfg: CronCfg, last: int | None, polls: list[int]) -> list[int]:
    """The property text, evaluated literally: a poll fires iff it lies in the window of the latest scheduled
    minute, that minute has not yielded an occurrence yet, and the previous firing is at least the minimum
    interval old."""
    fired: list[int] = []
    last_tick: int | None = None if last is None else bc.latest(last // US_MIN, 400 * 1440)
    for t in polls:
        ok, lt = bf_in_window(bc, cfg, t)
        if not ok:
            continue
        if last is not None and (t - last < cfg.min_interval * US_SEC):
            continue
        if last is not None and last_tick is not None and lt is not None and lt <= last_tick:
            continue
        fired.append(t)
        last, last_tick = t, lt
    return fired


def poll_sequence(rng: random.Random, style: str, start: int, n: int) -> list[int]:
    """non-decreasing poll instants (µs)"""
    t = start
    out = []
    for i in range(n):
        out.append(t)
        if style == "regular":
            t += 20 * US_SEC
        elif style == "regular7":
            t += 7 * US_SEC + 300_000
        elif style == "jitter":
            t += rng.randint(1, 45 * US_SEC)
        elif style == "bursty":
            t += rng.choice([0, 1, 1000, 250_000, 1 * US_SEC, 61 * US_SEC]) if rng.random() < 0.8 else rng.randint(30, 400) * US_SEC
        elif style == "gapped":
            t += rng.choice([5 * US_SEC, 30 * US_SEC, 59 * US_SEC, 60 * US_SEC, 61 * US_SEC, 10 * 60 * US_SEC, 3 * 3600 * US_SEC])
        elif style == "boundary":
            # sit on minute boundaries and one µs around them
            t = (t // US_MIN + rng.choice([0, 1, 1, 2])) * US_MIN + rng.choice([-1, 0, 0, 1, 59_999_999, 30_000_000])
            t = max(t, out[-1])
        else:
            raise ValueError(style)
    return out


POLL_STYLES = ["regular", "regular7", "jitter", "bursty", "gapped", "boundary"]


# ------------------------------------------------------------------------------------------------
# trigger configurations on real apps
# ------------------------------------------------------------------------------------------------

@dataclass
class CondSpec:
    kind: str  # event | status | result | exception | cron
    code: str = ""  # event code
    statuses: list[str] = field(default_factory=list)  # status values
    types: list[str] = field(default_factory=list)  # exception class names
    fields: list[str] = field(default_factory=list)  # cron
    cfg: CronCfg = field(default_factory=CronCfg)
    cid: str = ""  # filled when built (the real condition_id)


@dataclass
class TrigSpec:
    task: str  # "target" | "target2"
    conds: list[int]
    logic: str  # and | or
    prov: list[str]  # "s:<tag>" | "c:event" | "c:status" | "c:result" | "c:exception"
    tid: str = ""


@dataclass
class Config:
    conds: list[CondSpec]
    trigs: list[TrigSpec]

    def describe(self) -> dict:
        return {
            "conds": [{"kind": c.kind, "code": c.code, "statuses": c.statuses, "types": c.types, "cron": " ".join(c.fields),
                       "cfg": [c.cfg.window, c.cfg.min_interval, c.cfg.tolerance, c.cfg.strict] if c.kind == "cron" else None}
                      for c in self.conds],
            "trigs": [{"task": t.task, "conds": t.conds, "logic": t.logic, "prov": t.prov} for t in self.trigs],
        }

    @staticmethod
    def from_dict(d: dict) -> "Config":
        conds = []
        for c in d["conds"]:
            cfg = CronCfg(*c["cfg"]) if c.get("cfg") else CronCfg()
            conds.append(CondSpec(c["kind"], c.get("code", ""), c.get("statuses", []), c.get("types", []),
                                  c["cron"].split() if c.get("cron") else [], cfg))
        return Config(conds, [TrigSpec(t["task"], t["conds"], t["logic"], t["prov"]) for t in d["trigs"]])




class Built:
    """A configuration registered on a real app (and, optionally, the same lines for the Lean driver)."""

    def __init__(self, app: Any, cfg: Config):
        from harness import c13_tasks as T
        from pynenc.invocation.status import InvocationStatus
        from pynenc.trigger.conditions import CronCondition
        from pynenc.trigger.trigger_builder import TriggerBuilder

        self.app = app
        self.cfg = cfg
        self.src = app.task(T.source)
        self.src_key = self.src.task_id.key
        self.targets: dict[str, Any] = {}
        by_task: dict[str, list[TrigSpec]] = {}
        for t in cfg.trigs:
            by_task.setdefault(t.task, []).append(t)
        callbacks = {"c:event": ("with_args_from_event", T.args_from_event), "c:status": ("with_args_from_status", T.args_from_status),
                     "c:result": ("with_args_from_result", T.args_from_result), "c:exception": ("with_args_from_exception", T.args_from_exception)}
        self.builders: dict[str, list[Any]] = {}
        for task_name, specs in by_task.items():
            builders = []
            for ts in specs:
                b = TriggerBuilder()
                for ci in ts.conds:
                    c = cfg.conds[ci]
                    if c.kind == "event":
                        b.on_event(c.code)
                    elif c.kind == "status":
                        b.on_status(self.src, [InvocationStatus(s) for s in c.statuses])
                    elif c.kind == "result":
                        b.on_any_result(self.src)
                    elif c.kind == "exception":
                        b.on_exception(self.src, list(c.types))
                    elif c.kind == "cron":
                        b.add_condition(CronCondition(" ".join(c.fields), check_window_seconds=c.cfg.window,
                                                      min_interval_seconds=c.cfg.min_interval,
                                                      precision_tolerance_seconds=c.cfg.tolerance, strict_timing=c.cfg.strict))
                    c.cid = b.conditions[-1].condition_id
                b.with_logic(ts.logic)
                for p in ts.prov:
                    if p.startswith("s:"):
                        b.with_args_static({"tag": p[2:]})
                    else:
                        getattr(b, callbacks[p][0])(callbacks[p][1])
                ts.tid = b.build(self._task_id(task_name)).trigger_id
                builders.append(b)
            self.builders[task_name] = builders
            self.targets[task_name] = app.task(getattr(T, task_name), triggers=builders)
        for name in ("target", "target2"):
            if name not in self.targets:
                self.targets[name] = app.task(getattr(T, name))
        app.register_deferred_triggers()
        self._seen: dict[str, int] = {}

    def _task_id(self, name: str):  # noqa: ANN202
        from pynenc.identifiers.task_id import TaskId

        return TaskId("harness.c13_tasks", name)

    # -- model lines -------------------------------------------------------------------------------
    def cond_line(self, c: CondSpec) -> str:
        if c.kind == "event":
            return f"trg.cond.event {tok(c.cid)} {tok(c.code)}"
        if c.kind == "status":
            return f"trg.cond.status {tok(c.cid)} {tok(self.src_key)} {toks(c.statuses)}"
        if c.kind == "result":
            return f"trg.cond.result {tok(c.cid)} {tok(self.src_key)}"
        if c.kind == "exception":
            return f"trg.cond.exc {tok(c.cid)} {tok(self.src_key)} {toks(c.types)}"
        return f"trg.cond.cron {tok(c.cid)} {' '.join(c.fields)} {c.cfg.line()}"

    def registration_lines(self) -> list[str]:
        """what `register_task_triggers` does for every task, in `app.tasks` order, with a fresh local
        registry: clean the task's triggers, register each not-yet-seen condition, register the trigger"""
        lines: list[str] = []
        seen: set[str] = set()
        for task in self.app.tasks.values():
            name = task.task_id.func_name
            lines.append(f"trg.clean {tok(task.task_id.key)}")
            for ts in [t for t in self.cfg.trigs if t.task == name]:
                for ci in ts.conds:
                    c = self.cfg.conds[ci]
                    if c.cid not in seen:
                        seen.add(c.cid)
                        lines.append(self.cond_line(c))
                prov = ",".join(p if p.startswith("c:") else "s:" + tok(p[2:]) for p in ts.prov) or "-"
                lines.append(f"trg.trig {tok(ts.tid)} {tok(self._task_id(ts.task).key)} {ts.logic} "
                             f"{toks([self.cfg.conds[i].cid for i in ts.conds])} {prov}")
        return lines

    def reload_lines(self) -> list[str]:
        """`reload_task_conditions()` (also run by `purge()`): `Task` objects carry no `triggers` attribute, so
        every task's trigger definitions are removed and nothing is registered again"""
        return [f"trg.clean {tok(task.task_id.key)}" for task in self.app.tasks.values()]

    # -- observation ---------------------------------------------------------------------------------
    def launches(self) -> list[tuple[str, str, str]]:
        """every invocation registered so far for the triggered tasks: (task, tag, src), sorted"""
        out = []
        for name, task in self.targets.items():
            for inv_id in self.app.orchestrator.get_task_invocation_ids(task.task_id):
                kw = self.app.state_backend.get_invocation(inv_id).call.arguments.kwargs
                out.append((task.task_id.key, str(kw.get("tag", "-")), str(kw.get("src", "-"))))
        return sorted(out)

    def new_launches(self) -> list[tuple[str, str, str]]:
        """launches since the previous call (multiset difference)"""
        cur = self.launches()
        cnt: dict[tuple, int] = {}
        for x in cur:
            cnt[x] = cnt.get(x, 0) + 1
        new = []
        for x, n in sorted(cnt.items()):
            new += [x] * (n - self._seen.get("|".join(x), 0))
            self._seen["|".join(x)] = n
        return new

    def valid_ids(self) -> list[str]:
        return list(self.app.trigger.get_valid_conditions().keys())


def launch_token(x: tuple[str, str, str]) -> str:
    return ":".join(tok(v) for v in x)


def canon_valid(ids: list[str]) -> list[str]:
    """order of pending valid conditions, with the (unspecified) order among the conditions satisfied by one
    and the same context normalised"""
    out: list[str] = []
    run: list[str] = []
    cur = None
    for i in ids:
        ctx = i.rsplit("_context_", 1)[-1]
        if ctx != cur and run:
            out += sorted(run)
            run = []
        cur = ctx
        run.append(i)
    return out + sorted(run)


# ------------------------------------------------------------------------------------------------
# occurrences on a real app, with the matching model lines
# ------------------------------------------------------------------------------------------------

class Occurrences:
    def __init__(self, built: Built, runner: str = "r1"):
        from harness.apps import rctx

        self.b = built
        self.r = rctx(runner)
        self.log: list[dict] = []  # every occurrence, for the oracle: kind, identity, expected args per provider kind

    def event(self, code: str, n: str) -> list[str]:
        eid = self.b.app.trigger.emit_event(code, {"n": n})
        self.log.append({"kind": "event", "code": code, "id": eid, "n": n})
        return [f"trg.event {tok(code)} {tok(eid)} {tok(n)}"]

    def _status(self, inv: Any, status: Any, k: str) -> str:
        self.log.append({"kind": "status", "inv": inv.invocation_id, "status": status.value, "k": k})
        return f"trg.status {tok(self.b.src_key)} {tok(inv.invocation_id)} {tok(status.value)} {tok(k)}"

    def ok(self, k: str) -> list[str]:
        from pynenc.invocation.status import InvocationStatus as S

        o = self.b.app.orchestrator
        inv = self.b.src(k=k)
        lines = [self._status(inv, S.REGISTERED, k)]
        for st in (S.PENDING, S.RUNNING):
            o.set_invocation_status(inv.invocation_id, st, self.r)
            lines.append(self._status(inv, st, k))
        o.set_invocation_result(inv, k, self.r)
        lines.append(self._status(inv, S.SUCCESS, k))
        self.log.append({"kind": "result", "inv": inv.invocation_id, "k": k, "res": k})
        lines.append(f"trg.result {tok(self.b.src_key)} {tok(inv.invocation_id)} {tok(k)} {tok(k)}")
        return lines

    def fail(self, k: str, exc: str) -> list[str]:
        from pynenc.invocation.status import InvocationStatus as S

        o = self.b.app.orchestrator
        inv = self.b.src(k=k, fail=exc)
        lines = [self._status(inv, S.REGISTERED, k)]
        for st in (S.PENDING, S.RUNNING):
            o.set_invocation_status(inv.invocation_id, st, self.r)
            lines.append(self._status(inv, st, k))
        o.set_invocation_exception(inv, {"ValueError": ValueError, "KeyError": KeyError}[exc](k), self.r)
        lines.append(self._status(inv, S.FAILED, k))
        self.log.append({"kind": "exception", "inv": inv.invocation_id, "k": k, "type": exc})
        lines.append(f"trg.exc {tok(self.b.src_key)} {tok(inv.invocation_id)} {tok(exc)} {tok(k)}")
        return lines


def gen_config(rng: random.Random, with_cron: bool = False) -> Config:
    """1–3 conditions of mixed kinds, 1–2 triggers (AND / OR), providers that fit the conditions' kinds most of the time"""
    pool = [
        lambda: CondSpec("event", code=rng.choice(["e1", "e2"])),
        lambda: CondSpec("status", statuses=rng.choice([["success"], ["failed"], ["success", "failed"], ["running"], ["registered"]])),
        lambda: CondSpec("result"),
        lambda: CondSpec("exception", types=rng.choice([[], ["ValueError"], ["KeyError"], ["KeyError", "ValueError"]])),
    ]
    if with_cron:
        pool.append(lambda: CondSpec("cron", fields=rng.choice(["* * * * *", "*/2 * * * *", "*/5 * * * *"]).split(),
                                     cfg=CronCfg(rng.choice([60, 90, 120]), rng.choice([0, 30, 50]), 30, False)))
    conds: list[CondSpec] = []
    keys = set()
    for _ in range(rng.choice([1, 2, 2, 3, 3])):
        for _try in range(10):
            c = rng.choice(pool)()
            key = (c.kind, c.code, tuple(sorted(c.statuses)), tuple(sorted(c.types)), tuple(c.fields))
            if key not in keys:
                keys.add(key)
                c.statuses = sorted(c.statuses)
                c.types = sorted(c.types)
                conds.append(c)
                break
    trigs: list[TrigSpec] = []
    names = ["target", "target2"]
    ntrig = rng.choice([1, 1, 2])
    for ti in range(ntrig):
        k = rng.randint(1, len(conds))
        idx = sorted(rng.sample(range(len(conds)), k))
        logic = rng.choice(["and", "or"])
        kinds = [conds[i].kind for i in idx]
        fit = []
        for kd in kinds:
            if kd != "cron" and "c:" + kd not in fit:
                fit.append("c:" + kd)
        r = rng.random()
        if r < 0.15:
            prov: list[str] = []
        elif r < 0.3:
            prov = ["s:static"]
        elif r < 0.9 or not fit or ntrig > 1:  # a provider that cannot fit only with a single trigger (abort order)
            rng.shuffle(fit)
            prov = fit if (logic == "or" or rng.random() < 0.5) else fit[:1]
            if "c:result" in prov and rng.random() < 0.3:
                prov = ["c:status"] + [p for p in prov if p != "c:status"]
        else:
            prov = [rng.choice(["c:event", "c:status", "c:result", "c:exception"])]  # may not fit: provider error
        trigs.append(TrigSpec(names[ti], idx, logic, prov))
    if ntrig > 1:
        # with several triggers the order in which they are processed is unspecified, so what has been launched when a
        # provider raises is too: keep providers that cannot raise
        for t in trigs:
            if may_raise(conds, t):
                t.prov = ["s:static"]
    return Config(conds, trigs)


def may_raise(conds: list[CondSpec], t: TrigSpec) -> bool:
    if not t.prov or any(p.startswith("s:") for p in t.prov):
        return False
    kinds = [conds[i].kind for i in t.conds]

    def covers(kd: str) -> bool:
        return any((p == "c:" + kd) or (p == "c:status" and kd in ("status", "result", "exception")) for p in t.prov)

    if t.logic == "or" or len(t.conds) == 1:
        return not all(covers(k) for k in kinds)
    return not any(covers(k) for k in kinds)
