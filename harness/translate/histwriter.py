"""Translator for C10 (flush): how `BaseStateBackend` keeps track of its background history writers -> `Gen/HistWriter.lean`.

Read from the source of `pynenc/state_backend/base_state_backend.py` on every run (AST, no execution):

* for `add_history` and `add_histories`: the order of the three events that matter for the flush —
  `create` (a `threading.Thread(...)` is built), `track` (it is appended to `self.invocation_threads[...]`), `start`
  (`thread.start()`), as they occur in program order, following calls to other methods of the class;
* every OTHER way the class touches `invocation_threads` (anything that is not `.append(...)`, a plain read in a
  `for` / `[...]` or the initial assignment): item/slice assignment, `del`, `.remove`, `.clear`, `.pop`, re-binding.
"""
from __future__ import annotations

import ast
from pathlib import Path

from harness.common import REPO

SRC = "pynenc/state_backend/base_state_backend.py"
ATTR = "invocation_threads"


def _cls() -> ast.ClassDef:
    tree = ast.parse((Path(REPO) / SRC).read_text())
    return next(n for n in tree.body if isinstance(n, ast.ClassDef) and n.name == "BaseStateBackend")


def _mentions(node: ast.AST) -> bool:
    return any(isinstance(x, ast.Attribute) and x.attr == ATTR for x in ast.walk(node))


def _events(fn: ast.FunctionDef, methods: dict[str, ast.FunctionDef], depth: int = 0) -> list[str]:
    out: list[str] = []
    for node in _ordered(fn):
        if isinstance(node, ast.Call):
            f = node.func
            if isinstance(f, ast.Attribute) and f.attr == "Thread":
                out.append("create")
            elif isinstance(f, ast.Attribute) and f.attr == "append" and _mentions(f.value):
                out.append("track")
            elif isinstance(f, ast.Attribute) and f.attr == "start":
                out.append("start")
            elif isinstance(f, ast.Attribute) and isinstance(f.value, ast.Name) and f.value.id == "self" and f.attr in methods and depth < 3:
                sub = _events(methods[f.attr], methods, depth + 1)
                out += sub
    return out


def _ordered(fn: ast.FunctionDef) -> list[ast.AST]:
    """calls of a function body in source order (line, column)"""
    calls = [n for n in ast.walk(fn) if isinstance(n, ast.Call)]
    return sorted(calls, key=lambda n: (n.lineno, n.col_offset))


def _other_touches(cls: ast.ClassDef) -> list[str]:
    out: list[str] = []
    for fn in [n for n in cls.body if isinstance(n, ast.FunctionDef)]:
        for node in ast.walk(fn):
            what = None
            if isinstance(node, (ast.Assign, ast.AugAssign, ast.AnnAssign)):
                targets = node.targets if isinstance(node, ast.Assign) else [node.target]
                for t in targets:
                    if isinstance(t, ast.Subscript) and _mentions(t.value):
                        what = "assign-item"
                    elif isinstance(t, ast.Attribute) and t.attr == ATTR and fn.name != "__init__":
                        what = "rebind"
                # an alias of the list that is then assigned through (`threads = self.invocation_threads[i]; threads[:] = ...`)
                if what is None and isinstance(node, ast.Assign) and _mentions(node.value) and not isinstance(node.value, ast.Call):
                    names = [t.id for t in node.targets if isinstance(t, ast.Name)]
                    for later in ast.walk(fn):
                        if isinstance(later, (ast.Assign, ast.AugAssign)):
                            ts = later.targets if isinstance(later, ast.Assign) else [later.target]
                            if any(isinstance(t, ast.Subscript) and isinstance(t.value, ast.Name) and t.value.id in names for t in ts):
                                what = "assign-item-through-alias"
                        if isinstance(later, ast.Call) and isinstance(later.func, ast.Attribute) and isinstance(later.func.value, ast.Name) \
                                and later.func.value.id in names and later.func.attr in ("remove", "clear", "pop"):
                            what = later.func.attr + "-through-alias"
            elif isinstance(node, ast.Delete) and any(_mentions(t) for t in node.targets):
                what = "del"
            elif isinstance(node, ast.Call) and isinstance(node.func, ast.Attribute) and node.func.attr in ("remove", "clear", "pop", "discard") \
                    and _mentions(node.func.value):
                what = node.func.attr
            if what:
                out.append(f"{fn.name}:{what}")
    # the concrete state backends are not expected to know about the list at all
    for f in ("pynenc/state_backend/mem_state_backend.py", "pynenc/state_backend/sqlite_state_backend.py"):
        if ATTR in (Path(REPO) / f).read_text():
            out.append(f"{Path(f).name}:mention")
    return sorted(set(out))


def extract() -> dict:
    cls = _cls()
    methods = {n.name: n for n in cls.body if isinstance(n, ast.FunctionDef)}
    return {
        "add_history": _events(methods["add_history"], methods),
        "add_histories": _events(methods["add_histories"], methods),
        "other": _other_touches(cls),
        "flush_joins_all": _flush_shape(methods),
    }


def _flush_shape(methods: dict[str, ast.FunctionDef]) -> bool:
    """`wait_for_invocation_async_operations` is `for thread in self.invocation_threads[id]: thread.join()`"""
    fn = methods.get("wait_for_invocation_async_operations")
    if fn is None:
        return False
    loops = [n for n in ast.walk(fn) if isinstance(n, ast.For)]
    return any(_mentions(lp.iter) and any(isinstance(c, ast.Call) and isinstance(c.func, ast.Attribute) and c.func.attr == "join" for c in ast.walk(lp)) for lp in loops)


def gen() -> dict[str, str]:
    d = extract()
    q = chr(34)

    def lst(xs: list[str]) -> str:
        return "[" + ", ".join(q + x + q for x in xs) + "]"

    body = (
        "/- GENERATED by harness/translate/histwriter.py from pynenc/state_backend/base_state_backend.py — do not edit -/\n"
        "namespace Pynenc.Gen.HistWriter\n\n"
        f"def addHistory : List String := {lst(d['add_history'])}\n"
        f"def addHistories : List String := {lst(d['add_histories'])}\n"
        f"def otherTouches : List String := {lst(d['other'])}\n"
        f"def flushJoinsAll : Bool := {'true' if d['flush_joins_all'] else 'false'}\n\n"
        "end Pynenc.Gen.HistWriter\n"
    )
    return {"HistWriter.lean": body}


if __name__ == "__main__":
    print(extract())
