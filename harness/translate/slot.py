"""Translator for C12: the arithmetic of `calculate_time_slot` and `is_runner_in_time_slot` -> `Gen/Slot.lean`.

Read from `pynenc/orchestrator/atomic_service.py` on every run (AST, no execution).  The function bodies are straight-line float
arithmetic with one conditional re-assignment; they are re-expressed over ℚ with the rounding function `fl` applied after every
operation Python performs on floats (integer sub-expressions — `runner_position + 1` — are exact).  The block guarded by
`if active_runners:` (execution history) must not assign any variable: what it assigns is listed in `historyAssigns`.
`%` on floats is C `fmod` (exact for the operands used: checked on every instant by the correspondence).
"""
from __future__ import annotations

import ast
from pathlib import Path

from harness.common import REPO

SRC = "pynenc/orchestrator/atomic_service.py"

# parameter -> (Lean term, type)
PARAMS_SLOT = {"runner_position": ("p", "int"), "total_runners": ("n", "int"), "service_interval_minutes": ("imin", "float"),
               "spread_margin_minutes": ("mmin", "float")}
PARAMS_IN = {"current_time": ("t", "float"), "service_interval_minutes": ("imin", "float"), "start_time": ("s", "float"), "end_time": ("e", "float")}


class Untranslatable(Exception):
    pass


def _fn(name: str) -> ast.FunctionDef:
    tree = ast.parse((Path(REPO) / SRC).read_text())
    return next(n for n in tree.body if isinstance(n, ast.FunctionDef) and n.name == name)


def _as_rat(term: str, typ: str) -> str:
    if typ == "const":
        return f"({term} : Rat)"
    return f"(({term} : Nat) : Rat)" if typ == "int" else term


def _expr(e: ast.AST, env: dict[str, tuple[str, str]]) -> tuple[str, str]:
    if isinstance(e, ast.Name):
        if e.id not in env:
            raise Untranslatable(f"unknown name {e.id}")
        return env[e.id]
    if isinstance(e, ast.Constant) and isinstance(e.value, int) and not isinstance(e.value, bool):
        return (str(e.value), "const")
    if isinstance(e, ast.Constant) and isinstance(e.value, float):
        a, b = e.value.as_integer_ratio()
        return (f"(({a} : Rat) / {b})", "float")
    if isinstance(e, ast.BinOp) and isinstance(e.op, (ast.Add, ast.Sub, ast.Mult, ast.Div, ast.Mod)):
        (l, lt), (r, rt) = _expr(e.left, env), _expr(e.right, env)
        if lt in ("int", "const") and rt in ("int", "const") and isinstance(e.op, (ast.Add, ast.Mult)):
            return (f"({l} {'+' if isinstance(e.op, ast.Add) else '*'} {r})", "int")
        if isinstance(e.op, ast.Mod):
            return (f"(Pynenc.AS.fmod {_as_rat(l, lt)} {_as_rat(r, rt)})", "float")
        op = {ast.Add: "+", ast.Sub: "-", ast.Mult: "*", ast.Div: "/"}[type(e.op)]
        return (f"(fl ({_as_rat(l, lt)} {op} {_as_rat(r, rt)}))", "float")
    raise Untranslatable(ast.dump(e)[:80])


def _cond(e: ast.AST, env: dict[str, tuple[str, str]], prop: bool = False) -> str:
    if isinstance(e, ast.Compare):
        terms = [e.left] + list(e.comparators)
        parts = []
        for a, op, b in zip(terms, e.ops, terms[1:]):
            sym = {ast.LtE: "≤", ast.Lt: "<", ast.GtE: "≥", ast.Gt: ">"}.get(type(op))
            if sym is None:
                raise Untranslatable("comparison " + type(op).__name__)
            (l, lt), (r, rt) = _expr(a, env), _expr(b, env)
            parts.append(f"({_as_rat(l, lt)} {sym} {_as_rat(r, rt)})" if prop else f"decide ({_as_rat(l, lt)} {sym} {_as_rat(r, rt)})")
        return (" ∧ " if prop else " && ").join(parts)
    raise Untranslatable(ast.dump(e)[:80])


def _assigned(stmts: list[ast.stmt]) -> list[str]:
    out = []
    for s in stmts:
        for n in ast.walk(s):
            if isinstance(n, (ast.Assign, ast.AugAssign, ast.AnnAssign)):
                targets = n.targets if isinstance(n, ast.Assign) else [n.target]
                for t in targets:
                    for x in ast.walk(t):
                        if isinstance(x, ast.Name):
                            out.append(x.id)
            elif isinstance(n, ast.NamedExpr) and isinstance(n.target, ast.Name):
                out.append(n.target.id)
    return out


def translate_slot() -> dict:
    fn = _fn("calculate_time_slot")
    env: dict[str, tuple[str, str]] = dict(PARAMS_SLOT)
    lets: list[str] = []
    history: list[str] = []
    ret: tuple[str, str] | None = None
    k = 0
    for s in fn.body:
        if isinstance(s, ast.Expr) and isinstance(s.value, ast.Constant):
            continue
        if isinstance(s, ast.Assign) and len(s.targets) == 1 and isinstance(s.targets[0], ast.Name):
            term, typ = _expr(s.value, env)
            k += 1
            v = f"v{k}_{s.targets[0].id}"
            lets.append(f"let {v} := {_as_rat(term, typ)}")
            env[s.targets[0].id] = (v, "float")
            continue
        if isinstance(s, ast.If) and isinstance(s.test, ast.Name) and s.test.id == "active_runners":
            # execution history: may look, must not assign anything the result is computed from
            names = [n for n in _assigned(s.body + s.orelse) if n in env and n not in ("allocated_slot", "runner_info", "duration")]
            history += sorted(set(names))
            continue
        if isinstance(s, ast.If) and not s.orelse and all(isinstance(b, ast.Assign) and len(b.targets) == 1 and isinstance(b.targets[0], ast.Name) for b in s.body):
            c = _cond(s.test, env, prop=True)
            for b in s.body:
                name = b.targets[0].id  # type: ignore[union-attr]
                if name not in env:
                    raise Untranslatable(f"conditional first assignment of {name}")
                term, typ = _expr(b.value, env)  # type: ignore[union-attr]
                k += 1
                v = f"v{k}_{name}"
                lets.append(f"let {v} := if {c} then {_as_rat(term, typ)} else {env[name][0]}")
                env[name] = (v, "float")
            continue
        if isinstance(s, ast.Return) and isinstance(s.value, ast.Tuple) and len(s.value.elts) == 2:
            a, b = (_expr(x, env) for x in s.value.elts)
            ret = (_as_rat(*a), _as_rat(*b))
            continue
        raise Untranslatable(f"statement at line {s.lineno}: {type(s).__name__}")
    if ret is None:
        raise Untranslatable("no return of a pair")
    return {"lets": lets, "start": ret[0], "end": ret[1], "history": history}


def translate_in_slot() -> dict:
    fn = _fn("is_runner_in_time_slot")
    env: dict[str, tuple[str, str]] = dict(PARAMS_IN)
    lets: list[str] = []
    ret = None
    k = 0
    for s in fn.body:
        if isinstance(s, ast.Expr) and isinstance(s.value, ast.Constant):
            continue
        if isinstance(s, ast.Assign) and len(s.targets) == 1 and isinstance(s.targets[0], ast.Name):
            term, typ = _expr(s.value, env)
            k += 1
            v = f"w{k}_{s.targets[0].id}"
            lets.append(f"let {v} := {_as_rat(term, typ)}")
            env[s.targets[0].id] = (v, "float")
            continue
        if isinstance(s, ast.Return):
            ret = _cond(s.value, env)
            continue
        raise Untranslatable(f"statement at line {s.lineno}: {type(s).__name__}")
    if ret is None:
        raise Untranslatable("no return")
    return {"lets": lets, "ret": ret}


def gen() -> dict[str, str]:
    head = ("/- GENERATED by harness/translate/slot.py from pynenc/orchestrator/atomic_service.py — do not edit -/\n"
            "import PynencModel.Model.AtomicService\n"
            "namespace Pynenc.Gen.Slot\n\n")
    try:
        a, b = translate_slot(), translate_in_slot()
        q = chr(34)
        lets = "".join(f"  {x}\n" for x in a["lets"])
        body = (
            "def translated : Bool := true\n"
            f"def historyAssigns : List String := [{', '.join(q + x + q for x in a['history'])}]\n\n"
            "/-- `calculate_time_slot(p, n, imin, mmin)[0]` -/\n"
            "def slotStart (fl : Rat → Rat) (imin mmin : Rat) (n p : Nat) : Rat :=\n" + lets + f"  {a['start']}\n\n"
            "/-- `calculate_time_slot(p, n, imin, mmin)[1]` -/\n"
            "def slotEnd (fl : Rat → Rat) (imin mmin : Rat) (n p : Nat) : Rat :=\n" + lets + f"  {a['end']}\n\n"
            "/-- `is_runner_in_time_slot(t, imin, s, e)` -/\n"
            "def inSlot (fl : Rat → Rat) (t imin s e : Rat) : Bool :=\n" + "".join(f"  {x}\n" for x in b["lets"]) + f"  {b['ret']}\n\n"
        )
    except Untranslatable as ex:
        # the source no longer has the shape the translator understands: the theorems about Gen.Slot do not check
        body = (f"-- not translatable: {str(ex)[:160]}\n"
                "def translated : Bool := false\n"
                "def historyAssigns : List String := []\n"
                "def slotStart (fl : Rat → Rat) (imin mmin : Rat) (n p : Nat) : Rat := 0\n"
                "def slotEnd (fl : Rat → Rat) (imin mmin : Rat) (n p : Nat) : Rat := 0\n"
                "def inSlot (fl : Rat → Rat) (t imin s e : Rat) : Bool := false\n\n")
    return {"Slot.lean": head + body + "end Pynenc.Gen.Slot\n"}


if __name__ == "__main__":
    print(gen()["Slot.lean"])
