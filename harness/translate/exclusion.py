"""Translator for C02 (in-memory exclusion): how `MemOrchestrator` keeps one invocation's read-validate-write to one thread
-> `Gen/Exclusion.lean`.  Read from `pynenc/orchestrator/mem_orchestrator.py` on every run (AST, no execution):

* `lookup`: the form of `_get_invocation_lock` — `"setdefault"` when its only statement is
  `return self.locks.setdefault(invocation_id, threading.Lock())`, `"check-then-create"` when it tests membership first,
  `"absent"` when the function does not exist, otherwise `"other"`;
* `transition`: the events of `_atomic_status_transition` in program order — `lookup` (the lock is fetched for the SAME id),
  `enter` / `leave` (the `with` on that lock), `read` (the record is read), `decide` (`status_record_transition`), `write`
  (`_interanl_atomic_status_transition`);
* `tableTouches`: every other place of the class that mutates `self.locks`;
* `unlockedWriters`: every other function of the class that writes `invocation_status_record[...]` / calls the internal write.
"""
from __future__ import annotations

import ast
from pathlib import Path

from harness.common import REPO

SRC = "pynenc/orchestrator/mem_orchestrator.py"


def _cls() -> ast.ClassDef:
    tree = ast.parse((Path(REPO) / SRC).read_text())
    return next(n for n in tree.body if isinstance(n, ast.ClassDef) and n.name == "MemOrchestrator")


def _is_self_attr(n: ast.AST, attr: str) -> bool:
    return isinstance(n, ast.Attribute) and n.attr == attr and isinstance(n.value, ast.Name) and n.value.id == "self"


def _lookup(methods: dict[str, ast.FunctionDef]) -> str:
    fn = methods.get("_get_invocation_lock")
    if fn is None:
        return "absent"
    body = [s for s in fn.body if not (isinstance(s, ast.Expr) and isinstance(s.value, ast.Constant))]  # drop the docstring
    if len(body) == 1 and isinstance(body[0], ast.Return) and isinstance(body[0].value, ast.Call):
        c = body[0].value
        if isinstance(c.func, ast.Attribute) and c.func.attr == "setdefault" and _is_self_attr(c.func.value, "locks") and len(c.args) == 2 \
                and isinstance(c.args[0], ast.Name) and c.args[0].id == "invocation_id" \
                and isinstance(c.args[1], ast.Call) and isinstance(c.args[1].func, ast.Attribute) and c.args[1].func.attr in ("Lock", "RLock"):
            return "setdefault"
    if any(isinstance(n, ast.Compare) and any(isinstance(o, (ast.In, ast.NotIn)) for o in n.ops) for n in ast.walk(fn)) or \
            any(isinstance(n, ast.Call) and isinstance(n.func, ast.Attribute) and n.func.attr == "get" and _is_self_attr(n.func.value, "locks") for n in ast.walk(fn)):
        return "check-then-create"
    return "other"


def _events_of(node: ast.AST) -> list[tuple[int, int, str]]:
    out = []
    for n in ast.walk(node):
        if isinstance(n, ast.Call) and _is_self_attr(n.func, "_interanl_atomic_status_transition"):
            out.append((n.lineno, n.col_offset, "write"))
        elif isinstance(n, ast.Call) and isinstance(n.func, ast.Name) and n.func.id == "status_record_transition":
            out.append((n.lineno, n.col_offset, "decide"))
        elif _is_self_attr(n, "invocation_status_record"):
            out.append((n.lineno, n.col_offset, "read"))
        elif _is_self_attr(n, "status_index"):
            out.append((n.lineno, n.col_offset, "index"))
    return out


def _transition(methods: dict[str, ast.FunctionDef]) -> list[str]:
    fn = methods.get("_atomic_status_transition")
    if fn is None:
        return ["absent"]
    out: list[str] = []
    lock_names: set[str] = set()

    def is_lookup(v: ast.AST) -> bool:
        return isinstance(v, ast.Call) and _is_self_attr(v.func, "_get_invocation_lock") and len(v.args) == 1 \
            and isinstance(v.args[0], ast.Name) and v.args[0].id == "invocation_id"

    def walk(stmts: list[ast.stmt]) -> None:
        for s in stmts:
            if isinstance(s, ast.Expr) and isinstance(s.value, ast.Constant):
                continue
            if isinstance(s, ast.Assign) and is_lookup(s.value):
                out.append("lookup")
                lock_names.update(t.id for t in s.targets if isinstance(t, ast.Name))
                continue
            if isinstance(s, ast.With):
                item = s.items[0].context_expr
                if isinstance(item, ast.Name) and item.id in lock_names:
                    out.append("enter")
                elif is_lookup(item):
                    out.extend(["lookup", "enter"])
                else:
                    out.append("enter-other:" + ast.unparse(item)[:40])
                walk(s.body)
                out.append("leave")
                continue
            if isinstance(s, (ast.If, ast.Try, ast.For, ast.While)):
                for part in (getattr(s, "test", None), getattr(s, "iter", None)):
                    if part is not None:
                        out.extend(e for _, _, e in sorted(_events_of(part)))
                for blk in ("body", "orelse", "finalbody"):
                    walk(getattr(s, blk, []) or [])
                for h in getattr(s, "handlers", []) or []:
                    walk(h.body)
                continue
            out.extend(e for _, _, e in sorted(_events_of(s)))

    walk(fn.body)
    # consecutive duplicates say nothing more
    dedup: list[str] = []
    for e in out:
        if not dedup or dedup[-1] != e:
            dedup.append(e)
    return dedup


def _table_touches(cls: ast.ClassDef) -> list[str]:
    out = []
    for fn in [n for n in cls.body if isinstance(n, ast.FunctionDef)]:
        if fn.name in ("_get_invocation_lock",):
            continue
        for n in ast.walk(fn):
            if isinstance(n, ast.Call) and isinstance(n.func, ast.Attribute) and _is_self_attr(n.func.value, "locks") \
                    and n.func.attr in ("clear", "pop", "popitem", "update", "setdefault", "__setitem__", "__delitem__"):
                out.append(f"{fn.name}:{n.func.attr}")
            elif isinstance(n, (ast.Assign, ast.AnnAssign, ast.AugAssign, ast.Delete)):
                targets = n.targets if isinstance(n, (ast.Assign, ast.Delete)) else [n.target]
                for t in targets:
                    if isinstance(t, ast.Subscript) and _is_self_attr(t.value, "locks"):
                        out.append(f"{fn.name}:{'del' if isinstance(n, ast.Delete) else 'assign-item'}")
                    elif _is_self_attr(t, "locks") and fn.name != "__init__":
                        out.append(f"{fn.name}:rebind")
    return sorted(set(out))


def _unlocked_writers(cls: ast.ClassDef) -> list[str]:
    out = []
    for fn in [n for n in cls.body if isinstance(n, ast.FunctionDef)]:
        if fn.name in ("_atomic_status_transition", "_interanl_atomic_status_transition", "__init__"):
            continue
        for n in ast.walk(fn):
            if isinstance(n, ast.Call) and _is_self_attr(n.func, "_interanl_atomic_status_transition"):
                out.append(f"{fn.name}:write")
            elif isinstance(n, (ast.Assign, ast.AugAssign)):
                targets = n.targets if isinstance(n, ast.Assign) else [n.target]
                if any(isinstance(t, ast.Subscript) and _is_self_attr(t.value, "invocation_status_record") for t in targets):
                    out.append(f"{fn.name}:assign-record")
    return sorted(set(out))


def extract() -> dict:
    cls = _cls()
    methods = {n.name: n for n in cls.body if isinstance(n, ast.FunctionDef)}
    return {"lookup": _lookup(methods), "transition": _transition(methods), "table": _table_touches(cls), "writers": _unlocked_writers(cls)}


def gen() -> dict[str, str]:
    d = extract()
    q = chr(34)

    def lst(xs: list[str]) -> str:
        return "[" + ", ".join(q + x.replace(q, "'") + q for x in xs) + "]"

    body = (
        "/- GENERATED by harness/translate/exclusion.py from pynenc/orchestrator/mem_orchestrator.py — do not edit -/\n"
        "namespace Pynenc.Gen.Exclusion\n\n"
        f"def lookup : String := {q}{d['lookup']}{q}\n"
        f"def transition : List String := {lst(d['transition'])}\n"
        f"def tableTouches : List String := {lst(d['table'])}\n"
        f"def unlockedWriters : List String := {lst(d['writers'])}\n\n"
        "end Pynenc.Gen.Exclusion\n"
    )
    return {"Exclusion.lean": body}


if __name__ == "__main__":
    print(extract())
