"""Translator for C17: the SQLite storage naming templates of the current tree -> `Gen/TableNames.lean`.

Read from the real code on every run:
* `components`: for each `Tables` class (broker, orchestrator, state backend, trigger, client data store) the component
  label and the table suffixes, obtained by instantiating the class for probe ids and stripping the prefix that
  `sanitize_table_prefix` returns (a name that is not `<prefix>__<component>_<table>` goes to `nonconforming`);
* `indexes`: every `CREATE INDEX` the components issue while being built (name must be `idx_<table>_<suffix>`);
* `stmtRefs`: every storage object named by any SQL statement a probe application issues while a scripted scenario
  runs every operation family of every component (route, retrieve, status changes, results, history, heartbeats,
  waits, workflow data, client data, triggers/conditions/claims, purge of each component), classified as table / index
  of the application itself; anything else that looks like a storage name goes to `badRefs`.
"""
from __future__ import annotations

import importlib
import os
import re
import shutil
import tempfile

TABLES_CLASSES = [
    ("pynenc.broker.sqlite_broker", "broker"),
    ("pynenc.orchestrator.sqlite_orchestrator", "orchestrator"),
    ("pynenc.state_backend.sqlite_state_backend", "state_backend"),
    ("pynenc.trigger.sqlite_trigger", "trigger"),
    ("pynenc.client_data_store.sqlite_client_data_store", "client_data_store"),
]
PROBES = ["probe", "Other-Probe 2"]


def lstr(s: str) -> str:
    return '"' + s.replace("\\", "\\\\").replace('"', '\\"') + '"'


def templates() -> tuple[list[tuple[str, str, list[str]]], list[str]]:
    """[(app attribute, component label, [table suffix…])], nonconforming"""
    from pynenc.util.sqlite_utils import sanitize_table_prefix

    per_probe = []
    bad: list[str] = []
    for probe in PROBES:
        pref = sanitize_table_prefix(probe)
        rows = []
        for mod, attr in TABLES_CLASSES:
            t = importlib.import_module(mod).Tables(probe)
            tp = t.table_prefix
            if not tp.startswith(pref + "__"):
                bad.append(f"{attr}: table_prefix {tp!r} is not {pref!r}__<component>")
                comp = tp
            else:
                comp = tp[len(pref) + 2:]
            sufs = []
            for name in t.all_table_names():
                if name.startswith(tp + "_"):
                    sufs.append(name[len(tp) + 1:])
                else:
                    bad.append(f"{attr}: table {name!r} is not {tp!r}_<table>")
            # attributes that hold a name but are not reported by all_table_names()
            for k, v in vars(t).items():
                if isinstance(v, str) and k != "table_prefix" and v not in t.all_table_names():
                    bad.append(f"{attr}: attribute {k}={v!r} is not reported by all_table_names()")
            rows.append((attr, comp, sufs))
        per_probe.append(rows)
    if per_probe[0] != per_probe[1]:
        bad.append("templates depend on the application id beyond the prefix")
    return per_probe[0], bad


def traced_refs(comps: list[tuple[str, str, list[str]]]) -> tuple[list[tuple[str, str, str]], list[tuple[str, str, str]], list[str], int]:
    """(indexes, refs, bad, statements): run a probe application under the SQL tracer."""
    from harness.c17lib import Handle, Tracer, sql_idents

    tmp = tempfile.mkdtemp(prefix="verif-c17-tr-")
    tr = Tracer().install()
    try:
        h = Handle("sqlite", tmp, PROBES[0], os.path.join(tmp, "probe.db"), tr)
        script = [op for op in Handle.OPS if not op.startswith("purge")] * 2 + [op for op in Handle.OPS if op.startswith("purge")]
        for k, op in enumerate(script):
            h.do(op, 7 * k + 3)
        h.readout()
        log = tr.take()
    finally:
        tr.uninstall()
        shutil.rmtree(tmp, ignore_errors=True)
    from pynenc.util.sqlite_utils import sanitize_table_prefix

    pref = sanitize_table_prefix(PROBES[0])
    own = {}
    for _attr, comp, sufs in comps:
        for s in sufs:
            own[f"{pref}__{comp}_{s}".lower()] = (comp, s)
    indexes: set[tuple[str, str, str]] = set()
    refs: set[tuple[str, str, str]] = set()
    bad: set[str] = set()
    for _actor, sql in log:
        for tok in sql_idents(sql):
            t = tok.lower()
            if t in own:
                refs.add(("table",) + own[t][:1] + own[t][1:])  # type: ignore[arg-type]
                continue
            if "__" in t or pref.lower() in t:
                m = None
                if t.startswith("idx_"):
                    for name, (comp, s) in own.items():
                        if t.startswith("idx_" + name + "_"):
                            m = (comp, s, tok[len("idx_" + name + "_"):])
                if m:
                    indexes.add(m)
                else:
                    bad.add(tok)
    return sorted(indexes), sorted(refs), sorted(bad), len(log)


def purge_modes(comps: list[tuple[str, str, list[str]]]) -> list[tuple[str, bool]]:
    """For every component: does `purge()` spare a foreign table whose name merely starts with the component's prefix?
    (a decoy `<table_prefix>x_decoy` with one row is planted next to a probe application; the legacy LIKE purge empties it)"""
    import sqlite3

    from harness.c17lib import Handle

    tmp = tempfile.mkdtemp(prefix="verif-c17-pm-")
    out = []
    try:
        db = os.path.join(tmp, "probe.db")
        h = Handle("sqlite", tmp, PROBES[0], db)
        for attr, comp, _sufs in comps:
            c = getattr(h.app, attr)
            decoy = c.tables.table_prefix + "x_decoy"
            con = sqlite3.connect(db)
            con.execute(f'CREATE TABLE IF NOT EXISTS "{decoy}" (x)')
            con.execute(f'DELETE FROM "{decoy}"')
            con.execute(f'INSERT INTO "{decoy}" VALUES (1)')
            con.commit()
            con.close()
            c.purge()
            con = sqlite3.connect(db)
            n = con.execute(f'SELECT count(*) FROM "{decoy}"').fetchone()[0]
            con.close()
            out.append((comp, n == 1))
    finally:
        shutil.rmtree(tmp, ignore_errors=True)
    return out


def gen_table_names() -> str:
    comps, bad = templates()
    try:
        indexes, refs, badrefs, nstmt = traced_refs(comps)
    except BaseException as e:  # noqa: BLE001  (a probe application that cannot even be built is a broken naming scheme)
        indexes, refs, badrefs = [], [], [f"probe application failed: {type(e).__name__}: {e}"[:200]]
    try:
        modes = purge_modes(comps)
    except BaseException as e:  # noqa: BLE001
        modes = [(f"probe application failed: {type(e).__name__}", False)]
    comp_rows = ",\n  ".join(f"({lstr(c)}, [{', '.join(lstr(s) for s in sufs)}])" for _a, c, sufs in comps)
    attr_rows = ", ".join(f"({lstr(a)}, {lstr(c)})" for a, c, _s in comps)
    idx_rows = ",\n  ".join(f"({lstr(c)}, {lstr(t)}, {lstr(s)})" for c, t, s in indexes)
    ref_rows = ",\n  ".join(f"({lstr(c)}, {lstr(t)})" for _k, c, t in refs)
    return f"""-- GENERATED by harness/translate/tables.py from the `Tables` classes of pynenc's SQLite components and from the
-- SQL a probe application issues. Do not edit.
namespace Pynenc.Gen

/-- (component label, table suffixes) of every `Tables` class: a table is `<prefix>__<component>_<table>` -/
def components : List (String × List String) := [
  {comp_rows}]

/-- (attribute of the application object, component label) -/
def componentAttrs : List (String × String) := [{attr_rows}]

/-- names in the source that do not follow `<sanitize_table_prefix(id)>__<component>_<table>` (must be empty) -/
def nonconforming : List String := [{", ".join(lstr(b) for b in bad)}]

/-- every index the components create: (component, table, suffix) for `idx_<table name>_<suffix>` -/
def indexes : List (String × String × String) := [
  {idx_rows}]

/-- tables named by the SQL statements of the probe scenario: (component, table) -/
def stmtRefs : List (String × String) := [
  {ref_rows}]

/-- storage-looking identifiers in those statements that are neither a table nor an index of the probe application (must be empty) -/
def badRefs : List String := [{", ".join(lstr(b) for b in badrefs)}]

/-- per component: `purge()` left a foreign table alone whose name starts with the component's table prefix
    (true = purge goes by exact names, the `purgeExact` of the model; false = by prefix, the legacy `purgeLike`) -/
def purgeSparesPrefixDecoy : List (String × Bool) := [{", ".join(f"({lstr(c)}, {'true' if ok else 'false'})" for c, ok in modes)}]

end Pynenc.Gen
"""


def gen() -> dict[str, str]:
    return {"TableNames.lean": gen_table_names()}
