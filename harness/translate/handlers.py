"""Translator for C20: the route table of the monitor (`pynmon.app`) and, for every handler, the set of
component-API methods (`broker.*`, `orchestrator.*`, `state_backend.*`, `trigger.*`, `client_data_store.*`,
`runner.*`) it can reach -> `Gen/Handlers.lean`.

Sources, all read from the tree on every run:

* routes: the REAL FastAPI route table after `pynmon.app.setup_routes()` (walked through included routers,
  cross-checked against `app.openapi()`);
* call sets: AST call graph of the handler, of every `pynmon.*` function/method it reaches (by import
  resolution, by bare name, by method name), of the Jinja templates it renders (parsed with jinja2: attribute
  names, called globals, include/extends/import closure), and of the attributes/methods of pynenc's *value
  objects* (invocation, call, task, arguments, workflow identity, the app object ...) that the Python code or
  a template touches by name (e.g. `invocation.status` reaches `orchestrator.get_invocation_status`).

The analysis over-approximates by *name* (an attribute `x.status` is assumed to be the property of every value
class that has one).  The harness validates it dynamically: the component methods really invoked while serving a
request must be a subset of the set extracted here.
"""
from __future__ import annotations

import ast
import re
from dataclasses import dataclass, field
from pathlib import Path

from harness.common import REPO

COMPONENTS = ("broker", "orchestrator", "state_backend", "trigger", "client_data_store", "runner", "serializer")
BASE_CLASS = {
    "BaseBroker": "broker", "BaseOrchestrator": "orchestrator", "BaseStateBackend": "state_backend",
    "BaseTrigger": "trigger", "BaseClientDataStore": "client_data_store", "BaseRunner": "runner",
    "BaseSerializer": "serializer",
}
# attributes of a component object that are not part of its operation API
NOT_AN_OP = {"conf", "app", "__class__", "logger", "tables", "sqlite_db_path"}
# directories of pynenc that hold the component implementations (their internals are behind the component API)
COMPONENT_DIRS = {"broker", "orchestrator", "state_backend", "trigger", "client_data_store", "runner", "serializer",
                  "conf", "util", "builder"}
# names every object has / that never lead to a value-object method worth following
IGNORED_ATTRS = {"__class__", "__name__", "__dict__", "__traceback__"}


# --------------------------------------------------------------------------------------------------
# routes
# --------------------------------------------------------------------------------------------------

_ROUTES_READY = False
LAST_VALUE_CLASSES: list[str] = []


def monitor_app():
    """The FastAPI application with all routers included (idempotent)."""
    global _ROUTES_READY
    import pynmon.app as pa

    if not _ROUTES_READY:
        if not any(ep.__module__.startswith("pynmon.views") for _, _, ep in _walk(pa.app.routes)):
            pa.setup_routes()
        _ROUTES_READY = True
    return pa.app


def _walk(routes, prefix: str = ""):
    from fastapi.routing import APIRoute

    for r in routes:
        if isinstance(r, APIRoute):
            yield prefix + r.path, sorted(r.methods), r.endpoint
        elif hasattr(r, "original_router"):  # newer fastapi keeps included routers as nodes of the table
            p = getattr(getattr(r, "include_context", None), "prefix", "") or ""
            yield from _walk(r.original_router.routes, prefix + p)


def route_table() -> list[dict]:
    """[{path, method, module, func, endpoint}] in registration (= matching) order."""
    app = monitor_app()
    out = []
    for path, methods, ep in _walk(app.routes):
        for m in methods:
            if m in ("HEAD", "OPTIONS"):
                continue
            out.append({"path": path, "method": m, "module": ep.__module__, "func": ep.__name__, "endpoint": ep})
    return out


def openapi_pairs() -> set[tuple[str, str]]:
    app = monitor_app()
    return {(p, m.upper()) for p, v in app.openapi()["paths"].items() for m in v}


# --------------------------------------------------------------------------------------------------
# Python side: index of functions
# --------------------------------------------------------------------------------------------------


@dataclass
class Fn:
    module: str
    qual: str
    node: ast.AST
    cls: str | None = None
    comp_refs: set = field(default_factory=set)      # {"broker.count_invocations", ...}
    names: set = field(default_factory=set)          # bare names loaded
    attrs: set = field(default_factory=set)          # attribute names touched on non-component values
    strings: set = field(default_factory=set)        # string constants (template names)
    self_attrs: set = field(default_factory=set)     # attribute names touched on `self`/`cls`
    attr_kinds: set = field(default_factory=set)     # {(attribute name, 'plain' | 'called' | 'arg')}


def _module_name(root: Path, p: Path) -> str:
    rel = p.relative_to(root.parent).with_suffix("")
    parts = list(rel.parts)
    if parts[-1] == "__init__":
        parts = parts[:-1]
    return ".".join(parts)


class _Index:
    """All functions of a package, with per-module import tables."""

    def __init__(self, pkg_root: Path, skip_dirs: set[str] = frozenset()):
        self.fns: dict[tuple[str, str], Fn] = {}
        self.by_name: dict[str, list[Fn]] = {}
        self.methods_by_name: dict[str, list[Fn]] = {}
        self.classes: dict[str, list[tuple[str, str]]] = {}     # class name -> [(module, class)]
        self.imports: dict[str, dict[str, tuple[str, str]]] = {}  # module -> local -> (module, name)
        self.jinja_globals: dict[str, str] = {}
        self.module_level: dict[str, Fn] = {}
        for p in sorted(pkg_root.rglob("*.py")):
            rel = p.relative_to(pkg_root)
            if rel.parts and rel.parts[0] in skip_dirs:
                continue
            mod = _module_name(pkg_root, p)
            try:
                tree = ast.parse(p.read_text())
            except SyntaxError:
                continue
            self._index_module(mod, tree)

    def _index_module(self, mod: str, tree: ast.Module) -> None:
        imps: dict[str, tuple[str, str]] = {}
        self.imports[mod] = imps
        for node in ast.walk(tree):
            if isinstance(node, ast.ImportFrom) and node.module:
                for a in node.names:
                    imps[a.asname or a.name] = (node.module, a.name)
            elif isinstance(node, ast.Assign):
                # templates.env.globals["name"] = func
                for t in node.targets:
                    if (isinstance(t, ast.Subscript) and isinstance(t.value, ast.Attribute)
                            and t.value.attr in ("globals", "filters") and isinstance(t.slice, ast.Constant)
                            and isinstance(node.value, ast.Name)):
                        self.jinja_globals[str(t.slice.value)] = node.value.id

        def add(fn: Fn) -> None:
            self.fns[(fn.module, fn.qual)] = fn
            _scan(fn)

        for node in tree.body:
            if isinstance(node, ast.FunctionDef | ast.AsyncFunctionDef):
                fn = Fn(mod, node.name, node)
                add(fn)
                self.by_name.setdefault(node.name, []).append(fn)
            elif isinstance(node, ast.ClassDef):
                self.classes.setdefault(node.name, []).append((mod, node.name))
                for sub in node.body:
                    if isinstance(sub, ast.FunctionDef | ast.AsyncFunctionDef):
                        fn = Fn(mod, f"{node.name}.{sub.name}", sub, cls=node.name)
                        add(fn)
                        self.methods_by_name.setdefault(sub.name, []).append(fn)


def _comp_of_annotation(ann: ast.AST | None) -> str | None:
    if ann is None:
        return None
    for n in ast.walk(ann):
        name = n.id if isinstance(n, ast.Name) else n.attr if isinstance(n, ast.Attribute) else (
            n.value if isinstance(n, ast.Constant) and isinstance(n.value, str) else None)
        if isinstance(name, str):
            for base, comp in BASE_CLASS.items():
                if base in name:
                    return comp
    return None


def _scan(fn: Fn) -> None:
    """Fill comp_refs / names / attrs / strings of one function (nested defs and lambdas included)."""
    env: dict[str, str] = {}  # local variable -> component

    # parameters annotated with a component base class, or simply named like a component
    for node in ast.walk(fn.node):
        if isinstance(node, ast.FunctionDef | ast.AsyncFunctionDef | ast.Lambda):
            args = node.args
            for a in [*args.posonlyargs, *args.args, *args.kwonlyargs]:
                c = _comp_of_annotation(a.annotation)
                if c:
                    env[a.arg] = c
                elif a.arg in COMPONENTS:
                    env[a.arg] = a.arg

    def comp_of(e: ast.AST) -> str | None:
        if isinstance(e, ast.Attribute) and e.attr in COMPONENTS:
            return e.attr
        if isinstance(e, ast.Name) and e.id in env:
            return env[e.id]
        return None

    # simple aliases: x = <component expr>  (two passes are enough for chains of length 2)
    for _ in range(2):
        for node in ast.walk(fn.node):
            if isinstance(node, ast.Assign) and len(node.targets) == 1 and isinstance(node.targets[0], ast.Name):
                c = comp_of(node.value)
                if c:
                    env[node.targets[0].id] = c
            elif isinstance(node, ast.AnnAssign) and isinstance(node.target, ast.Name) and node.value is not None:
                c = comp_of(node.value)
                if c:
                    env[node.target.id] = c
            elif isinstance(node, ast.NamedExpr) and isinstance(node.target, ast.Name):
                c = comp_of(node.value)
                if c:
                    env[node.target.id] = c

    all_nodes = list(ast.walk(fn.node))
    called = {id(n.func) for n in all_nodes if isinstance(n, ast.Call)}
    as_arg = {id(a) for n in all_nodes if isinstance(n, ast.Call) for a in [*n.args, *[k.value for k in n.keywords]]}
    for node in all_nodes:
        if isinstance(node, ast.Attribute):
            c = comp_of(node.value)
            kind = "called" if id(node) in called else "arg" if id(node) in as_arg else "plain"
            if c is not None:
                if node.attr not in NOT_AN_OP and node.attr not in COMPONENTS:
                    fn.comp_refs.add(f"{c}.{node.attr}")
            elif isinstance(node.value, ast.Name) and node.value.id in ("self", "cls"):
                fn.self_attrs.add(node.attr)
                fn.attrs.add(node.attr)
                fn.attr_kinds.add((node.attr, kind))
            elif node.attr not in COMPONENTS:
                fn.attrs.add(node.attr)
                fn.attr_kinds.add((node.attr, kind))
        elif isinstance(node, ast.Name) and isinstance(node.ctx, ast.Load):
            fn.names.add(node.id)
        elif isinstance(node, ast.Constant) and isinstance(node.value, str):
            fn.strings.add(node.value)
        elif isinstance(node, ast.Call) and isinstance(node.func, ast.Name) and node.func.id == "getattr":
            # getattr(x, "name", default)
            if len(node.args) >= 2 and isinstance(node.args[1], ast.Constant) and isinstance(node.args[1].value, str):
                fn.attrs.add(node.args[1].value)
                fn.attr_kinds.add((node.args[1].value, "arg"))


# --------------------------------------------------------------------------------------------------
# value objects of pynenc: (class, attribute) -> reachable component methods
# --------------------------------------------------------------------------------------------------

DUNDERS = ("__str__", "__repr__", "__eq__", "__hash__", "__lt__", "__bool__", "__len__", "__iter__", "__contains__",
           "__format__", "__getattr__", "__getitem__")


def _component_bases() -> tuple:
    from pynenc.broker.base_broker import BaseBroker
    from pynenc.client_data_store.base_client_data_store import BaseClientDataStore
    from pynenc.orchestrator.base_orchestrator import BaseBlockingControl, BaseOrchestrator
    from pynenc.runner.base_runner import BaseRunner
    from pynenc.serializer.base_serializer import BaseSerializer
    from pynenc.state_backend.base_state_backend import BaseStateBackend
    from pynenc.trigger.base_trigger import BaseTrigger

    return (BaseBroker, BaseClientDataStore, BaseOrchestrator, BaseBlockingControl, BaseRunner, BaseSerializer,
            BaseStateBackend, BaseTrigger)


def _is_component_class(c: type) -> bool:
    return issubclass(c, _component_bases())


def _is_value_class(c: type) -> bool:
    """a class of pynenc whose instances are data handed around (not a component, enum, exception, config or lock)"""
    import enum

    mod = getattr(c, "__module__", "") or ""
    if not mod.startswith("pynenc.") or mod.startswith("pynenc.conf"):
        return False
    if issubclass(c, enum.Enum | BaseException) or _is_component_class(c):
        return False
    return True


class ValueObjects:
    """The classes of the objects the component read methods hand to the monitor (discovered from live specimens
    produced by a scratch in-memory app, through instance attributes only), and what their attributes reach."""

    def __init__(self) -> None:
        import inspect

        self.inspect = inspect
        self.classes: list[type] = []
        self.nonnull: dict[type, set[str]] = {}
        self._memo: dict[tuple[type, str], set[str]] = {}
        self._fn_cache: dict = {}
        self._discover()

    # -- specimens -------------------------------------------------------------------------------
    def _discover(self) -> None:
        import datetime as dt
        import tempfile

        from harness import tasks as T
        from harness.apps import flush, make_app, rctx
        from pynenc.invocation.status import InvocationStatus as S

        tmp = tempfile.mkdtemp(prefix="verif-c20-tr-")
        app = make_app("mem", tmp, app_id="c20translate")
        t = app.task(T.add)
        inv = t(1, 2)
        r = rctx("tr-runner")
        app.state_backend.store_runner_context(r)
        app.orchestrator.register_runner_heartbeats([r.runner_id])
        app.orchestrator.set_invocation_status(inv.invocation_id, S.PENDING, r)
        app.orchestrator.set_invocation_status(inv.invocation_id, S.RUNNING, r)
        try:
            app.state_backend.store_workflow_run(inv.workflow)
        except Exception:
            pass
        flush(app)
        sb, orch = app.state_backend, app.orchestrator
        errors: list[str] = []

        def bfs(seeds: list) -> dict[type, list]:
            seen_ids: set[int] = set()
            per_class: dict[type, list] = {}
            todo = list(seeds)
            n = 0
            while todo and n < 5000:
                o = todo.pop()
                n += 1
                if id(o) in seen_ids:
                    continue
                seen_ids.add(id(o))
                c = type(o)
                if isinstance(o, list | tuple | set | frozenset):
                    todo += list(o)
                    if c in (list, tuple, set, frozenset) or not _is_value_class(c):
                        continue
                elif isinstance(o, dict):
                    todo += list(o.values())
                    continue
                if _is_component_class(c) or not _is_value_class(c):
                    continue
                per_class.setdefault(c, []).append(o)
                d = getattr(o, "__dict__", None)
                if isinstance(d, dict):
                    todo += list(d.values())
                for sl in getattr(c, "__slots__", ()) or ():
                    if hasattr(o, sl):
                        todo.append(getattr(o, sl))
            return per_class

        def facts(per_class: dict[type, list]) -> None:
            for c, objs in per_class.items():
                if c in self.nonnull:
                    continue
                keys = set.intersection(*[set(getattr(o, "__dict__", {}) or {}) for o in objs]) if objs else set()
                self.nonnull[c] = {k for k in keys if all(o.__dict__[k] is not None for o in objs)} - self._reset_to_none(c)

        # pass 1: objects exactly as the read methods return them (lazy fields not yet touched) -> non-None facts
        fresh: list = [app]
        far = (dt.datetime(2000, 1, 1, tzinfo=dt.UTC), dt.datetime(2100, 1, 1, tzinfo=dt.UTC))
        for name, f in (("get_invocation", lambda: sb.get_invocation(inv.invocation_id)),
                        ("get_history", lambda: list(sb.get_history(inv.invocation_id))),
                        ("get_active_runners", lambda: list(orch.get_active_runners())),
                        ("get_runner_context", lambda: sb.get_runner_context(r.runner_id)),
                        ("get_all_workflow_runs", lambda: list(sb.get_all_workflow_runs())),
                        ("get_all_workflow_types", lambda: list(sb.get_all_workflow_types())),
                        ("get_invocation_status_record", lambda: orch.get_invocation_status_record(inv.invocation_id)),
                        ("get_matching_runner_contexts", lambda: list(sb.get_matching_runner_contexts("tr-"))),
                        ("iter_history_in_timerange", lambda: [b for b in sb.iter_history_in_timerange(*far)])):
            try:
                fresh.append(f())
            except Exception as e:  # noqa: BLE001
                errors.append(f"{name}: {type(e).__name__}: {e}")
        p1 = bfs(fresh)
        facts(p1)
        # pass 2: the lazily built parts (arguments, task configuration) -> more classes
        got = sb.get_invocation(inv.invocation_id)
        more: list = []
        for name, f in (("arguments", lambda: got.call.arguments), ("task.conf", lambda: got.task.conf)):
            try:
                more.append(f())
            except Exception as e:  # noqa: BLE001
                errors.append(f"{name}: {type(e).__name__}: {e}")
        p2 = bfs(more)
        facts(p2)
        self.specimen_errors = errors
        self.classes = sorted({*p1, *p2}, key=lambda c: (c.__module__, c.__name__))
        import shutil

        shutil.rmtree(tmp, ignore_errors=True)

    def _reset_to_none(self, c: type) -> set[str]:
        """instance attributes some method other than __init__ sets back to None"""
        out: set[str] = set()
        for k in c.__mro__:
            if k is object:
                continue
            try:
                tree = ast.parse(__import__("textwrap").dedent(self.inspect.getsource(k)))
            except (OSError, TypeError, SyntaxError):
                continue
            for fn in ast.walk(tree):
                if isinstance(fn, ast.FunctionDef | ast.AsyncFunctionDef) and fn.name != "__init__":
                    for node in ast.walk(fn):
                        if isinstance(node, ast.Assign) and isinstance(node.value, ast.Constant) and node.value.value is None:
                            for t in node.targets:
                                if isinstance(t, ast.Attribute) and isinstance(t.value, ast.Name) and t.value.id == "self":
                                    out.add(t.attr)
        return out

    # -- resolution ------------------------------------------------------------------------------
    def _function(self, c: type, attr: str):
        """(ast of the function behind class attribute `attr`, is_property) or None"""
        key = (c, attr)
        if key in self._fn_cache:
            return self._fn_cache[key]
        import functools
        import textwrap

        res = None
        try:
            raw = self.inspect.getattr_static(c, attr)
        except AttributeError:
            raw = None
        fn, prop = None, False
        if isinstance(raw, property):
            fn, prop = raw.fget, True
        elif isinstance(raw, functools.cached_property):
            fn, prop = raw.func, True
        elif isinstance(raw, classmethod | staticmethod):
            fn = raw.__func__
        elif self.inspect.isfunction(raw):
            fn = raw
        if fn is not None and (getattr(fn, "__module__", "") or "").startswith("pynenc"):
            try:
                tree = ast.parse(textwrap.dedent(self.inspect.getsource(fn)))
                res = (tree.body[0], prop)
            except (OSError, TypeError, SyntaxError, IndexError):
                res = None
        self._fn_cache[key] = res
        return res

    def _pruned_nodes(self, c: type, fn_node: ast.AST):
        """walk the function, skipping `if self.<f> is None:` bodies when <f> is never None for this class"""
        nn = self.nonnull.get(c, set())

        def dead(test: ast.AST) -> bool:
            return (isinstance(test, ast.Compare) and len(test.ops) == 1 and isinstance(test.ops[0], ast.Is)
                    and isinstance(test.left, ast.Attribute) and isinstance(test.left.value, ast.Name)
                    and test.left.value.id == "self" and test.left.attr in nn
                    and isinstance(test.comparators[0], ast.Constant) and test.comparators[0].value is None)

        def walk(node: ast.AST):
            yield node
            if isinstance(node, ast.If) and dead(node.test):
                for ch in node.orelse:
                    yield from walk(ch)
                return
            for ch in ast.iter_child_nodes(node):
                yield from walk(ch)

        yield from walk(fn_node)

    def reach(self, c: type, attr: str, kind: str, _stack: frozenset = frozenset()) -> set[str]:
        """component methods reachable by touching `attr` (kind: 'plain' access | 'called' | 'arg') on an instance of c"""
        f = self._function(c, attr)
        if f is None:
            return set()
        node, is_prop = f
        if not is_prop and kind == "plain":
            return set()
        key = (c, attr)
        if key in self._memo:
            return self._memo[key]
        if key in _stack:
            return set()
        stack = _stack | {key}
        out: set[str] = set()
        nodes = list(self._pruned_nodes(c, node))
        called = {id(n.func) for n in nodes if isinstance(n, ast.Call)}
        as_arg = {id(a) for n in nodes if isinstance(n, ast.Call) for a in [*n.args, *[k.value for k in n.keywords]]}
        for n in nodes:
            if not isinstance(n, ast.Attribute):
                continue
            k = "called" if id(n) in called else "arg" if id(n) in as_arg else "plain"
            v = n.value
            if isinstance(v, ast.Attribute) and v.attr in COMPONENTS or isinstance(v, ast.Name) and v.id in COMPONENTS:
                comp = v.attr if isinstance(v, ast.Attribute) else v.id
                if n.attr not in NOT_AN_OP:
                    out.add(f"{comp}.{n.attr}")
                continue
            if n.attr in COMPONENTS:
                continue
            if isinstance(v, ast.Name) and v.id in ("self", "cls"):
                out |= self.reach(c, n.attr, k, stack)
            elif isinstance(v, ast.Call) and isinstance(v.func, ast.Name) and v.func.id == "super":
                for base in c.__mro__[1:]:
                    if n.attr in vars(base):
                        out |= self.reach(base, n.attr, k, stack)
                        break
            else:
                out |= self.by_name(n.attr, k, stack)
        if not _stack:
            self._memo[key] = out
        return out

    def by_name(self, attr: str, kind: str, _stack: frozenset = frozenset()) -> set[str]:
        out: set[str] = set()
        for c in self.classes:
            out |= self.reach(c, attr, kind, _stack)
        return out

    def dunder_reach(self) -> set[str]:
        out: set[str] = set()
        for c in self.classes:
            for d in DUNDERS:
                out |= self.reach(c, d, "called")
        return out


# --------------------------------------------------------------------------------------------------
# templates
# --------------------------------------------------------------------------------------------------


class _Templates:
    def __init__(self, root: Path):
        import jinja2
        from jinja2 import nodes

        self.root = root
        self.env = jinja2.Environment()
        self.nodes = nodes
        self.info: dict[str, tuple[set, set, set]] = {}  # name -> ({(attr, kind)}, called/used globals, deps)

    def get(self, name: str) -> tuple[set, set, set]:
        if name in self.info:
            return self.info[name]
        p = self.root / name
        attrs, globs, deps = set(), set(), set()
        self.info[name] = (attrs, globs, deps)
        if not p.is_file():
            return self.info[name]
        n = self.nodes
        tree = self.env.parse(p.read_text())
        called = {id(c.node) for c in tree.find_all(n.Call)}
        as_arg = {id(a) for c in tree.find_all((n.Call, n.Filter, n.Test)) for a in [*c.args, *[k.value for k in c.kwargs]]}
        kind = lambda x: "called" if id(x) in called else "arg" if id(x) in as_arg else "plain"  # noqa: E731
        for node in tree.find_all((n.Getattr, n.Getitem, n.Name, n.Include, n.Extends, n.Import, n.FromImport, n.Filter, n.Call)):
            if isinstance(node, n.Getattr):
                attrs.add((node.attr, kind(node)))
            elif isinstance(node, n.Getitem) and isinstance(node.arg, n.Const) and isinstance(node.arg.value, str):
                attrs.add((node.arg.value, kind(node)))
            elif isinstance(node, n.Name) and node.ctx == "load":
                globs.add(node.name)
            elif isinstance(node, n.Filter):
                globs.add(node.name)
            elif isinstance(node, n.Include | n.Extends | n.Import | n.FromImport):
                t = node.template
                if isinstance(t, n.Const) and isinstance(t.value, str):
                    deps.add(t.value)
                elif isinstance(t, n.List | n.Tuple):
                    deps.update(x.value for x in t.items if isinstance(x, n.Const))
        return self.info[name]

    def closure(self, names: set[str]) -> tuple[set, set, set]:
        seen, todo = set(), list(names)
        attrs, globs = set(), set()
        while todo:
            t = todo.pop()
            if t in seen:
                continue
            seen.add(t)
            a, g, d = self.get(t)
            attrs |= a
            globs |= g
            todo += list(d)
        return attrs, globs, seen


# --------------------------------------------------------------------------------------------------
# per-handler closure
# --------------------------------------------------------------------------------------------------


def analyse() -> list[dict]:
    """[{path, method, name, calls (sorted list of component.method), templates, functions}] per route."""
    pyn = _Index(REPO / "pynmon")
    vobj = ValueObjects()
    dunders = vobj.dunder_reach()
    tmpl = _Templates(REPO / "pynmon" / "templates")
    template_names = {str(p.relative_to(tmpl.root)) for p in tmpl.root.rglob("*.html")}

    def resolve_name(mod: str, name: str) -> list[Fn]:
        out: list[Fn] = []
        if (mod, name) in pyn.fns:
            out.append(pyn.fns[(mod, name)])
        imp = pyn.imports.get(mod, {}).get(name)
        if imp and imp[0].startswith("pynmon"):
            if (imp[0], imp[1]) in pyn.fns:
                out.append(pyn.fns[(imp[0], imp[1])])
            # an imported class: constructor and dunder hooks
            for m in ("__init__", "__post_init__"):
                if (imp[0], f"{imp[1]}.{m}") in pyn.fns:
                    out.append(pyn.fns[(imp[0], f"{imp[1]}.{m}")])
        if name in pyn.classes:
            for (cm, cn) in pyn.classes[name]:
                for m in ("__init__", "__post_init__"):
                    if (cm, f"{cn}.{m}") in pyn.fns:
                        out.append(pyn.fns[(cm, f"{cn}.{m}")])
        return out

    def closure(start: Fn) -> tuple[set[str], set[str], set[str]]:
        seen: dict[tuple[str, str], Fn] = {}
        todo = [start]
        calls: set[str] = set()
        attrs: set[tuple[str, str]] = set()
        tnames: set[str] = set()
        globs_done: set[str] = set()
        while todo:
            fn = todo.pop()
            key = (fn.module, fn.qual)
            if key in seen:
                continue
            seen[key] = fn
            calls |= fn.comp_refs
            attrs |= fn.attr_kinds
            for nm in fn.names:
                todo += resolve_name(fn.module, nm)
            for a in fn.attrs:
                todo += pyn.methods_by_name.get(a, [])
            new_t = {s for s in fn.strings if s in template_names} - tnames
            if new_t:
                tnames |= new_t
                t_attrs, t_globs, t_all = tmpl.closure(tnames)
                tnames |= t_all
                attrs |= t_attrs
                for a, _k in t_attrs:
                    todo += pyn.methods_by_name.get(a, [])
                for g in t_globs - globs_done:
                    globs_done.add(g)
                    target = pyn.jinja_globals.get(g, g)
                    todo += pyn.by_name.get(target, [])
        via: set[str] = set()
        for a, k in attrs:
            if a not in IGNORED_ATTRS:
                via |= vobj.by_name(a, k)
        if via or attrs:
            via |= dunders
        return calls | via, tnames, {f"{m}.{q}" for (m, q) in seen}

    out = []
    global LAST_VALUE_CLASSES
    LAST_VALUE_CLASSES = [f"{c.__module__}.{c.__name__}" for c in vobj.classes]
    for r in route_table():
        fn = pyn.fns.get((r["module"], r["func"]))
        if fn is None:
            out.append({**r, "name": f"{r['module']}.{r['func']}", "calls": ["<unresolved handler>"], "templates": [], "functions": []})
            continue
        calls, tnames, fns = closure(fn)
        out.append({**r, "name": f"{r['module']}.{r['func']}", "calls": sorted(calls), "templates": sorted(tnames),
                    "functions": sorted(fns)})
    return out


# --------------------------------------------------------------------------------------------------
# Lean output
# --------------------------------------------------------------------------------------------------


def _s(x: str) -> str:
    return '"' + x.replace("\\", "\\\\").replace('"', '\\"') + '"'


def model_names() -> dict[str, str]:
    """python name -> constructor of `Monitor.Method`, read from the `Method.name` table of the hand-written model"""
    from harness.common import LEAN

    src = (LEAN / "PynencModel" / "Model" / "Monitor.lean").read_text()
    a = src.index("def Method.name : Method → String")
    b = src.index("/-- every method of the model -/")
    return {m.group(2): m.group(1) for m in re.finditer(r'\|\s*\.(\w+)\s*=>\s*"([^"]+)"', src[a:b])}


def gen() -> dict[str, str]:
    rows = analyse()
    names = model_names()
    used = sorted({c for r in rows for c in r["calls"] if c in names})
    lines = [
        "-- GENERATED by harness/translate/handlers.py from the FastAPI route table of pynmon.app and the AST call graph",
        "-- of pynmon/views, pynmon/util, pynmon/templates and pynenc's value objects. Do not edit.",
        "import PynencModel.Model.Monitor",
        "namespace Pynenc.Gen",
        "open Pynenc.Monitor",
        "",
        "/-- python names the translator replaced by constructors of `Method` (checked against `Method.name` in Props/C20) -/",
        "def usedNames : List (Method × String) := [",
        ",\n".join(f"  (.{names[c]}, {_s(c)})" for c in used),
        "]",
        "",
        "/-- every route of the monitor with the component-API methods its handler can reach -/",
        "def handlers : List Handler := [",
    ]
    body = []
    for r in rows:
        known = ", ".join("." + names[c] for c in r["calls"] if c in names)
        unknown = ", ".join(_s(c) for c in r["calls"] if c not in names)
        body.append(f"  {{ route := {_s(r['path'])}, method := {_s(r['method'])}, name := {_s(r['name'])},\n"
                    f"    calls := [{known}], unknown := [{unknown}] }}")
    lines.append(",\n".join(body))
    lines.append("]")
    lines.append("")
    lines.append("end Pynenc.Gen")
    return {"Handlers.lean": "\n".join(lines) + "\n"}


if __name__ == "__main__":
    for r in analyse():
        print(r["method"], r["path"], r["name"])
        print("    calls:", r["calls"])
        print("    templates:", r["templates"])
