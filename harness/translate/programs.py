"""Translator: the ORDER OF STATE-CHANGING BACKEND EFFECTS of pynenc's multi-step lifecycle operations, extracted by running
each real operation once on instrumented in-memory backends -> Gen/Programs.lean.

Effects (only writes; reads may commute and are not recorded):
  upsert, register, transition <status>, index_args, incr_retries, auto_purge_setup, hist_enqueue, push, pop,
  set_result, set_exception, wait, release.
The Lean side compares *projections* of these programs (per property) with the step order its models assume.
"""
from __future__ import annotations

import threading
from typing import Any, Callable

from harness import tasks as T

EFFECTS: list[str] = []
_lock = threading.Lock()


def _rec(e: str) -> None:
    with _lock:
        EFFECTS.append(e)


def _wrap(obj: Any, name: str, label: Callable[..., str | None], after: bool = False) -> None:
    orig = getattr(obj, name)
    if getattr(orig, "_verif_wrapped", False):
        return

    def w(*a: Any, **k: Any):
        lab = label(*a, **k)
        if lab and not after:
            _rec(lab)
        r = orig(*a, **k)
        if lab and after:
            _rec(lab)
        return r

    w._verif_wrapped = True  # type: ignore[attr-defined]
    setattr(obj, name, w)


def instrument(app) -> None:
    o, b, sb = app.orchestrator, app.broker, app.state_backend
    _wrap(sb, "upsert_invocations", lambda invs: "upsert")
    # recorded AFTER the call returns: a store that raises is not an effect
    _wrap(sb, "set_result", lambda *a, **k: "set_result", after=True)
    _wrap(sb, "set_exception", lambda *a, **k: "set_exception", after=True)
    _wrap(sb, "add_history", lambda i, rec, *a, **k: f"hist_enqueue {rec.status.value}")
    _wrap(sb, "add_histories", lambda invs, rec, *a, **k: f"hist_enqueue {rec.status.value}")
    _wrap(o, "_register_new_invocations", lambda *a, **k: "register")
    # record a transition only when it is accepted (after the call returns)
    _wrap(o, "_atomic_status_transition", lambda i, st, *a, **k: f"transition {st.value}", after=True)
    _wrap(o, "index_arguments_for_concurrency_control", lambda *a, **k: "index_args")
    _wrap(o, "increment_invocation_retries", lambda *a, **k: "incr_retries")
    _wrap(o, "set_up_invocation_auto_purge", lambda *a, **k: "auto_purge_setup")
    _wrap(o, "register_runner_heartbeats", lambda rids, *a, **k: "heartbeat " + ",".join(sorted(rids)))
    _wrap(b, "route_invocation", lambda *a, **k: "push")
    orig_retrieve = b.retrieve_invocation
    if not getattr(orig_retrieve, "_verif_wrapped", False):
        def retrieve():
            r = orig_retrieve()
            if r is not None:
                _rec("pop")
            return r

        retrieve._verif_wrapped = True  # type: ignore[attr-defined]
        b.retrieve_invocation = retrieve
    bc = o.blocking_control
    _wrap(bc, "release_waiters", lambda *a, **k: "release")
    _wrap(bc, "waiting_for_results", lambda *a, **k: "wait")
    # the announcer's look at the awaited ids' statuses (labelled with the number of ids found final, so after the call)
    orig_fbs = o.filter_by_status
    if not getattr(orig_fbs, "_verif_wrapped", False):
        def fbs(*a: Any, **k: Any):
            r = orig_fbs(*a, **k)
            _rec(f"final_check {len(r)}")
            return r

        fbs._verif_wrapped = True  # type: ignore[attr-defined]
        o.filter_by_status = fbs  # type: ignore[method-assign]


def trace(fn: Callable[[], Any]) -> list[str]:
    EFFECTS.clear()
    try:
        fn()
    except BaseException:  # noqa: BLE001
        pass
    out = list(EFFECTS)
    EFFECTS.clear()
    return out


def extract(tmp: str) -> dict[str, list[str]]:
    from pynenc import context
    from pynenc.conf.config_task import ConcurrencyControlType as C
    from pynenc.invocation.status import InvocationStatus as S

    from harness.apps import flush, make_app, rctx

    progs: dict[str, list[str]] = {}
    app = make_app("mem", tmp, app_id="progtrace")
    instrument(app)
    plain = app.task(T.add)
    ok_t = app.task(T.prog_body)
    cc_t = app.task(T.keyed, running_concurrency=C.ARGUMENTS)
    ctx = rctx("rT")
    # a live runner asking twice whether it may run the global services: it must refresh its own heartbeat EVERY time
    live = rctx("rLive")
    progs["atomicCheckTwice"] = trace(lambda: (app.orchestrator.should_run_atomic_service(live), app.orchestrator.should_run_atomic_service(live)))
    progs["clientSingle"] = trace(lambda: plain(1))
    progs["clientSingleCC"] = trace(lambda: cc_t("a"))
    progs["clientBatch"] = trace(lambda: plain.parallelize([(1,), (2,)]))
    app.purge()
    instrument(app)  # purge replaces the blocking control
    inv = ok_t("ok")
    progs["pollClaim"] = trace(lambda: list(app.orchestrator.get_invocations_to_run(1, ctx)))
    i2 = app.state_backend.get_invocation(inv.invocation_id)
    progs["runOk"] = trace(lambda: i2.run(ctx))
    inv = ok_t("fail")
    list(app.orchestrator.get_invocations_to_run(1, ctx))
    i2 = app.state_backend.get_invocation(inv.invocation_id)
    progs["runFail"] = trace(lambda: i2.run(ctx))
    # the same two runs when the outcome store FAILS (storage fault): no final status may be published
    sb = app.state_backend
    for name, mode, attr in (("runOkStoreFault", "ok", "_set_result"), ("runFailStoreFault", "fail", "_set_exception")):
        inv = ok_t(mode)
        list(app.orchestrator.get_invocations_to_run(1, ctx))
        i2 = app.state_backend.get_invocation(inv.invocation_id)
        orig = getattr(sb, attr)

        def boom(*a, **k):
            raise OSError("injected storage fault")

        setattr(sb, attr, boom)
        try:
            progs[name] = trace(lambda: i2.run(ctx))
        finally:
            setattr(sb, attr, orig)
    rt = app.task(T.prog_retry, max_retries=2)
    inv = rt("x")
    list(app.orchestrator.get_invocations_to_run(1, ctx))
    i2 = app.state_backend.get_invocation(inv.invocation_id)
    progs["runRetry"] = trace(lambda: i2.run(ctx))
    # announcing a wait (`orchestrator.waiting_for_results`) for a sub-task that is still open / that has already finished
    par, kid = plain(40), plain(41)
    progs["announcePending"] = trace(lambda: app.orchestrator.waiting_for_results(par.invocation_id, [kid.invocation_id]))
    list(app.orchestrator.get_invocations_to_run(5, ctx))
    app.orchestrator.set_invocation_status(kid.invocation_id, S.RUNNING, ctx)
    app.orchestrator.set_invocation_status(kid.invocation_id, S.SUCCESS, ctx)
    progs["announceFinished"] = trace(lambda: app.orchestrator.waiting_for_results(par.invocation_id, [kid.invocation_id]))
    app.orchestrator.set_invocation_status(par.invocation_id, S.RUNNING, ctx)
    app.orchestrator.set_invocation_status(par.invocation_id, S.SUCCESS, ctx)
    # kill and reroute of a RUNNING invocation
    inv = plain(5)
    list(app.orchestrator.get_invocations_to_run(5, ctx))
    app.orchestrator.set_invocation_status(inv.invocation_id, S.RUNNING, ctx)
    progs["killReroute"] = trace(lambda: app.runner._kill_and_reroute(inv.invocation_id, ctx))
    # recovery of one stale PENDING invocation
    app.purge()
    instrument(app)
    from harness.apps import inject_status

    inv = plain(7)
    app.broker.retrieve_invocation()
    inject_status(app, inv.invocation_id, S.PENDING, "dead", 0)
    from pynenc import core_tasks

    context.set_current_app(app)
    context.set_runner_context(app.app_id, rctx("recovery"))
    progs["recoverPending"] = trace(lambda: core_tasks.recover_pending_invocations())
    flush(app)
    return progs


def gen(tmp: str) -> dict[str, str]:
    progs = extract(tmp)
    q = chr(34)

    def pair(e: str) -> str:
        k, _, a = e.partition(" ")
        return f"({q}{k}{q}, {q}{a}{q})"

    body = "\n".join(
        f"def {name} : List String := [{', '.join(q + e + q for e in effs)}]\n"
        f"/-- the same as (effect kind, argument) pairs -/\n"
        f"def {name}P : List (String × String) := [{', '.join(pair(e) for e in effs)}]"
        for name, effs in progs.items()
    )
    return {"Programs.lean": f"""-- GENERATED by harness/translate/programs.py: state-changing backend effects of lifecycle operations,
-- in the order the real code performs them (traced on instrumented in-memory backends). Do not edit.
namespace Pynenc.Gen.Programs

{body}

end Pynenc.Gen.Programs
"""}
