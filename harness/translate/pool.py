"""Translator for C14: the shape of the pool bookkeeping of the process-based runners -> `Gen/PoolShape.lean`.

Read from `pynenc/runner/{persistent_process,multi_thread,process}_runner.py` on every run (AST, no execution):

* `activeIds <Class>`: the element, source and filter of the comprehension `get_active_child_runner_ids` returns
  (`runner_id | self.child_runner_ids.items() | proc.is_alive()`);
* the persistent runner's `runner_loop_iteration` as a list of events in program order:
  `prune-if <filter>` (ids collected for removal), `pop` (removed from the table), `count <expr>`, `if <test>`,
  `spawn-times <expr>` (the `for _ in range(..)` around `_spawn_persistent_process`), `sleep`;
* the process runner's `_reclaim_available_slots`: `del-if <test>` and the returned expression.
"""
from __future__ import annotations

import ast
from pathlib import Path

from harness.common import REPO


def _cls(path: str, name: str) -> ast.ClassDef:
    tree = ast.parse((Path(REPO) / path).read_text())
    return next(n for n in tree.body if isinstance(n, ast.ClassDef) and n.name == name)


def _method(cls: ast.ClassDef, name: str) -> ast.FunctionDef | None:
    return next((n for n in cls.body if isinstance(n, ast.FunctionDef) and n.name == name), None)


def _u(n: ast.AST | None) -> str:
    return " ".join(ast.unparse(n).split()) if n is not None else "-"


def _active_ids(path: str, cname: str) -> str:
    fn = _method(_cls(path, cname), "get_active_child_runner_ids")
    if fn is None:
        return "absent"
    rets = [s for s in fn.body if isinstance(s, ast.Return)]
    if len(rets) != 1 or not isinstance(rets[0].value, ast.ListComp) or len(rets[0].value.generators) != 1:
        return "other: " + _u(rets[0].value if rets else None)[:80]
    lc = rets[0].value
    g = lc.generators[0]
    return f"{_u(lc.elt)} | {_u(g.iter)} | {' and '.join(_u(c) for c in g.ifs) or 'True'}"


def _persistent_loop() -> list[str]:
    fn = _method(_cls("pynenc/runner/persistent_process_runner.py", "PersistentProcessRunner"), "runner_loop_iteration")
    if fn is None:
        return ["absent"]
    out: list[str] = []

    def walk(stmts: list[ast.stmt]) -> None:
        for s in stmts:
            if isinstance(s, ast.Expr) and isinstance(s.value, ast.Constant):
                continue
            if isinstance(s, ast.Assign) and isinstance(s.value, ast.ListComp) and len(s.value.generators) == 1:
                g = s.value.generators[0]
                out.append(f"prune-if {' and '.join(_u(c) for c in g.ifs) or 'True'} in {_u(g.iter)}")
            elif isinstance(s, ast.Assign):
                out.append(f"count {_u(s.targets[0])} = {_u(s.value)}")
            elif isinstance(s, ast.For):
                calls = [c for c in ast.walk(s) if isinstance(c, ast.Call) and isinstance(c.func, ast.Attribute)]
                if any(c.func.attr == "_spawn_persistent_process" for c in calls):
                    out.append(f"spawn-times {_u(s.iter)}")
                elif any(c.func.attr == "pop" for c in calls):
                    out.append("pop " + ", ".join(_u(c) for c in calls if c.func.attr == "pop"))
                else:
                    out.append("for " + _u(s.iter))
                    walk(s.body)
            elif isinstance(s, ast.If):
                out.append(f"if {_u(s.test)}")
                walk(s.body)
                if s.orelse:
                    out.append("else")
                    walk(s.orelse)
                out.append("endif")
            elif isinstance(s, ast.Expr) and isinstance(s.value, ast.Call):
                f = s.value.func
                name = f.attr if isinstance(f, ast.Attribute) else getattr(f, "id", "?")
                if name in ("info", "warning", "debug", "error"):
                    continue                                   # logging
                out.append("sleep" if name == "sleep" else f"call {name}")
            else:
                out.append("stmt " + type(s).__name__)

    walk(fn.body)
    return out


def _process_reclaim() -> list[str]:
    fn = _method(_cls("pynenc/runner/process_runner.py", "ProcessRunner"), "_reclaim_available_slots")
    if fn is None:
        return ["absent"]
    out = []
    for n in ast.walk(fn):
        if isinstance(n, ast.If) and any(isinstance(x, ast.Delete) for x in ast.walk(n)):
            out.append(f"del-if {_u(n.test)}")
    rets = [s for s in ast.walk(fn) if isinstance(s, ast.Return)]
    out += [f"return {_u(r.value)}" for r in rets]
    return out


def extract() -> dict:
    return {
        "active": [
            "PersistentProcessRunner: " + _active_ids("pynenc/runner/persistent_process_runner.py", "PersistentProcessRunner"),
            "MultiThreadRunner: " + _active_ids("pynenc/runner/multi_thread_runner.py", "MultiThreadRunner"),
            "ProcessRunner: " + _active_ids("pynenc/runner/process_runner.py", "ProcessRunner"),
        ],
        "persistent": _persistent_loop(),
        "reclaim": _process_reclaim(),
    }


def gen() -> dict[str, str]:
    d = extract()
    q = chr(34)

    def lst(xs: list[str]) -> str:
        return "[" + ",\n   ".join(q + x.replace("\\", "\\\\").replace(q, "'") + q for x in xs) + "]"

    body = (
        "/- GENERATED by harness/translate/pool.py from pynenc/runner/*_runner.py — do not edit -/\n"
        "namespace Pynenc.Gen.PoolShape\n\n"
        f"def activeIds : List String :=\n  {lst(d['active'])}\n\n"
        f"def persistentLoop : List String :=\n  {lst(d['persistent'])}\n\n"
        f"def processReclaim : List String :=\n  {lst(d['reclaim'])}\n\n"
        "end Pynenc.Gen.PoolShape\n"
    )
    return {"PoolShape.lean": body}


if __name__ == "__main__":
    print(gen()["PoolShape.lean"])
