"""C20 helpers: building system states of a monitored pynenc app by operation histories, a full read-out of its
backends (raw stores + public-API view), a recorder of the component methods a request really invokes, and the
generator of request URLs for every route of the monitor.  Nothing here knows the Lean model."""
from __future__ import annotations

import dataclasses
import datetime as dt
import time as _t
import enum
import inspect
import json
import os
import sqlite3
import threading
import urllib.parse
from collections import OrderedDict, deque
from typing import Any

from harness import tasks as T
from harness.apps import flush, make_app, rctx

COMPONENTS = ("broker", "orchestrator", "state_backend", "trigger", "client_data_store")
BIG = "B" * 3000  # larger than client data store's min_size_to_cache (1024): stored externally
MID = "m" * 700    # serialized form between 500 and 1024 characters: stored inline, long enough for a page to want to shorten it

# ------------------------------------------------------------------------------------------------
# the monitored application and its operation history
# ------------------------------------------------------------------------------------------------

_WORLD_SEQ = [0]


class World:
    """One monitored app (`kind` = mem | sqlite) whose state is produced by `apply`-ing abstract operations.
    Operations refer to invocations by creation index, so a history replays on a fresh app."""

    def __init__(self, kind: str, tmp: str, tag: str = "w", **conf: Any):
        from pynenc.trigger.trigger_builder import TriggerBuilder

        _WORLD_SEQ[0] += 1
        self.kind = kind
        self.app_id = f"c20{tag}{_WORLD_SEQ[0]}{kind}"
        # finals are due for auto-purge at once: a page that triggered the purge would visibly delete them
        # ... and heartbeats never expire while the check runs (the read-out must not depend on how slow the machine is)
        cfg = {"auto_final_invocation_purge_hours": 0.0, "runner_considered_dead_after_minutes": 1.0e6}
        cfg.update(conf)
        self.app = make_app(kind, tmp, app_id=self.app_id, **cfg)
        a = self.app
        self.tasks = {
            "add": a.task(T.add),
            "keyed": a.task(T.keyed),
            "ident": a.task(T.ident),
            "noop": a.task(T.noop, triggers=[TriggerBuilder().on_cron("*/5 * * * *"), TriggerBuilder().on_event("ping")]),
        }
        # a fully initialised system: every component exists before the first read-out
        for c in COMPONENTS:
            getattr(a, c)
        _ = getattr(a.orchestrator, "blocking_control", None)
        self.inv: list[str] = []
        self.invobj: dict[str, Any] = {}
        self.runners: list[str] = []
        self.ghosts: list[str] = []
        self.wf_keys: list[tuple[int, str]] = []
        self.history: list[list] = []
        self.errors: list[str] = []

    # -- helpers --
    def _i(self, k: int) -> str | None:
        return self.inv[k % len(self.inv)] if self.inv else None

    def _obj(self, inv_id: str):
        o = self.invobj.get(inv_id)
        if o is None:
            o = self.app.state_backend.get_invocation(inv_id)
        return o

    def _new(self, inv) -> None:
        self.inv.append(inv.invocation_id)
        self.invobj[inv.invocation_id] = inv

    def _runner(self, r: str):
        if r not in self.runners:
            self.runners.append(r)
        return rctx(r)

    def apply(self, op: list) -> None:
        """Apply one operation; an operation the real code refuses is recorded and otherwise ignored."""
        from pynenc import context
        from pynenc.invocation.status import InvocationStatus as S

        self.history.append(op)
        a, o, sb = self.app, self.app.orchestrator, self.app.state_backend
        k = op[0]
        try:
            if k == "call":
                t = self.tasks[op[1]]
                self._new(t(*op[2]))
                if any(isinstance(x, str) and len(x) > 400 for x in op[2]):
                    self.special = getattr(self, "special", []) + [self.inv[-1]]
            elif k == "child":
                p = self._i(op[1])
                if p is None:
                    return
                prev = context.swap_dist_invocation_context(a.app_id, self._obj(p))
                try:
                    self._new(self.tasks[op[2]](*op[3]))
                finally:
                    context.swap_dist_invocation_context(a.app_id, prev)
            elif k == "claim":
                list(o.get_invocations_to_run(op[2], self._runner(op[1])))
            elif k == "status":
                i = self._i(op[1])
                if i:
                    o.set_invocation_status(i, S[op[2]], self._runner(op[3]))
            elif k == "finish":
                i = self._i(op[1])
                if i:
                    o.set_invocation_result(self._obj(i), op[3], self._runner(op[2]))
            elif k == "fail":
                i = self._i(op[1])
                if i:
                    o.set_invocation_exception(self._obj(i), ValueError(op[3]), self._runner(op[2]))
            elif k == "retry":
                i = self._i(op[1])
                if i:
                    o.set_invocation_retry(i, RuntimeError("again"), self._runner(op[2]))
            elif k == "incretry":
                i = self._i(op[1])
                if i:
                    o.increment_invocation_retries(i)
            elif k == "heartbeat":
                for r in op[1]:
                    sb.store_runner_context(self._runner(r))
                o.register_runner_heartbeats(list(op[1]), bool(op[2]))
            elif k == "stale":
                # a runner that has been silent for longer than the dead-runner limit (crashed, or stalled: it may come back):
                # its record is still stored; the backdating is done below the API
                rid = op[1]
                sb.store_runner_context(self._runner(rid))
                o.register_runner_heartbeats([rid], True)
                now = dt.datetime.now(dt.UTC)
                o.record_atomic_service_execution(rid, now - dt.timedelta(seconds=3), now - dt.timedelta(seconds=1))
                long_ago = _t.time() - 4 * 365 * 86400.0
                if self.kind == "mem":
                    o.runner_last_heartbeat[rid] = long_ago
                else:
                    from pynenc.util.sqlite_utils import create_sqlite_connection

                    with create_sqlite_connection(o.sqlite_db_path) as conn:
                        conn.execute(f"UPDATE {o.tables.RUNNER_HEARTBEATS} SET last_heartbeat=? WHERE runner_id=?", (long_ago, rid))
                        conn.commit()
            elif k == "oldpending":
                # an invocation a stalled runner claimed long ago and never started (PENDING far beyond max_pending_seconds; RUNNING of a
                # runner that may be gone): what the recovery services will deal with - a page that shows it does not
                i = self._i(op[1])
                if i:
                    from harness.apps import inject_status

                    rec = o.get_invocation_status_record(i)
                    if rec.status in (S.PENDING, S.RUNNING):
                        inject_status(a, i, rec.status, rec.runner_id, int((_t.time() - 4 * 3600.0) * 1_000_000))
            elif k == "atomic":
                now = dt.datetime.now(dt.UTC)
                o.register_runner_heartbeats([op[1]], True)
                self._runner(op[1])
                o.record_atomic_service_execution(op[1], now - dt.timedelta(seconds=2), now)     # (takes the runner id)
            elif k == "wait":
                i = self._i(op[1])
                js = [self._i(j) for j in op[2]]
                if i and all(js):
                    o.waiting_for_results(i, [j for j in js if j != i] or js)
            elif k == "wfrun":
                i = self._i(op[1])
                if i:
                    sb.store_workflow_run(self._obj(i).workflow)
            elif k == "wfsub":
                i, j = self._i(op[1]), self._i(op[2])
                if i and j:
                    sb.store_workflow_sub_invocation(self._obj(i).workflow.workflow_id, j)
            elif k == "wfdata":
                i = self._i(op[1])
                if i:
                    sb.set_workflow_data(self._obj(i).workflow, op[2], op[3])
                    self.wf_keys.append((op[1], op[2]))
            elif k == "event":
                a.trigger.emit_event(op[1], {"n": op[2]})
            elif k == "triggers":
                a.register_deferred_triggers()
            elif k == "route":
                i = self._i(op[1])
                if i:
                    a.broker.route_invocation(i)
            elif k == "ghost":
                self.ghosts.append(op[1])
                a.broker.route_invocation(op[1])
            elif k == "forget":
                # the housekeeping of a runner purged ONE invocation (what `auto_purge` does for a finished one whose retention is over):
                # its orchestrator record is gone while it may still be queued, awaited, stored
                i = self._i(op[1])
                if i:
                    o.clean_up_invocation(i)
            elif k == "purge":
                getattr(a, op[1]).purge()
            else:
                raise ValueError(f"unknown op {op}")
        except Exception as e:  # noqa: BLE001
            self.errors.append(f"{op}: {type(e).__name__}: {str(e)[:80]}")
        finally:
            flush(a)


def scripted_histories() -> dict[str, list[list]]:
    """State families the property names: queues longer than the page limit, every lifecycle stage,
    partially purged stores, ids queued without a record, workflows/children/waits, triggers, big arguments."""
    lifecycle = [
        ["heartbeat", ["rA", "rB"], False], ["atomic", "rA"],
        ["call", "add", [1, 2]], ["call", "add", [3, 4]], ["call", "keyed", ["k1", "v"]], ["call", "add", [5, 6]],
        ["call", "ident", [BIG]], ["call", "add", [7, 8]], ["call", "keyed", ["k2"]], ["call", "ident", [MID]],
        ["claim", "rA", 3], ["status", 0, "RUNNING", "rA"], ["status", 1, "RUNNING", "rA"], ["finish", 0, "rA", 3],
        ["fail", 1, "rA", "boom"], ["claim", "rB", 1], ["status", 3, "RUNNING", "rB"], ["retry", 3, "rB"],
        ["incretry", 2], ["heartbeat", ["rA"], True], ["stale", "rOld"], ["call", "add", [8, 9]], ["claim", "rOld", 1],
        ["oldpending", 8], ["call", "add", [9, 1]], ["claim", "rOld", 1], ["status", 9, "RUNNING", "rOld"], ["oldpending", 9],
        ["call", "add", [10, 1]], ["call", "add", [11, 1]], ["call", "add", [12, 1]], ["forget", 12], ["wait", 11, [12]], ["wait", 10, [11]],
        ["call", "add", [13, 1]],       # (the last invocation of the world stays a plain REGISTERED one)
    ]
    return {
        "long-queue": [["call", "add", [i, i]] for i in range(7)],
        "lifecycle": lifecycle,
        "state-backend-purged": lifecycle[:9] + [["claim", "rA", 1], ["purge", "state_backend"]],
        "orchestrator-purged": lifecycle + [["purge", "orchestrator"]],
        "broker-purged": lifecycle + [["purge", "broker"], ["call", "add", [9, 9]]],
        "cds-purged": [["call", "ident", [BIG]], ["call", "add", [1, 1]], ["call", "ident", [BIG + "x"]], ["purge", "client_data_store"]],
        "ghost-in-queue": [["call", "add", [1, 1]], ["ghost", "ghost-0001"], ["call", "add", [2, 2]], ["route", 0],
                           ["ghost", "00000000-0000-0000-0000-000000000000"], ["call", "add", [3, 3]]],
        "workflows": [
            ["heartbeat", ["rW"], True], ["call", "add", [1, 2]], ["claim", "rW", 1], ["status", 0, "RUNNING", "rW"], ["wfrun", 0],
            ["child", 0, "add", [2, 3]], ["child", 0, "keyed", ["c"]], ["child", 1, "add", [4, 5]], ["wfsub", 0, 1], ["wfsub", 0, 2],
            ["wfdata", 0, "k", "v"], ["wfdata", 0, "counter", 3], ["wait", 0, [1, 2]], ["call", "noop", []], ["wfrun", 4],
            ["claim", "rW", 2], ["status", 1, "RUNNING", "rW"], ["finish", 1, "rW", 5],
        ],
        "triggers": [["triggers"], ["event", "ping", 1], ["event", "pong", 2], ["call", "noop", []], ["event", "ping", 3],
                     ["heartbeat", ["rT"], True]],
        "empty": [],
    }


def random_history(rng, n: int) -> list[list]:
    ops: list[list] = []
    runners = ["rA", "rB", "rC"]
    for _ in range(n):
        r = rng.random()
        run = rng.choice(runners)
        k = rng.randrange(0, 12)
        if r < 0.28:
            t = rng.choice(["add", "add", "keyed", "ident", "noop"])
            args = {"add": [rng.randrange(9), rng.randrange(9)], "keyed": [rng.choice(["k1", "k2", "ü"])],
                    "ident": [rng.choice([BIG, "small", BIG + "y"])], "noop": []}[t]
            ops.append(["call", t, args])
        elif r < 0.36:
            ops.append(["child", k, rng.choice(["add", "keyed"]), [rng.randrange(9)] if rng.random() < 0.5 else ["c"]])
        elif r < 0.48:
            ops.append(["claim", run, rng.randrange(1, 4)])
        elif r < 0.58:
            ops.append(["status", k, rng.choice(["RUNNING", "RUNNING", "PAUSED", "KILLED", "PENDING_RECOVERY", "REROUTED"]), run])
        elif r < 0.64:
            ops.append(["finish", k, run, rng.choice([1, "ok", [1, 2], {"a": 1}, BIG])])
        elif r < 0.69:
            ops.append(["fail", k, run, "boom"])
        elif r < 0.73:
            ops.append(["retry", k, run])
        elif r < 0.79:
            ops.append(["heartbeat", rng.sample(runners, rng.randrange(1, 3)), rng.random() < 0.5])
        elif r < 0.795:
            ops.append(["stale", rng.choice(["rOld", "rC"])])
        elif r < 0.798:
            ops.append(["oldpending", k])
        elif r < 0.80:
            ops.append(["forget", k])
        elif r < 0.81:
            ops.append(["atomic", run])
        elif r < 0.84:
            ops.append(["wait", k, [rng.randrange(12)]])
        elif r < 0.89:
            ops.append(rng.choice([["wfrun", k], ["wfsub", k, rng.randrange(12)], ["wfdata", k, rng.choice(["k", "z"]), rng.randrange(5)]]))
        elif r < 0.92:
            ops.append(rng.choice([["event", "ping", k], ["triggers"]]))
        elif r < 0.95:
            ops.append(rng.choice([["route", k], ["ghost", f"ghost-{k}"]]))
        else:
            ops.append(["purge", rng.choice(["state_backend", "orchestrator", "broker", "client_data_store", "trigger"])])
    return ops


# ------------------------------------------------------------------------------------------------
# read-out
# ------------------------------------------------------------------------------------------------

_SKIP = object()
_LOCK_TYPES = (type(threading.Lock()), type(threading.RLock()), threading.Thread, threading.Event, threading.Condition)
# process-local caches and plumbing of a component object: not part of the system the property talks about
_SKIP_ATTRS = {"app", "conf", "_logger", "logger", "_deserialized_cache", "locks", "_lock", "_hash", "tables"}


def canon(o: Any, depth: int = 0) -> Any:
    """Deterministic JSON-able image of a value found inside an in-memory backend."""
    if depth > 12:
        return "<deep>"
    if o is None or isinstance(o, bool | int | float | str):
        return o
    if isinstance(o, bytes):
        return "b:" + o.hex()
    if isinstance(o, enum.Enum):
        return f"{type(o).__name__}.{o.name}"
    if isinstance(o, dt.datetime | dt.date | dt.timedelta):
        return repr(o)
    if isinstance(o, _LOCK_TYPES) or callable(o) and not hasattr(o, "__dict__"):
        return _SKIP
    cls = type(o)
    name = f"{cls.__module__}.{cls.__qualname__}"
    if name in ("pynenc.app.Pynenc",):
        return f"<app {o.app_id}>"
    if cls.__module__.startswith("pynenc.identifiers"):
        return f"{cls.__name__}({o})"  # identifiers cache derived fields (key) lazily
    if name == "pynenc.task.Task":
        return f"<task {o.task_id.key}>"
    if name.endswith("DistributedInvocation"):
        return f"<invocation {o.invocation_id}>"
    if isinstance(o, OrderedDict):
        out = []
        for k, v in o.items():
            cv = canon(v, depth + 1)
            if cv is _SKIP or cv in ([], {}):
                continue
            out.append([_key(k, depth), cv])
        return out
    if isinstance(o, dict):
        out = []
        for k, v in o.items():
            cv = canon(v, depth + 1)
            if cv is _SKIP or cv in ([], {}):
                continue  # an empty entry of a defaultdict is not observable
            out.append([_key(k, depth), cv])
        return sorted(out, key=lambda p: p[0])
    if isinstance(o, set | frozenset):
        return sorted(json.dumps(canon(x, depth + 1), sort_keys=True, default=str) for x in o)
    if isinstance(o, tuple) and hasattr(o, "_fields"):
        return {"__nt__": cls.__name__, **{f: canon(getattr(o, f), depth + 1) for f in o._fields}}
    if isinstance(o, list | tuple | deque):
        return [c for c in (canon(x, depth + 1) for x in o) if c is not _SKIP]
    if dataclasses.is_dataclass(o) or hasattr(o, "__dict__"):
        d = {"__cls__": name}
        for k, v in sorted(vars(o).items()):
            if k in _SKIP_ATTRS:
                continue
            cv = canon(v, depth + 1)
            if cv is not _SKIP:
                d[k] = cv
        for sl in getattr(cls, "__slots__", ()) or ():
            if hasattr(o, sl) and sl not in _SKIP_ATTRS:
                cv = canon(getattr(o, sl), depth + 1)
                if cv is not _SKIP:
                    d[sl] = cv
        return d
    return repr(o)


def _key(k: Any, depth: int) -> str:
    c = canon(k, depth + 1)
    return c if isinstance(c, str) else json.dumps(c, sort_keys=True, default=str)


def _component(app, name: str):
    """the component object WITHOUT creating it (a GET that instantiates one is seen as a change of '<present>')"""
    return getattr(app, f"_{name}", None) if hasattr(app, f"_{name}") else getattr(app, name)


def mem_raw(app) -> dict:
    out: dict[str, Any] = {}
    for cname in COMPONENTS:
        comp = getattr(app, cname)
        d = {}
        for k, v in sorted(vars(comp).items()):
            if k in _SKIP_ATTRS:
                continue
            cv = canon(v)
            if isinstance(cv, dict) and "__cls__" in cv and all(x in (None, [], {}) for kk, x in cv.items() if kk != "__cls__"):
                cv = None  # a lazily created, still empty helper object (e.g. the blocking control after a purge) is not observable
            if cv is not _SKIP:
                d[k] = cv
        out[cname] = d
    return out


def sqlite_paths(app) -> list[str]:
    paths = []
    for cname in COMPONENTS:
        p = getattr(getattr(app, cname), "sqlite_db_path", None)
        if p and p not in paths:
            paths.append(p)
    return paths


def sqlite_raw(app) -> dict:
    """every table of the database file(s): the broker queue as its ids in delivery order, all other tables as
    sorted rows; plus the schema objects themselves"""
    out: dict[str, Any] = {}
    for path in sqlite_paths(app):
        con = sqlite3.connect(f"file:{urllib.parse.quote(path)}?mode=ro", uri=True, timeout=10)
        try:
            objs = con.execute("SELECT type, name FROM sqlite_master WHERE name NOT LIKE 'sqlite_%' ORDER BY type, name").fetchall()
            out[f"{os.path.basename(path)}::schema"] = [list(x) for x in objs]
            for typ, name in objs:
                if typ != "table":
                    continue
                if name.endswith("_message_queue"):
                    rows = [r[0] for r in con.execute(f'SELECT invocation_id FROM "{name}" ORDER BY created_at ASC, id ASC')]
                else:
                    rows = sorted(repr(tuple(r)) for r in con.execute(f'SELECT * FROM "{name}"'))
                out[f"{os.path.basename(path)}::{name}"] = rows
        finally:
            con.close()
    return out


def queue_in_order(app, kind: str) -> list[str]:
    b = app.broker
    if kind == "mem" and isinstance(getattr(b, "_queue", None), deque):
        return [str(x) for x in b._queue]
    if kind == "sqlite" and hasattr(b, "tables") and hasattr(b, "sqlite_db_path"):
        con = sqlite3.connect(b.sqlite_db_path, timeout=10)
        try:
            return [r[0] for r in con.execute(f"SELECT invocation_id FROM {b.tables.QUEUE} ORDER BY created_at ASC, id ASC")]
        finally:
            con.close()
    # fallback: drain and restore through the public API
    ids = []
    while (i := b.retrieve_invocation()) is not None:
        ids.append(str(i))
    for i in ids:
        b.route_invocation(i)
    return ids


def _try(f):
    try:
        return f()
    except Exception as e:  # noqa: BLE001
        return f"!{type(e).__name__}"


def api_view(w: World, queue: list[str]) -> dict:
    """what the public read methods say: per invocation status/owner/timestamp, retries, result, exception, history,
    children; runner heartbeats and contexts; trigger store; workflow data"""
    app = w.app
    o, sb, tr = app.orchestrator, app.state_backend, app.trigger
    ids = sorted({*w.inv, *queue, *w.ghosts})
    inv = {}
    for i in ids:
        def st():
            r = o.get_invocation_status_record(i)
            return [r.status.name, r.runner_id, r.timestamp.isoformat()]

        def hist():
            return [[h.status_record.status.name, h.status_record.runner_id, h.timestamp.isoformat(), h.runner_context_id]
                    for h in sb.get_history(i)]

        inv[i] = {
            "status": _try(st), "retries": _try(lambda: o.get_invocation_retries(i)),
            "record": _try(lambda: sb.get_invocation(i).call.call_id.key),
            "result": _try(lambda: repr(sb.get_result(i))[:200]),
            "exception": _try(lambda: (lambda e: f"{type(e).__name__}{e.args!r}")(sb.get_exception(i))),
            "history": _try(hist), "children": _try(lambda: sorted(str(c) for c in sb.get_child_invocations(i))),
        }
    runners = _try(lambda: [[r.runner_id, r.creation_time.isoformat(), r.last_heartbeat.isoformat(), r.allow_to_run_atomic_service,
                             str(r.last_service_start), str(r.last_service_end)] for r in o.get_active_runners()])
    ctxs = {r: _try(lambda: repr(sb.get_runner_context(r))) for r in w.runners}
    trig = {
        "valid": _try(lambda: sorted(tr.get_valid_conditions())),
        "conditions": _try(lambda: sorted(str(getattr(c, "condition_id", type(c).__name__)) for c in tr._get_all_conditions()))
        if hasattr(tr, "_get_all_conditions") else None,
    }
    wf = {
        "types": _try(lambda: sorted(str(t) for t in sb.get_all_workflow_types())),
        "runs": _try(lambda: sorted(str(r.workflow_id) for r in sb.get_all_workflow_runs())),
        "data": {f"{k}:{key}": _try(lambda: repr(sb.get_workflow_data(w._obj(w._i(k)).workflow, key, None))) for k, key in w.wf_keys if w._i(k)},
    }
    blocking = _try(lambda: sorted(str(x) for x in o.get_blocking_invocations(100)))
    return {"invocations": inv, "runners": runners, "runner_contexts": ctxs, "trigger": trig, "workflows": wf, "blocking": blocking}


def readout(w: World, with_api: bool = True) -> dict:
    flush(w.app)
    q = queue_in_order(w.app, w.kind)
    raw = mem_raw(w.app) if w.kind == "mem" else sqlite_raw(w.app)
    out = {"queue": q, "raw": raw}
    if with_api:
        out["api"] = api_view(w, q)
    return out


def diff(a: Any, b: Any, path: str = "", out: list | None = None, cap: int = 6) -> list[str]:
    """human-readable differences between two read-outs"""
    out = [] if out is None else out
    if len(out) >= cap:
        return out
    if type(a) is not type(b):
        out.append(f"{path}: {_short(a)} -> {_short(b)}")
    elif isinstance(a, dict):
        for k in sorted({*a, *b}, key=str):
            if k not in a:
                out.append(f"{path}/{k}: (absent) -> {_short(b[k])}")
            elif k not in b:
                out.append(f"{path}/{k}: {_short(a[k])} -> (absent)")
            else:
                diff(a[k], b[k], f"{path}/{k}", out, cap)
            if len(out) >= cap:
                break
    elif isinstance(a, list):
        if a != b:
            if len(a) == len(b) and all(isinstance(x, str) for x in [*a, *b]) and sum(x != y for x, y in zip(a, b)) == 1:
                x, y = next((x, y) for x, y in zip(a, b) if x != y)
                k = next((i for i, (c, e) in enumerate(zip(x, y)) if c != e), min(len(x), len(y)))
                out.append(f"{path}: one row changed: ...{x[max(0, k - 12):k + 90]!r} -> ...{y[max(0, k - 12):k + 90]!r}")
            elif len(a) == len(b) and all(isinstance(x, dict | list) for x in a):
                for n, (x, y) in enumerate(zip(a, b)):
                    diff(x, y, f"{path}[{n}]", out, cap)
            else:
                out.append(f"{path}: {_short(a)} -> {_short(b)}")
    elif a != b:
        out.append(f"{path}: {_short(a)} -> {_short(b)}")
    return out


def _short(x: Any) -> str:
    s = json.dumps(x, default=str)
    return s if len(s) <= 220 else s[:217] + "..."


# ------------------------------------------------------------------------------------------------
# recorder of component calls
# ------------------------------------------------------------------------------------------------


class Recorder:
    """Wraps the public methods of the backend component *instances* of one app; while `active`, remembers which
    `component.method` were entered from outside the components (depth 0, per thread) and the classes of the pynenc
    objects they returned."""

    def __init__(self, app):
        self.app = app
        self.active = False
        self.calls: set[str] = set()
        self.types: set[str] = set()
        self.tl = threading.local()
        for cname in COMPONENTS:
            comp = getattr(app, cname)
            for name in dir(type(comp)):
                if name.startswith("_"):
                    continue
                try:
                    raw = inspect.getattr_static(type(comp), name)
                except AttributeError:
                    continue
                if isinstance(raw, staticmethod | classmethod):
                    continue
                if not inspect.isfunction(raw) or inspect.iscoroutinefunction(raw):
                    continue
                setattr(comp, name, self._wrap(cname, name, getattr(comp, name)))

    def _depth(self) -> int:
        return getattr(self.tl, "d", 0)

    def _note(self, r: Any, n: int = 0) -> None:
        if n > 3 or r is None or isinstance(r, str | int | float | bool | bytes):
            return
        if isinstance(r, list | tuple | set | frozenset) and not hasattr(r, "_fields"):
            for x in list(r)[:50]:
                self._note(x, n + 1)
            return
        if isinstance(r, dict):
            for x in list(r.values())[:50]:
                self._note(x, n + 1)
            return
        c = type(r)
        mod = getattr(c, "__module__", "") or ""
        if mod.startswith("pynenc.") and not isinstance(r, enum.Enum | BaseException):
            self.types.add(f"{mod}.{c.__name__}")

    def _wrap(self, cname: str, name: str, fn):
        rec = self

        def wrapper(*a, **k):
            d = rec._depth()
            top = d == 0 and rec.active
            if top:
                rec.calls.add(f"{cname}.{name}")
            rec.tl.d = d + 1
            try:
                r = fn(*a, **k)
            finally:
                rec.tl.d = d
            if inspect.isgenerator(r):
                return rec._gen(r, top)
            if top:
                rec._note(r)
            return r

        wrapper.__name__ = name
        wrapper.__wrapped__ = fn
        return wrapper

    def _gen(self, g, top: bool):
        rec = self

        def it():
            while True:
                d = rec._depth()
                rec.tl.d = d + 1
                try:
                    x = next(g)
                except StopIteration:
                    return
                finally:
                    rec.tl.d = d
                if top:
                    rec._note(x)
                yield x

        return it()

    def start(self) -> None:
        self.calls, self.types, self.active = set(), set(), True

    def stop(self) -> tuple[set[str], set[str]]:
        self.active = False
        return self.calls, self.types


# ------------------------------------------------------------------------------------------------
# requests
# ------------------------------------------------------------------------------------------------

MISSING_UUID = "11111111-2222-3333-4444-555555555555"
MALFORMED = ["not-a-uuid", "%20", "..", "x" * 300, "ünï", "a:b", "0", "None", "'; DROP TABLE x;--"]


def _existing(w: World, rng, what: str) -> str | None:
    """a value that exists in the monitored app for a path/query parameter"""
    special = [i for i in getattr(w, "special", []) if i in w.inv]      # invocations with an unusual payload: asked for half of the time
    forced = getattr(w, "force_inv", None)
    if forced is not None and forced in w.inv and what in ("invocation", "call"):
        special = [forced]
        rng = type("Always", (), {"random": staticmethod(lambda: 0.0), "choice": staticmethod(lambda xs: xs[0])})()
    if what == "invocation":
        if special and rng.random() < 0.5:
            return rng.choice(special)
        return rng.choice(w.inv) if w.inv else None
    if what == "runner":
        return rng.choice(w.runners) if w.runners else None
    if what == "task":
        return rng.choice(list(w.tasks.values())).task_id.key
    if what == "call":
        if not w.inv:
            return None
        o = w.invobj.get(rng.choice(special) if special and rng.random() < 0.5 else rng.choice(w.inv))
        return o.call.call_id.key if o is not None else None
    if what == "workflow_type":
        return rng.choice(list(w.tasks.values())).task_id.key
    if what == "workflow_id":
        if not w.inv:
            return None
        o = w.invobj.get(rng.choice(w.inv))
        return str(o.workflow.workflow_id) if o is not None else None
    if what == "app":
        return w.app_id
    return None


LAZY_TASK_KEYS = ["harness.tasks.c02_body", "harness.tasks.tree", "pynenc.core_tasks.recover_pending_invocations", "pynenc.core_tasks.recover_running_invocations"]
PATH_KIND = {"invocation_id": "invocation", "runner_id": "runner", "task_id_key": "task", "call_id_key": "call",
             "workflow_type_key": "workflow_type", "app_id": "app"}
QUERY_KIND = {"task_id": "task", "workflow_id": "workflow_id", "workflow_type": "workflow_type", "call_id_key": "call"}


def log_text(w: World, rng) -> str:
    """a pynenc-looking log block naming existing and missing invocations and runners"""
    lines = []
    ids = (rng.sample(w.inv, min(2, len(w.inv))) if w.inv else []) + [MISSING_UUID]
    for i in ids:
        r = rng.choice(w.runners) if w.runners else "rX"
        lines.append(f"2026-01-01 10:00:0{rng.randrange(9)}.123 INFO pynenc.runner [TR({r[:6]}) {i}:harness.tasks.add] "
                     f"invocation:{i} status:RUNNING runner:{r} task:harness.tasks.add")
    lines.append("garbage line without structure")
    return "\n".join(lines)


def param_values(name: str, w: World, rng, mode: str) -> Any:
    """a value for a query parameter; mode in existing | missing | malformed | edge"""
    ints = {"limit": {"existing": [2, 5, 20, 50], "missing": [1000, 10**6], "malformed": ["abc", "", "1.5"], "edge": [0, -1, 1]},
            "page": {"existing": [1, 2], "missing": [10**4], "malformed": ["x"], "edge": [0, -3]},
            "bare": {"existing": [0, 1], "missing": [7], "malformed": ["yes"], "edge": [-1]}}
    if name in ints:
        return rng.choice(ints[name][mode])
    if name in QUERY_KIND:
        if mode == "edge" and QUERY_KIND[name] in ("task", "workflow_type"):
            return rng.choice(LAZY_TASK_KEYS)
        if mode == "existing":
            return _existing(w, rng, QUERY_KIND[name])
        if mode == "missing":
            return {"task": "no.such.module.fn", "workflow_id": MISSING_UUID, "workflow_type": "no.such.module.wf",
                    "call": "harness.tasks.add:" + "0" * 64}[QUERY_KIND[name]]
        return rng.choice(MALFORMED)
    if name == "status":
        return {"existing": rng.choice(["registered", "pending", "running", "success", "failed", "retry", "RUNNING"]),
                "missing": "killed", "malformed": "bogus", "edge": ""}[mode]
    if name == "time_range":
        return {"existing": rng.choice(["5m", "1h", "1d"]), "missing": "custom", "malformed": "bogus", "edge": "custom"}[mode]
    if name in ("start_date", "end_date"):
        base = dt.datetime.now(dt.UTC) + dt.timedelta(hours=1 if name == "end_date" else -1)
        return {"existing": base.isoformat(), "missing": "1999-01-01T00:00:00", "malformed": "yesterday", "edge": base.replace(tzinfo=None).isoformat()}[mode]
    if name == "resolution":
        return {"existing": rng.choice(["auto", "1", "60"]), "missing": "3600", "malformed": "fine", "edge": "0"}[mode]
    if name == "collapse_external":
        return rng.choice(["0", "1", "x"])
    if name == "expand":
        e = _existing(w, rng, "invocation")
        return {"existing": e, "missing": MISSING_UUID, "malformed": ",,,", "edge": f"{e},{MISSING_UUID}"}[mode]
    if name == "log":
        return {"existing": log_text(w, rng), "missing": f"invocation:{MISSING_UUID}", "malformed": "\x00\n[[[", "edge": ""}[mode]
    return {"existing": "x", "missing": "nope", "malformed": rng.choice(MALFORMED), "edge": ""}[mode]


def build_url(route: dict, w: World, rng, mode: str, query_names: list[str]) -> tuple[str, dict] | None:
    """(url, description) for one request to `route` in the given mode; None when the mode needs something the
    state does not have (e.g. an existing invocation in an empty app)"""
    import re

    path = route["path"]
    spec: dict[str, Any] = {"mode": mode, "path": {}, "query": {}}
    full = mode == "full"          # "full": existing values for EVERY declared query parameter at once (filters combine)
    if full:
        mode = "existing"
    for m in re.finditer(r"\{(\w+)(?::\w+)?\}", route["path"]):
        p = m.group(1)
        kind = PATH_KIND.get(p)
        if mode == "edge" and kind in ("task", "workflow_type"):
            # a task the monitored application has NOT registered (yet) but that can be resolved: a lazily imported module, a core task
            v = rng.choice(LAZY_TASK_KEYS)
        elif mode == "existing" or (mode == "edge" and kind != "invocation"):
            v = _existing(w, rng, kind) if kind else "x"
            if mode == "edge" and kind == "call" and v:
                v = v  # keep; query params carry the edge values
        elif mode == "missing":
            v = {"invocation": MISSING_UUID, "runner": "no-such-runner", "task": "no.such.module.fn", "call": "harness.tasks.add:" + "0" * 64,
                 "workflow_type": "no.such.module.wf", "app": "no-such-app"}.get(kind, "nope")
        elif mode == "edge":
            # an id that is queued / known to one store but not to the others
            v = (rng.choice(w.ghosts) if w.ghosts else MISSING_UUID)
        else:
            v = rng.choice(MALFORMED)
        if v is None:
            return None
        spec["path"][p] = v
        path = path.replace(m.group(0), urllib.parse.quote(str(v), safe=""))
    q = {}
    for name in query_names:
        if mode == "existing" and not full and rng.random() < 0.5 and name not in ("limit", "log", "call_id_key"):
            continue  # defaults
        v = param_values(name, w, rng, mode)
        if v is None:
            continue
        q[name] = v
    spec["query"] = q
    url = path + ("?" + urllib.parse.urlencode(q) if q else "")
    return url, spec
