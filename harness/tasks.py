"""Plain module-level functions the harness turns into pynenc tasks (``app.task(func, **options)``)."""


def add(x: int, y: int = 0) -> int:
    return x + y


def ident(x):  # type: ignore[no-untyped-def]
    return x


def keyed(k: str, v: str = "d", w: str = "e") -> str:
    return f"{k}|{v}|{w}"


def noop() -> None:
    return None


# ---- C18 probes -------------------------------------------------------------------------------
WF_LOG: list = []


def wf_probe(tag: str, n: int = 2) -> list:
    """Body issuing n deterministic random numbers through the task's own workflow helper."""
    from pynenc import context

    app = context.get_current_app()
    t = app.get_task(__import__("pynenc.identifiers.task_id", fromlist=["TaskId"]).TaskId(__name__, "wf_probe"))
    vals = [t.wf.random() for _ in range(n)]
    WF_LOG.append((tag, t.invocation.workflow.workflow_id, vals))
    return vals


# ---- C02: a body that records entry/exit and offers yield points --------------------------------
def c02_body(x: int) -> int:
    from harness.props import c02 as _c02
    from pynenc import context

    app = context.get_current_app()
    inv = context.get_dist_invocation_context(app.app_id)
    import threading

    _c02.BODY_LOG.append(("enter", inv.invocation_id, threading.get_ident()))
    # a few scheduler-visible steps inside the body (source lines for the in-memory scheduler,
    # SQL statements for the SQLite one)
    app.orchestrator.get_invocation_status(inv.invocation_id)
    y = x + 1
    app.orchestrator.get_invocation_status(inv.invocation_id)
    _c02.BODY_LOG.append(("exit", inv.invocation_id, threading.get_ident()))
    return y


# ---- C09 call trees ---------------------------------------------------------------------------
def tree(spec: list) -> int:
    """A node of a generated call tree.  `spec` is a JSON-able list of actions executed in order:
    ["single", child] launch one child and wait for its result; ["group", [c1, ...]] launch the
    children with `parallelize` and wait for all results; ["fanout", [c1, ...]] launch every child
    singly first, then wait for each result in turn.  Returns the number of nodes of its subtree."""
    from pynenc import context
    from pynenc.identifiers.task_id import TaskId

    app = context.get_current_app()
    t = app.get_task(TaskId(__name__, "tree"))
    total = 1
    for kind, arg in spec:
        if kind == "single":
            total += t(arg).result
        elif kind == "group":
            total += sum(t.parallelize([(c,) for c in arg]).results)
        elif kind == "fanout":
            invs = [t(c) for c in arg]
            total += sum(i.result for i in invs)
        else:
            raise ValueError(kind)
    return total


# ---- C06: a body that holds RUNNING until the harness opens its gate ---------------------------
CC_GATES: dict = {}
CC_FAIL: dict = {}


def cc_body(k: str, v: str = "d", w: str = "e") -> str:
    import threading

    from pynenc import context
    from pynenc.exceptions import RetryError

    app = context.get_current_app()
    inv = context.get_dist_invocation_context(app.app_id)
    gate = CC_GATES.setdefault(inv.invocation_id, threading.Event())
    gate.wait(3600)      # released by the harness only (a shorter timeout let bodies finish on their own in long thorough runs)
    gate.clear()
    if CC_FAIL.pop(inv.invocation_id, None) == "retry":
        raise RetryError("again")
    return f"{k}|{v}|{w}"


def cc_noargs() -> str:
    """the gated body of `cc_body` for a task WITHOUT parameters (its serialized-argument dictionary is empty)"""
    return cc_body("-")


# ---- effect-program tracing (harness/translate/programs.py) ---------------------------------------
class ProgError(Exception):
    pass


def prog_body(mode: str) -> str:
    if mode == "fail":
        raise ProgError("boom", 7)
    return mode


def prog_retry(x: str) -> str:
    from pynenc.exceptions import RetryError

    raise RetryError("later")


# ---- C05: outcome path ----------------------------------------------------------------------------
def c05_echo(v):  # type: ignore[no-untyped-def]
    return v


C05_LATE: dict = {}


class C05Billing:
    """a task module that keeps its errors next to what raises them: NESTED exception classes"""

    from pynenc.exceptions import PynencError as _PE, RetryError as _RE

    class QuotaExceeded(_PE):
        pass

    class TryLater(_RE):
        pass


def c05_make_exc(name: str, args: list) -> BaseException:
    import builtins

    from pynenc.exceptions import RetryError

    if name == "ProgError":
        return ProgError(*args)
    if name == "RetryError":
        return RetryError(*args)
    if name.startswith("Nested:"):
        return getattr(C05Billing, name[7:])(*args)
    if name.startswith("Late:"):
        # a PynencError subclass that comes into existence only now (a plugin / task module imported late), i.e. after other
        # failures have already been read back in this process
        from pynenc.exceptions import PynencError

        cls = C05_LATE.get(name) or C05_LATE.setdefault(name, type("C05Late" + "".join(ch for ch in name[5:] if ch.isalnum()), (PynencError,), {}))
        return cls(*args)
    return getattr(builtins, name)(*args)


def c05_raise(name: str, args: list) -> None:
    raise c05_make_exc(name, args)


def c15_sig3(big, idx, opt="d"):  # type: ignore[no-untyped-def]
    return f"{big}|{idx}|{opt}"


def c15_sig5(a, b, c="c0", d="d0", e="e0"):  # type: ignore[no-untyped-def]
    return f"{a}|{b}|{c}|{d}|{e}"


# ---- C03: a body that counts its completed executions per invocation ------------------------------
C03_DONE: dict = {}


def c03_body(mode: str) -> str:
    from pynenc import context
    from pynenc.exceptions import RetryError

    app = context.get_current_app()
    inv = context.get_dist_invocation_context(app.app_id)
    try:
        if mode == "fail":
            raise ProgError("boom")
        if mode == "retry" and inv.num_retries == 0:
            raise RetryError("again")
        return mode
    finally:
        C03_DONE[inv.invocation_id] = C03_DONE.get(inv.invocation_id, 0) + 1


# ---- C11: bodies for the stop scenarios --------------------------------------------------------
C11_RELEASE = __import__("threading").Event()


def c11_body(script: str) -> str:
    from pynenc import context
    from pynenc.exceptions import RetryError

    app = context.get_current_app()
    inv = context.get_dist_invocation_context(app.app_id)
    x = 1          # a few scheduler-visible lines inside the body
    x += 1
    if script == "fail":
        raise ProgError("boom")
    if script == "retry":
        raise RetryError("again")
    if script == "pause":
        from pynenc.workflow import WorkflowPauseError

        raise WorkflowPauseError("pause requested")      # logged by the run handler: the thread ends, the invocation stays RUNNING
    return script


def c11_slow(script: str = "ok", seconds: float = 0.0) -> str:
    import time

    from pynenc import context
    from pynenc.exceptions import RetryError

    app = context.get_current_app()
    inv = context.get_dist_invocation_context(app.app_id)
    time.sleep(seconds)
    if script == "fail":
        raise ProgError("boom")
    if script == "pause":
        from pynenc.workflow import WorkflowPauseError

        raise WorkflowPauseError("pause requested")   # the run handler logs it: the thread ends, the invocation stays RUNNING
    if script == "retry" and inv.num_retries == 0:
        raise RetryError("again")
    return script


def c11_parent() -> str:
    """waits for a sub-task; with one slot and the runner stopping, nobody runs the child"""
    from pynenc import context
    from pynenc.identifiers.task_id import TaskId

    app = context.get_current_app()
    child = app.get_task(TaskId(__name__, "c11_slow"))
    return child("ok", 0.4).result

# ---- C18 probes -------------------------------------------------------------------------------
WF_LOG: list = []


def wf_probe(tag: str, n: int = 2) -> list:
    """Body issuing n deterministic random numbers through the task's own workflow helper."""
    from pynenc import context

    app = context.get_current_app()
    t = app.get_task(__import__("pynenc.identifiers.task_id", fromlist=["TaskId"]).TaskId(__name__, "wf_probe"))
    vals = [t.wf.random() for _ in range(n)]
    WF_LOG.append((tag, t.invocation.workflow.workflow_id, vals))
    return vals


# ---- C18 scripted workflow bodies (see harness/c18_probe.py) ----------------------------------
def wf_script(app_id: str, tag: str, script: list, fail_after: list | None = None) -> list:
    """Performs `script` ("r" random, "u" uuid, "t" utc_now, ["s", key, child_script] execute_task) through its
    own `wf` helper and returns what it was given; attempt i raises after fail_after[i] operations."""
    from harness import c18_probe

    return c18_probe.run_script("wf_script", app_id, tag, script, fail_after)


def wf_child(app_id: str, tag: str, script: list, note: str = "-") -> list:
    """Sub-task launched by `wf_script` through `wf.execute_task`; runs its own script when executed."""
    from harness import c18_probe

    return c18_probe.run_script("wf_child", app_id, tag, script, None)

# ---- C19: scripted task programs (sync mode vs distributed execution) --------------------------
# A program node is a JSON-able dict
#   {"id": int, "cls": int, "direct": bool, "script": [act, ...], "dflt": act, "calls": [call, ...]}
#   act  = ["ret", c] | ["early", kind, [args]] | ["late", kind, [args]]
#   call = {"t": "single", "p": node} | {"t": "group", "direct": bool, "ps": [node, ...]} | {"t": "forget", "p": node}
# Every invocation gets a unique activation key (argument `key`), so the number of earlier executions of
# *this invocation* is counted in-process (the thread runner shares the process) without consulting pynenc.
import threading as _c19_threading


class C19Err(Exception):
    pass


class C19SubErr(C19Err):
    pass


class C19Other(Exception):
    pass


class _C19LazyTypes(dict):
    """`C19Late` is an error class of the library's own hierarchy that comes into existence only when it is first raised (a task
    module imported after the application has been running for a while): it is created on first lookup"""

    def __missing__(self, key):  # type: ignore[no-untyped-def]
        if key != "C19Late":
            raise KeyError(key)
        return c19_late_cls()


_C19_LATE: list = []


def c19_late_cls():  # type: ignore[no-untyped-def]
    if not _C19_LATE:
        from pynenc.exceptions import RetryError

        _C19_LATE.append(type("C19Late", (RetryError,), {"__module__": __name__}))
        globals()["C19Late"] = _C19_LATE[0]
    return _C19_LATE[0]


def c19_exc_types() -> dict:
    from pynenc.exceptions import ConcurrencyRetryError, RetryError

    return _C19LazyTypes({
        "C19Err": C19Err, "C19SubErr": C19SubErr, "C19Other": C19Other, "ValueError": ValueError,
        "KeyError": KeyError, "LookupError": LookupError, "RetryError": RetryError,
        "ConcurrencyRetryError": ConcurrencyRetryError, "Exception": Exception,
    })


C19_RUNS: dict = {}  # token -> state of one program run (see c19_new_run)
C19_CLASSES = 4


def c19_new_run(token: str, plain: list, direct: list, dgroup: list) -> dict:
    st = {"plain": plain, "direct": direct, "dgroup": dgroup, "attempts": {}, "log": [], "ends": [], "invs": [],
          "root": None, "lock": _c19_threading.Lock()}
    C19_RUNS[token] = st
    return st


def c19_call_root(token: str, node: dict, key: str = "r"):  # type: ignore[no-untyped-def]
    """Invoke a program from outside any invocation; returns the value (raises what the root raises)."""
    st = C19_RUNS[token]
    if node["direct"]:
        return st["direct"][node["cls"]](node, token, key)
    inv = st["plain"][node["cls"]](node, token, key)
    st["root"] = inv
    v = inv.result
    for _ in range(node.get("root_reads", 1) - 1):   # reading a result again neither runs anything nor changes it
        if inv.result != v:
            raise AssertionError("a second read of the root's result gave a different value")
    return v


def _c19_body(spec: dict, token: str, key: str) -> int:
    st = C19_RUNS[token]
    with st["lock"]:
        k = st["attempts"].get(key, 0)
        st["attempts"][key] = k + 1
    try:
        seen = st["plain"][0].invocation.num_retries  # any task of the app resolves the current invocation
    except Exception as ex:  # reported by the harness as a disagreement
        seen = f"error:{type(ex).__name__}"
    with st["lock"]:
        st["log"].append((spec["id"], key, k, seen))
    try:
        v = _c19_run_body(st, spec, token, key, k)
    except BaseException as ex:
        with st["lock"]:
            st["ends"].append((key, k, "err", type(ex).__name__))
        raise
    with st["lock"]:
        st["ends"].append((key, k, "val", 0 if v is None else v))
    return v


def _c19_run_body(st: dict, spec: dict, token: str, key: str, k: int) -> int:
    script = spec["script"]
    act = script[k] if k < len(script) else spec["dflt"]
    if act[0] == "early":
        raise c19_exc_types()[act[1]](*act[2])
    total = 0
    for j, call in enumerate(spec["calls"]):
        ckey = f"{key}.{k}.{j}"
        if call["t"] == "single":
            child = call["p"]
            if child["direct"]:
                total += st["direct"][child["cls"]](child, token, ckey) or 0
            else:
                inv = st["plain"][child["cls"]](child, token, ckey)
                with st["lock"]:
                    st["invs"].append(inv)
                r = inv.result
                for _ in range(call.get("reads", 1) - 1):      # a result that has been read is read again
                    if inv.result != r:
                        raise AssertionError("a second read of a result gave a different value")
                total += r or 0                                 # a "none" leaf returns None where the model says 0
        elif call["t"] == "forget":
            child = call["p"]
            inv = st["plain"][child["cls"]](child, token, ckey)
            with st["lock"]:
                st["invs"].append(inv)
        else:
            members = call["ps"]
            if not members:
                continue
            cls = members[0]["cls"]
            if call["direct"]:
                total += st["dgroup"][cls]({"members": members}, token, ckey)
            else:
                # the same group in one of the three spellings `parallelize` accepts (tuples; keyword dicts; keyword dicts over
                # `common_args`, where the earlier members override the common key and the last one relies on it)
                n_m = len(members)
                how = (int(members[0]["id"]) + n_m) % 3      # varies with the program, the same on every stack
                if how == 0:
                    grp = st["plain"][cls].parallelize([(m, token, f"{ckey}.{i}") for i, m in enumerate(members)])
                elif how == 1:
                    grp = st["plain"][cls].parallelize([{"key": f"{ckey}.{i}", "spec": m, "token": token} for i, m in enumerate(members)])
                else:
                    grp = st["plain"][cls].parallelize([({"spec": m, "key": f"{ckey}.{i}"} if i < n_m - 1 else {"spec": m}) for i, m in enumerate(members)],
                                                       common_args={"token": token, "key": f"{ckey}.{n_m - 1}"})
                with st["lock"]:
                    st["invs"].extend(grp.invocations)
                vals = list(grp.results)
                for _ in range(call.get("reads", 1) - 1):
                    if sorted(list(grp.results), key=repr) != sorted(vals, key=repr):     # (completion order: any order)
                        raise AssertionError("a second pass over a group's results gave different values")
                total += sum(x or 0 for x in vals)
    if act[0] == "late":
        raise c19_exc_types()[act[1]](*act[2])
    if spec.get("none"):
        return None  # type: ignore[return-value]  # a leaf whose constants are all 0: returns None, read as 0 by its caller
    return act[1] + total


def c19_fanout(args: dict) -> list:
    """parallel_func of the direct-group flavour: one invocation per member."""
    return [(m, args["token"], f"{args['key']}.{i}") for i, m in enumerate(args["spec"]["members"])]


def c19_sum(results) -> int:  # type: ignore[no-untyped-def]
    return sum(r or 0 for r in results)


def _c19_make(name: str):  # type: ignore[no-untyped-def]
    def f(spec: dict, token: str, key: str) -> int:
        return _c19_body(spec, token, key)

    f.__name__ = f.__qualname__ = name
    return f


for _i in range(C19_CLASSES):
    for _fl in ("p", "d", "g"):
        globals()[f"c19_{_fl}{_i}"] = _c19_make(f"c19_{_fl}{_i}")
del _i, _fl


def c05_mutate(rows: list) -> list:
    """sorts its (possibly externalised) argument IN PLACE and returns the same object"""
    rows.sort()
    rows.append(len(rows))
    return rows


C05_GROWING: list = []


def c05_growing(n: int) -> list:
    """returns the same module-level list, grown, on every call"""
    C05_GROWING.extend(range(len(C05_GROWING), len(C05_GROWING) + n))
    return C05_GROWING


# ---- C16: a second keyed task (a task id maps to one Task per app) ------------------------------
def c16_b(k: str, v: str = "d", w: str = "e") -> str:
    return f"{k}/{v}/{w}"
