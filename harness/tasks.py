"""Plain module-level functions the harness turns into pynenc tasks (``app.task(func, **options)``)."""


def add(x: int, y: int = 0) -> int:
    return x + y


def ident(x):  # type: ignore[no-untyped-def]
    return x


def keyed(k: str, v: str = "d", w: str = "e") -> str:
    return f"{k}|{v}|{w}"


def noop() -> None:
    return None
