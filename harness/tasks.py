"""Plain module-level functions the harness turns into pynenc tasks (``app.task(func, **options)``)."""


def add(x: int, y: int = 0) -> int:
    return x + y


def ident(x):  # type: ignore[no-untyped-def]
    return x


def keyed(k: str, v: str = "d", w: str = "e") -> str:
    return f"{k}|{v}|{w}"


def noop() -> None:
    return None


# ---- C18 probes -------------------------------------------------------------------------------
WF_LOG: list = []


def wf_probe(tag: str, n: int = 2) -> list:
    """Body issuing n deterministic random numbers through the task's own workflow helper."""
    from pynenc import context

    app = context.get_current_app()
    t = app.get_task(__import__("pynenc.identifiers.task_id", fromlist=["TaskId"]).TaskId(__name__, "wf_probe"))
    vals = [t.wf.random() for _ in range(n)]
    WF_LOG.append((tag, t.invocation.workflow.workflow_id, vals))
    return vals


# ---- C02: a body that records entry/exit and offers yield points --------------------------------
def c02_body(x: int) -> int:
    from harness.props import c02 as _c02
    from pynenc import context

    app = context.get_current_app()
    inv = context.get_dist_invocation_context(app.app_id)
    import threading

    _c02.BODY_LOG.append(("enter", inv.invocation_id, threading.get_ident()))
    # a few scheduler-visible steps inside the body (source lines for the in-memory scheduler,
    # SQL statements for the SQLite one)
    app.orchestrator.get_invocation_status(inv.invocation_id)
    y = x + 1
    app.orchestrator.get_invocation_status(inv.invocation_id)
    _c02.BODY_LOG.append(("exit", inv.invocation_id, threading.get_ident()))
    return y


# ---- C09 call trees ---------------------------------------------------------------------------
def tree(spec: list) -> int:
    """A node of a generated call tree.  `spec` is a JSON-able list of actions executed in order:
    ["single", child] launch one child and wait for its result; ["group", [c1, ...]] launch the
    children with `parallelize` and wait for all results; ["fanout", [c1, ...]] launch every child
    singly first, then wait for each result in turn.  Returns the number of nodes of its subtree."""
    from pynenc import context
    from pynenc.identifiers.task_id import TaskId

    app = context.get_current_app()
    t = app.get_task(TaskId(__name__, "tree"))
    total = 1
    for kind, arg in spec:
        if kind == "single":
            total += t(arg).result
        elif kind == "group":
            total += sum(t.parallelize([(c,) for c in arg]).results)
        elif kind == "fanout":
            invs = [t(c) for c in arg]
            total += sum(i.result for i in invs)
        else:
            raise ValueError(kind)
    return total


# ---- C06: a body that holds RUNNING until the harness opens its gate ---------------------------
CC_GATES: dict = {}
CC_FAIL: dict = {}


def cc_body(k: str, v: str = "d", w: str = "e") -> str:
    import threading

    from pynenc import context
    from pynenc.exceptions import RetryError

    app = context.get_current_app()
    inv = context.get_dist_invocation_context(app.app_id)
    gate = CC_GATES.setdefault(inv.invocation_id, threading.Event())
    gate.wait(30)
    gate.clear()
    if CC_FAIL.pop(inv.invocation_id, None) == "retry":
        raise RetryError("again")
    return f"{k}|{v}|{w}"


# ---- effect-program tracing (harness/translate/programs.py) ---------------------------------------
class ProgError(Exception):
    pass


def prog_body(mode: str) -> str:
    if mode == "fail":
        raise ProgError("boom", 7)
    return mode


def prog_retry(x: str) -> str:
    from pynenc.exceptions import RetryError

    raise RetryError("later")


# ---- C05: outcome path ----------------------------------------------------------------------------
def c05_echo(v):  # type: ignore[no-untyped-def]
    return v


def c05_make_exc(name: str, args: list) -> BaseException:
    import builtins

    from pynenc.exceptions import RetryError

    if name == "ProgError":
        return ProgError(*args)
    if name == "RetryError":
        return RetryError(*args)
    return getattr(builtins, name)(*args)


def c05_raise(name: str, args: list) -> None:
    raise c05_make_exc(name, args)


def c15_sig3(big, idx, opt="d"):  # type: ignore[no-untyped-def]
    return f"{big}|{idx}|{opt}"


def c15_sig5(a, b, c="c0", d="d0", e="e0"):  # type: ignore[no-untyped-def]
    return f"{a}|{b}|{c}|{d}|{e}"


# ---- C03: a body that counts its completed executions per invocation ------------------------------
C03_DONE: dict = {}


def c03_body(mode: str) -> str:
    from pynenc import context
    from pynenc.exceptions import RetryError

    app = context.get_current_app()
    inv = context.get_dist_invocation_context(app.app_id)
    try:
        if mode == "fail":
            raise ProgError("boom")
        if mode == "retry" and inv.num_retries == 0:
            raise RetryError("again")
        return mode
    finally:
        C03_DONE[inv.invocation_id] = C03_DONE.get(inv.invocation_id, 0) + 1


# ---- C11: bodies for the stop scenarios --------------------------------------------------------
C11_RELEASE = __import__("threading").Event()


def c11_body(script: str) -> str:
    from pynenc import context
    from pynenc.exceptions import RetryError

    app = context.get_current_app()
    inv = context.get_dist_invocation_context(app.app_id)
    x = 1          # a few scheduler-visible lines inside the body
    x += 1
    if script == "fail":
        raise ProgError("boom")
    if script == "retry":
        raise RetryError("again")
    return script


def c11_slow(script: str = "ok", seconds: float = 0.0) -> str:
    import time

    from pynenc import context
    from pynenc.exceptions import RetryError

    app = context.get_current_app()
    inv = context.get_dist_invocation_context(app.app_id)
    time.sleep(seconds)
    if script == "fail":
        raise ProgError("boom")
    if script == "retry" and inv.num_retries == 0:
        raise RetryError("again")
    return script


def c11_parent() -> str:
    """waits for a sub-task; with one slot and the runner stopping, nobody runs the child"""
    from pynenc import context
    from pynenc.identifiers.task_id import TaskId

    app = context.get_current_app()
    child = app.get_task(TaskId(__name__, "c11_slow"))
    return child("ok", 0.4).result

# ---- C18 probes -------------------------------------------------------------------------------
WF_LOG: list = []


def wf_probe(tag: str, n: int = 2) -> list:
    """Body issuing n deterministic random numbers through the task's own workflow helper."""
    from pynenc import context

    app = context.get_current_app()
    t = app.get_task(__import__("pynenc.identifiers.task_id", fromlist=["TaskId"]).TaskId(__name__, "wf_probe"))
    vals = [t.wf.random() for _ in range(n)]
    WF_LOG.append((tag, t.invocation.workflow.workflow_id, vals))
    return vals


# ---- C18 scripted workflow bodies (see harness/c18_probe.py) ----------------------------------
def wf_script(app_id: str, tag: str, script: list, fail_after: list | None = None) -> list:
    """Performs `script` ("r" random, "u" uuid, "t" utc_now, ["s", key, child_script] execute_task) through its
    own `wf` helper and returns what it was given; attempt i raises after fail_after[i] operations."""
    from harness import c18_probe

    return c18_probe.run_script("wf_script", app_id, tag, script, fail_after)


def wf_child(app_id: str, tag: str, script: list) -> list:
    """Sub-task launched by `wf_script` through `wf.execute_task`; runs its own script when executed."""
    from harness import c18_probe

    return c18_probe.run_script("wf_child", app_id, tag, script, None)
