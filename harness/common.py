"""Shared plumbing for every property check.

A check is a Python module ``harness.props.cXX`` exposing ``run(ctx)``.  ``ctx`` (``Ctx``) carries the tier,
the seed-derived PRNG, the evidence under construction and helpers to

* regenerate ``lean/PynencModel/Gen/*.lean`` from ``/repo`` (translators),
* build Lean targets under a file lock and parse failing declarations out of lake's output,
* audit axioms / forbidden tokens,
* talk to the compiled Lean driver (``pynmodel``) through the line protocol,
* report violations (replay file + ``VIOLATION`` line) and known findings,
* write the evidence file (validated against the schema's required keys).

Nothing here is specific to one property.
"""

from __future__ import annotations

import fcntl
import hashlib
import json
import os
import random
import re
import shutil
import subprocess
import sys
import tempfile
import time
from pathlib import Path
from typing import Any, Callable, Iterable

VERIF = Path(__file__).resolve().parent.parent
# runs against seeded / scratch trees work on their own copy of the Lean project (VERIF_LEAN_DIR): the generated files and the
# compiled driver of the real tree are never touched by them
LEAN = Path(os.environ.get("VERIF_LEAN_DIR") or VERIF / "lean")
GEN = LEAN / "PynencModel" / "Gen"
REPO = Path(os.environ.get("PYNENC_REPO", "/repo"))
# checks run against a seeded/scratch tree (tools/seed_eval.py, tools/mutant_run.sh) write their evidence and replays elsewhere
EVIDENCE = Path(os.environ.get("VERIF_EVIDENCE_DIR") or VERIF / "evidence")
REPLAYS = Path(os.environ.get("VERIF_REPLAY_DIR") or VERIF / "replays")
KNOWN = VERIF / "known_findings.json"
DRIVER = LEAN / ".lake" / "build" / "bin" / "pynmodel"
STD_AXIOMS = {"propext", "Classical.choice", "Quot.sound"}
FORBIDDEN = re.compile(
    r"\bsorry\b|\badmit\b|^\s*axiom\s|native_decide|bv_decide|implemented_by|\bunsafe\s|maxHeartbeats\s+0\b"
)


def quiet_pynenc() -> None:
    """Silence pynenc's loggers (they print every status change)."""
    import logging

    logging.disable(logging.CRITICAL)


# ------------------------------------------------------------------------------------------------
# Lean side
# ------------------------------------------------------------------------------------------------


class _Lock:
    def __init__(self, path: Path):
        self.path = path

    def __enter__(self):
        self.f = open(self.path, "w")
        fcntl.flock(self.f, fcntl.LOCK_EX)
        return self

    def __exit__(self, *a):
        fcntl.flock(self.f, fcntl.LOCK_UN)
        self.f.close()


def lake_lock() -> _Lock:
    return _Lock(LEAN / ".verif-lake.lock")


def write_if_changed(path: Path, content: str) -> bool:
    path.parent.mkdir(parents=True, exist_ok=True)
    if path.exists() and path.read_text() == content:
        return False
    tmp = path.with_suffix(path.suffix + ".tmp")
    tmp.write_text(content)
    os.replace(tmp, path)
    return True


def strip_lean_comments(src: str) -> str:
    """Remove `--` line comments and (nested) `/- -/` block comments, keep line structure."""
    out = []
    i, n, depth = 0, len(src), 0
    while i < n:
        if src.startswith("/-", i):
            depth += 1
            i += 2
            continue
        if depth and src.startswith("-/", i):
            depth -= 1
            i += 2
            continue
        if depth:
            if src[i] == "\n":
                out.append("\n")
            i += 1
            continue
        if src.startswith("--", i):
            while i < n and src[i] != "\n":
                i += 1
            continue
        if src[i] == '"':  # string literal
            j = i + 1
            while j < n and src[j] != '"':
                j += 2 if src[j] == "\\" else 1
            out.append('""')
            i = j + 1
            continue
        out.append(src[i])
        i += 1
    return "".join(out)


def forbidden_tokens() -> list[str]:
    hits = []
    for p in sorted(LEAN.rglob("*.lean")):
        if ".lake" in p.parts:
            continue
        body = strip_lean_comments(p.read_text())
        for ln, line in enumerate(body.splitlines(), 1):
            if FORBIDDEN.search(line):
                hits.append(f"{p.relative_to(LEAN)}:{ln}: {line.strip()[:120]}")
    return hits


def lake_build(targets: list[str], timeout: int = 3000) -> tuple[bool, str]:
    with lake_lock():
        p = subprocess.run(
            ["lake", "build", *targets],
            cwd=LEAN,
            capture_output=True,
            text=True,
            timeout=timeout,
        )
    return p.returncode == 0, p.stdout + p.stderr


def failing_decls(build_output: str) -> list[str]:
    """Names of files/positions lake reports errors for (used to name the broken obligation)."""
    errs = []
    for m in re.finditer(r"^error: (\S+?\.lean):(\d+):(\d+): (.*)$", build_output, re.M):
        errs.append(f"{m.group(1)}:{m.group(2)}: {m.group(4)[:160]}")
    return errs


def decl_at(path: Path, line: int) -> str | None:
    """Name of the theorem/def enclosing a 1-based line of a Lean file."""
    try:
        lines = path.read_text().splitlines()
    except OSError:
        return None
    for i in range(min(line, len(lines)) - 1, -1, -1):
        m = re.match(r"\s*(?:private\s+|protected\s+)?(theorem|lemma|def|example|instance|abbrev)\s+([^\s:(\[{]+)?", lines[i])
        if m:
            return m.group(2) or "example"
    return None


def broken_obligations(build_output: str) -> list[str]:
    out = []
    for m in re.finditer(r"^error: (\S+?\.lean):(\d+):(\d+): (.*)$", build_output, re.M):
        f = Path(m.group(1))
        if not f.is_absolute():
            f = LEAN / f
        d = decl_at(f, int(m.group(2)))
        out.append(f"{f.relative_to(LEAN) if str(f).startswith(str(LEAN)) else f}:{m.group(2)} {d or '?'}: {m.group(4)[:140]}")
    return out


def audit_axioms(prop: str) -> tuple[dict[str, list[str]], list[str]]:
    """Run the audit file of a property; returns ({theorem: axioms}, problems)."""
    f = LEAN / "PynencModel" / "Audit" / f"{prop}.lean"
    if not f.exists():
        return {}, [f"missing audit file {f}"]
    with lake_lock():
        p = subprocess.run(
            ["lake", "env", "lean", str(f.relative_to(LEAN))],
            cwd=LEAN,
            capture_output=True,
            text=True,
            timeout=1200,
        )
    txt = p.stdout + p.stderr
    res: dict[str, list[str]] = {}
    problems: list[str] = []
    if p.returncode != 0:
        problems.append("audit file does not check: " + txt[-600:])
    for m in re.finditer(
        r"'([^']+)' (?:depends on axioms: \[([^\]]*)\]|does not depend on any axioms)", txt, re.S
    ):
        axs = [a.strip() for a in (m.group(2) or "").replace("\n", " ").split(",") if a.strip()]
        res[m.group(1)] = axs
        bad = [a for a in axs if a not in STD_AXIOMS]
        if bad:
            problems.append(f"{m.group(1)} depends on non-standard axioms {bad}")
    wanted = re.findall(r"^#print axioms\s+(\S+)", f.read_text(), re.M)
    for w in wanted:
        if w not in res and not any(k.endswith(w) for k in res):
            problems.append(f"no axiom report for {w}")
    return res, problems


class LeanDriver:
    """Line-protocol client of the compiled Lean model (`pynmodel`)."""

    def __init__(self) -> None:
        if not DRIVER.exists():
            raise RuntimeError(f"{DRIVER} missing: run setup (lake build)")
        self.p = subprocess.Popen(
            [str(DRIVER)], stdin=subprocess.PIPE, stdout=subprocess.PIPE, text=True, bufsize=1
        )
        self.n = 0

    def ask(self, line: str) -> str:
        assert "\n" not in line
        self.p.stdin.write(line + "\n")
        self.p.stdin.flush()
        self.n += 1
        out = self.p.stdout.readline()
        if not out:
            raise RuntimeError(f"lean driver died on: {line!r}")
        return out.rstrip("\n")

    def ask_many(self, lines: list[str]) -> list[str]:
        """Batch: write all, then read all (uses a writer thread to avoid pipe deadlock)."""
        import threading

        def w():
            for ln in lines:
                self.p.stdin.write(ln + "\n")
            self.p.stdin.flush()

        t = threading.Thread(target=w)
        t.start()
        outs = []
        for ln in lines:
            o = self.p.stdout.readline()
            if not o:
                raise RuntimeError(f"lean driver died around: {ln!r}")
            outs.append(o.rstrip("\n"))
        t.join()
        self.n += len(lines)
        return outs

    def close(self) -> None:
        try:
            self.p.stdin.close()
            self.p.wait(timeout=10)
        except Exception:
            self.p.kill()


def tok(s: str | None) -> str:
    """Encode a (possibly None) string as one protocol token: hex of utf-8, `-` for None, `e` for empty."""
    if s is None:
        return "-"
    if s == "":
        return "e"
    return "x" + s.encode("utf-8").hex()


# ------------------------------------------------------------------------------------------------
# Known findings
# ------------------------------------------------------------------------------------------------


def load_known() -> list[dict]:
    if not KNOWN.exists():
        return []
    return json.loads(KNOWN.read_text()).get("findings", [])


# ------------------------------------------------------------------------------------------------
# Context
# ------------------------------------------------------------------------------------------------


class Ctx:
    def __init__(self, prop: str, tier: str, seed: int):
        self.prop = prop
        self.tier = tier
        self.seed = seed
        self.rng = random.Random(f"{prop}:{seed}")
        self.t0 = time.time()
        self.level = "proof"
        self.cov: dict[str, Any] = {
            "obligations": 0,
            "discharged": 0,
            "checker_cmd": "",
            "trusted_base": [],
            "samples": [],
            "evaluations": 0,
            "distinct_nontrivial": 0,
            "rule": "",
        }
        self.assumptions: list[str] = []
        self.violations: list[dict] = []  # concrete failing inputs on the implementation
        self.broken: list[str] = []  # proof obligations / correspondence cases that no longer check
        self.known_hit: list[tuple[dict, str]] = []
        self._known = [k for k in load_known() if k.get("property") == prop and k.get("status", "open") == "open"]
        self._tmp: str | None = None
        self.notes: dict[str, Any] = {}
        self._distinct: set = set()

    # -- scratch ------------------------------------------------------------------------------
    @property
    def tmp(self) -> str:
        if self._tmp is None:
            self._tmp = tempfile.mkdtemp(prefix=f"verif-{self.prop}-")
        return self._tmp

    def cleanup(self) -> None:
        if self._tmp:
            shutil.rmtree(self._tmp, ignore_errors=True)

    @property
    def quick(self) -> bool:
        return self.tier == "quick"

    # -- coverage -----------------------------------------------------------------------------
    def count(self, n: int = 1) -> None:
        self.cov["evaluations"] += n

    def distinct(self, key: Any) -> None:
        self._distinct.add(key if isinstance(key, (str, int, tuple)) else json.dumps(key, sort_keys=True, default=str))

    def sample(self, s: Any, cap: int = 8) -> None:
        if len(self.cov["samples"]) < cap:
            self.cov["samples"].append(s)

    def obligation(self, name: str, ok: bool, detail: str = "") -> None:
        self.cov["obligations"] += 1
        if ok:
            self.cov["discharged"] += 1
        else:
            self.broken.append(f"{name}: {detail}" if detail else name)

    # -- findings -----------------------------------------------------------------------------
    def report(self, signature: str, what: str, replay: dict) -> None:
        """A concrete failing input on the real code.  `signature` identifies the failing input /
        call site / history class; if `known_findings.json` lists it (open) it is a KNOWN-FINDING."""
        for k in self._known:
            if k["signature"] == signature:
                if not any(kk is k for kk, _ in self.known_hit):
                    self.known_hit.append((k, what))
                return
        if any(v["signature"] == signature for v in self.violations):
            return
        self.violations.append({"signature": signature, "what": what, "replay": replay})

    # -- finishing ----------------------------------------------------------------------------
    def finish(self) -> int:
        self.cov["distinct_nontrivial"] = max(self.cov.get("distinct_nontrivial", 0), len(self._distinct))
        wall = time.time() - self.t0
        ev = {
            "property_id": self.prop,
            "tier": self.tier,
            "seed": self.seed,
            "level": self.level,
            "coverage": self.cov,
            "assumptions": self.assumptions,
            "wall_s": round(wall, 2),
            "violations": len(self.violations) + (1 if self.broken and not self.violations else 0),
        }
        if self.cov.get("discharged", 0) != self.cov.get("obligations", 0) or self.cov.get("discharged", 0) == 0:
            # an obligation failed or nothing was checked (e.g. the Lean build broke on regenerated data): this run is no
            # proof-level record (discharged must equal obligations and be >= 1); report through the generic coverage keys
            self.cov["obligations_total"] = self.cov.pop("obligations")
            self.cov["obligations_discharged"] = self.cov.pop("discharged")
            self.cov["evaluations"] = max(self.cov.get("evaluations", 0), 1)
            self.cov["distinct_nontrivial"] = max(self.cov.get("distinct_nontrivial", 0), 2)
        if self.notes:
            ev["coverage"]["notes"] = self.notes
        ev["coverage"]["known_findings_reproduced"] = [k["signature"] for k, _ in self.known_hit]
        ev["coverage"]["broken_obligations"] = self.broken[:20]
        EVIDENCE.mkdir(parents=True, exist_ok=True)
        problems = validate_evidence(ev)
        (EVIDENCE / f"{self.prop}.json").write_text(json.dumps(ev, indent=1, default=str))
        for k, what in self.known_hit:
            print(f"KNOWN-FINDING: property={self.prop} {k['signature']}: {what}")
        # known findings that did NOT reproduce are only noted (a fixed defect is no alarm)
        rc = 0
        if self.violations:
            REPLAYS.mkdir(parents=True, exist_ok=True)
            for v in self.violations:
                h = hashlib.sha1(v["signature"].encode()).hexdigest()[:10]
                path = REPLAYS / f"{self.prop}-{h}.json"
                path.write_text(
                    json.dumps(
                        {"property": self.prop, "signature": v["signature"], "what": v["what"],
                         "broken_obligations": self.broken, "replay": v["replay"], "seed": self.seed,
                         "tier": self.tier}, indent=1, default=str))
                print(f"VIOLATION property={self.prop} replay={path}")
                print(f"  {v['what']}")
            rc = 1
        elif self.broken:
            REPLAYS.mkdir(parents=True, exist_ok=True)
            h = hashlib.sha1("\n".join(self.broken).encode()).hexdigest()[:10]
            path = REPLAYS / f"{self.prop}-broken-{h}.json"
            path.write_text(json.dumps({"property": self.prop, "broken_obligations": self.broken,
                                        "note": "a proof obligation or the model/implementation correspondence no longer checks; the failing-input search on the implementation found no concrete input",
                                        "seed": self.seed, "tier": self.tier}, indent=1))
            print(f"VIOLATION property={self.prop} replay={path} no-failing-input-found")
            for b in self.broken[:10]:
                print(f"  broken: {b}")
            rc = 1
        if problems:
            print("EVIDENCE-INVALID:", problems, file=sys.stderr)
            rc = rc or 2
        print(f"{self.prop} {self.tier}: obligations {self.cov.get('discharged', self.cov.get('obligations_discharged', 0))}/{self.cov.get('obligations', self.cov.get('obligations_total'))}, "
              f"evaluations {self.cov['evaluations']}, distinct {self.cov['distinct_nontrivial']}, "
              f"known {len(self.known_hit)}, violations {len(self.violations)}, {wall:.1f}s")
        self.cleanup()
        return rc


def replay_by_rerun(prop: str, run: Callable[["Ctx"], None], data: dict) -> int:
    """Executable replay for the scheduled / generated checks: every random choice derives from (seed, tier), so re-running
    the property's check with the recorded seed and tier regenerates the recorded case; reports whether the recorded
    signature (or broken obligation) shows up again on the current tree.  Writes no evidence and no replay file."""
    print("recorded:", data.get("what") or data.get("broken_obligations"))
    print("input   :", json.dumps(data.get("replay"), default=str)[:2000])
    ctx = Ctx(prop, data.get("tier", "quick"), int(data.get("seed", 0) or 0))
    try:
        run(ctx)
    finally:
        ctx.cleanup()
    sig = data.get("signature")
    if sig is not None:
        hit = [v for v in ctx.violations if v["signature"] == sig] + [w for k, w in ctx.known_hit if k["signature"] == sig]
        if hit:
            print("reproduced:", hit[0]["what"] if isinstance(hit[0], dict) else hit[0])
            return 1
        print(f"not reproduced on this tree (seed {ctx.seed}, tier {ctx.tier}): signature {sig} did not occur")
        return 0
    names = {b.split(":")[0] for b in data.get("broken_obligations", [])}
    again = [b for b in ctx.broken if b.split(":")[0] in names]
    for b in again[:10]:
        print("still broken:", b)
    if not again:
        print("not reproduced on this tree: every recorded obligation checks again")
    return 1 if again else 0


def validate_evidence(ev: dict) -> list[str]:
    """Validate against /root/.vp/EVIDENCE.schema.json with the tooling venv when present; else key check."""
    schema = Path("/root/.vp/EVIDENCE.schema.json")
    vt = shutil.which("python3-vt")
    if schema.exists() and vt:
        p = subprocess.run(
            [vt, "-c",
             "import json,sys,jsonschema\n"
             "ev=json.load(sys.stdin)\n"
             f"s=json.load(open('{schema}'))\n"
             "errs=[e.message[:200] for e in jsonschema.Draft202012Validator(s).iter_errors(ev)]\n"
             "print(json.dumps(errs))"],
            input=json.dumps(ev, default=str), capture_output=True, text=True)
        if p.returncode == 0:
            return json.loads(p.stdout or "[]")
    probs = []
    for k in ("property_id", "tier", "seed", "level", "coverage", "wall_s"):
        if k not in ev:
            probs.append(f"missing {k}")
    c = ev.get("coverage", {})
    if ev.get("level") == "proof":
        if not (c.get("obligations", 0) >= 1 and c.get("discharged", 0) >= 1 and c.get("checker_cmd", "").strip()):
            probs.append("proof-level keys missing")
    return probs


# ------------------------------------------------------------------------------------------------
# Standard Lean stage used by every property
# ------------------------------------------------------------------------------------------------


def lean_stage(ctx: Ctx, gen: Callable[[], dict[str, str]] | None, theorems: list[str]) -> bool:
    """Regenerate Gen files, build `Props.<prop>` + the driver, audit.  Each theorem in `theorems`
    is one obligation.  Returns True when everything checked."""
    changed = []
    if gen is not None:
        for name, content in gen().items():
            if write_if_changed(GEN / name, content):
                changed.append(name)
    ctx.notes["gen_changed"] = changed
    target = f"PynencModel.Props.{ctx.prop}"
    # companion files of the property (Props/C07Inv.lean, Props/C03Wakeup.lean …) are property theorems too
    extra = sorted(f"PynencModel.Props.{p.stem}" for p in (LEAN / "PynencModel" / "Props").glob(f"{ctx.prop}?*.lean"))
    ok, out = lake_build([target, *extra, "pynmodel"])
    ctx.cov["checker_cmd"] = (
        f"cd lean && lake build {target} pynmodel && lake env lean PynencModel/Audit/{ctx.prop}.lean "
        "(kernel check of every property theorem against Gen/* regenerated from /repo, then #print axioms)"
    )
    ctx.cov["trusted_base"] = [
        "Lean 4.33 kernel",
        "axioms ⊆ {propext, Classical.choice, Quot.sound} (audited per theorem every run)",
        "Python translators / correspondence harness under /verif/harness (unverified)",
        "CPython, sqlite3 and third-party libraries are modelled, not verified",
    ]
    if not ok:
        errs = broken_obligations(out)
        if not errs:
            errs = ["lake build failed: " + out[-400:]]
        for e in errs[:12]:
            ctx.obligation("lean-build", False, e)
        # theorems cannot be audited when the build is broken
        ctx.cov["obligations"] += len(theorems)
        return False
    bad = forbidden_tokens()
    ctx.obligation("no sorry/admit/axiom/native_decide in sources", not bad, "; ".join(bad[:5]))
    axioms, problems = audit_axioms(ctx.prop)
    for t in theorems:
        hit = [k for k in axioms if k == t or k.endswith("." + t)]
        prob = [p for p in problems if t in p]
        ctx.obligation(f"theorem {t}", bool(hit) and not prob, "; ".join(prob) or ("not reported by audit" if not hit else ""))
    for p in problems:
        if not any(t in p for t in theorems):
            ctx.obligation("audit", False, p)
    ctx.notes["axioms"] = {k: v for k, v in list(axioms.items())[:60]}
    return not ctx.broken


def thorough_rebuild(ctx: Ctx) -> None:
    """Thorough tier: independent re-check of the property module's .olean with leanchecker."""
    mods = [f"PynencModel.Props.{ctx.prop}"]
    with lake_lock():
        p = subprocess.run(["lake", "env", "leanchecker", *mods], cwd=LEAN, capture_output=True, text=True, timeout=3000)
    ctx.obligation("leanchecker replay of " + mods[0], p.returncode == 0, (p.stdout + p.stderr)[-300:])
