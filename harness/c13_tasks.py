"""Module-level task bodies and argument-provider callbacks for the C13 check (pynenc requires both to be
importable module-level functions)."""


def target(tag: str = "-", src: str = "-") -> str:
    """The triggered task: its call arguments say which occurrence launched it."""
    return f"{tag}|{src}"


def target2(tag: str = "-", src: str = "-") -> str:
    return f"{tag}|{src}"


def source(k: str = "a", fail: str = "") -> str:
    """A watched task: succeeds with its key or fails with the exception class named in `fail`."""
    if fail == "ValueError":
        raise ValueError(k)
    if fail == "KeyError":
        raise KeyError(k)
    return k


def args_from_event(ctx):  # type: ignore[no-untyped-def]
    return {"tag": str(ctx.payload.get("n", "?")), "src": "event:" + ctx.event_id}


def args_from_status(ctx):  # type: ignore[no-untyped-def]
    return {"tag": str(ctx.arguments.kwargs.get("k", "?")), "src": "status:" + str(ctx.invocation_id)}


def args_from_result(ctx):  # type: ignore[no-untyped-def]
    return {"tag": str(ctx.result), "src": "result:" + str(ctx.invocation_id)}


def args_from_exception(ctx):  # type: ignore[no-untyped-def]
    return {"tag": str(ctx.exception_type), "src": "exception:" + str(ctx.invocation_id)}
