"""C16 machinery: one abstract operation sequence -> the in-memory stack, the SQLite stack and the Lean driver.

* ``Stack``   : a real pynenc app (``mem`` | ``sqlite``) driven through public operations only; every answer is
                canonicalised to a short string (ids -> labels, sets sorted, exceptions -> a small enum).
* ``Model``   : the same operations as lines for the compiled Lean reference model (``c16.*`` of ``Driver/C16.lean``).
* ``Trial``   : runs one sequence on all three, diffing the answer of every operation and a full read-out of the
                observable state after every operation.
* ``shrink``  : greedy minimisation of a diverging sequence; ``signature`` names the class of the minimal sequence.
* generators  : exhaustive enumeration over a reduced alphabet, seeded random sequences ("tame": only operations on
                which no divergence is known, so that long sequences stay comparable; "wild": everything).

Nothing here reads the Lean model to judge the implementation: the oracle is mem-vs-sqlite, the model diff is the
correspondence obligation.
"""
from __future__ import annotations

import datetime as dt
import os
import sqlite3
import time
from typing import Any

from harness import tasks as T
from harness.apps import VirtualClock, make_app, rctx, ts_us
from harness.common import LeanDriver, tok

MAXL = 5
KEEP_US = 3600 * 1_000_000          # auto_final_invocation_purge_hours = 1
DEAD_US = 30 * 1_000_000            # runner_considered_dead_after_minutes = 0.5
PEND_US = 5 * 1_000_000             # max_pending_seconds = 5
START_US = 1_700_000_000_000_000
CLS = "VerifRunner"
TASKS = ("tA", "tB")
FINALS = ("success", "failed", "concurrency_controlled_final")
ALL_STATUSES = ("registered", "concurrency_controlled", "concurrency_controlled_final", "rerouted", "pending", "pending_recovery",
                "running", "running_recovery", "paused", "resumed", "killed", "success", "failed", "retry")
STATUS_SETS = {"-": (), "reg": ("registered",), "act": ("pending", "running"), "fin": FINALS}


def sopt(s: str | None) -> str:
    return "-" if s is None else ("e" if s == "" else "s" + s)


def show_list(xs) -> str:
    xs = list(xs)
    return "[]" if not xs else " ".join(xs)


def show_set(xs) -> str:
    return show_list(sorted(set(xs)))


def err_class(e: BaseException) -> str:
    n = type(e).__name__
    if isinstance(e, KeyError):
        return "err keyerror"
    if n == "InvocationStatusTransitionError":
        return "err transition"
    if n == "InvocationStatusOwnershipError":
        return "err ownership"
    if n == "InvocationNotFoundError":
        return "err notfound"
    if isinstance(e, sqlite3.OperationalError):
        return "err locked" if "locked" in str(e) else "err sqlite"
    return f"err {n}"


# --------------------------------------------------------------------------------------------------------------
# a blocked writer inside ONE thread can never be released: cut the 3 minutes of busy-waiting short
# --------------------------------------------------------------------------------------------------------------

class _FastFailConn(sqlite3.Connection):
    def execute(self, sql, *a):  # type: ignore[override]
        if isinstance(sql, str) and sql.startswith("PRAGMA busy_timeout"):
            return super().execute("PRAGMA busy_timeout=40")
        return super().execute(sql, *a)


class _Sqlite3Shim:
    """stands in for the `sqlite3` name inside pynenc.util.sqlite_utils: same module, short busy timeout"""

    def __getattr__(self, name):
        return getattr(sqlite3, name)

    @staticmethod
    def connect(path, timeout=30.0, check_same_thread=False, **kw):
        return sqlite3.connect(path, timeout=0.04, check_same_thread=check_same_thread, factory=_FastFailConn, **kw)


class _TimeShim:
    def __getattr__(self, name):
        return getattr(time, name)

    @staticmethod
    def sleep(s):
        time.sleep(min(s, 0.002))


def install_fast_lock_failure() -> None:
    from pynenc.util import sqlite_utils

    if not isinstance(sqlite_utils.sqlite3, _Sqlite3Shim):
        sqlite_utils.sqlite3 = _Sqlite3Shim()  # type: ignore[assignment]
        sqlite_utils.time = _TimeShim()  # type: ignore[assignment]


# --------------------------------------------------------------------------------------------------------------
# the real stacks
# --------------------------------------------------------------------------------------------------------------

class Stack:
    def __init__(self, kind: str, tmp: str, tag: str):
        from pynenc import context
        from pynenc.conf.config_task import ConcurrencyControlType as C

        self.kind = kind
        self.fam = "mem" if kind == "mem" else "sql"
        self.app = make_app(kind, tmp, app_id=f"c16{kind}{tag}", max_pending_seconds=PEND_US / 1e6,
                            runner_considered_dead_after_minutes=DEAD_US / 60e6, auto_final_invocation_purge_hours=KEEP_US / 3600e6)
        self.tasks = {"tA": self.app.task(T.keyed, running_concurrency=C.TASK), "tB": self.app.task(T.c16_b)}
        self.indexed = {"tA": True, "tB": False}
        self.ext = context.get_or_create_runner_context(self.app.app_id).runner_id
        self._ser: dict[str, str] = {}
        self.reset()

    # -- hard reset (not an operation under test): fresh component objects, empty tables -------------------
    def reset(self) -> None:
        app = self.app
        self._held, self.hold_ts = None, None
        if self.kind != "mem" and app._orchestrator is not None:
            path = app.orchestrator.sqlite_db_path
            from pynenc.util.sqlite_utils import sanitize_table_prefix

            prefix = sanitize_table_prefix(app.app_id) + "__"
            conn = sqlite3.connect(path)
            try:
                names = [r[0] for r in conn.execute("SELECT name FROM sqlite_master WHERE type='table'") if r[0].startswith(prefix)]
                for n in names:
                    conn.execute(f'DELETE FROM "{n}"')
                conn.commit()
            finally:
                conn.close()
        # fresh component objects (what `_reset_cached_components` + first access does, minus the module scan of
        # AppInfo.from_app: the app's registration record is written again from the one made at start-up)
        if app._state_backend is None:
            app.state_backend  # noqa: B018  (first creation, stores the app info)
            self.app_info = app.state_backend.get_app_info()
            app.orchestrator, app.broker, app.trigger, app.client_data_store  # noqa: B018
        else:
            app._orchestrator = type(app._orchestrator)(app)
            app._broker = type(app._broker)(app)
            app._trigger = type(app._trigger)(app)
            app._client_data_store = type(app._client_data_store)(app)
            app._state_backend = type(app._state_backend)(app)
            app._state_backend.store_app_info(self.app_info)
        self.lab: dict[str, str] = {}     # real invocation id -> label
        self.real: dict[str, str] = {}    # label -> real id
        self.inv: dict[str, Any] = {}     # label -> DistributedInvocation
        self.info: dict[str, tuple] = {}  # label -> (task, k, v)
        self.conds: dict[str, Any] = {}
        self.cds_keys: dict[str, str] = {}
        self._rc = None
        self.o, self.b, self.sb, self.tr, self.cds = app.orchestrator, app.broker, app.state_backend, app.trigger, app.client_data_store

    # -- helpers -------------------------------------------------------------------------------------------
    def rid(self, label: str) -> str:
        """label -> the id string handed to the implementation (unknown labels are ghosts)"""
        return self.real.get(label, "ghost-" + label)

    def L(self, real: str | None) -> str | None:
        if real is None:
            return None
        return self.lab.get(real, real)

    def ser(self, v: str) -> str:
        if v not in self._ser:
            self._ser[v] = self.app.client_data_store.serialize(v)
        return self._ser[v]

    def flush(self) -> None:
        self.sb.wait_for_all_async_operations()

    def statuses(self, name: str):
        from pynenc.invocation.status import InvocationStatus as S

        return [S(s) for s in STATUS_SETS[name]]

    def wfid(self, wf: str):
        from pynenc.identifiers.invocation_id import InvocationId
        from pynenc.workflow.workflow_identity import WorkflowIdentity

        return WorkflowIdentity(workflow_id=InvocationId("wf-" + wf), workflow_type=self.tasks["tA"].task_id, parent_workflow_id=None)

    def cond(self, c: str):
        from pynenc.trigger.arguments.argument_filters import StaticArgumentFilter
        from pynenc.trigger.conditions import CronCondition, EventCondition

        if c not in self.conds:
            self.conds[c] = CronCondition("* * * * *") if c == "c3" else EventCondition("ev" + c, StaticArgumentFilter({}))
        return self.conds[c]

    def now_dt(self, us: int) -> dt.datetime:
        return dt.datetime(1970, 1, 1, tzinfo=dt.UTC) + dt.timedelta(microseconds=us)

    # -- operations ----------------------------------------------------------------------------------------
    def do(self, op: list, now: int) -> str:
        try:
            out = self._do(op, now)
        except BaseException as e:  # noqa: BLE001
            out = err_class(e)
        try:
            self.flush()
        except BaseException as e:  # noqa: BLE001
            out += " flush:" + err_class(e)
        return out

    def _new(self, inv, task: str, k: str, v: str) -> None:
        label = f"i{len(self.real)}"
        self.lab[inv.invocation_id] = label
        self.real[label] = inv.invocation_id
        self.inv[label] = inv
        self.info[label] = (task, k, v)

    def _do(self, op: list, now: int) -> str:
        from pynenc import context
        from pynenc.invocation.status import InvocationStatus as S
        from pynenc.invocation.status import InvocationStatusRecord

        k = op[0]
        o, sb = self.o, self.sb
        if k == "call":
            _, task, a, v, parent = op
            prev = context.swap_dist_invocation_context(self.app.app_id, self.inv.get(parent) if parent else None)
            try:
                inv = self.tasks[task](a, v)
            finally:
                context.swap_dist_invocation_context(self.app.app_id, prev)
            self._new(inv, task, a, v)
            return "ok"
        if k == "batch":
            _, task, items = op
            group = self.tasks[task].parallelize([tuple(x) for x in items])
            for inv, (a, v) in zip(list(group.invocations), items):
                self._new(inv, task, a, v)
            return "ok"
        if k == "rereg":
            inv = self.inv.get(op[1])
            if inv is None:
                return "ok"
            o.register_new_invocations([inv])
            return "ok"
        if k == "set":
            _, i, st, r = op
            o.set_invocation_status(self.rid(i), S(st), rctx(r))
            rec = o.get_invocation_status_record(self.rid(i))
            return f"ok {rec.status.value} {sopt(rec.runner_id)} {ts_us(rec.timestamp)}"
        if k == "incr":
            o.increment_invocation_retries(self.rid(op[1]))
            return "ok"
        if k == "hb":
            o.register_runner_heartbeats(list(op[1]), can_run_atomic_service=bool(op[2]))
            return "ok"
        if k == "svc":
            o.record_atomic_service_execution(op[1], self.now_dt(now - 1_000_000), self.now_dt(now))
            return "ok"
        if k == "wait":
            w = op[1]
            o.waiting_for_results(None if w is None else ("" if w == "" else self.rid(w)), [self.rid(x) for x in op[2]])
            return "ok"
        if k == "release":
            o.release_waiters(self.rid(op[1]))
            return "ok"
        if k == "route":
            self.b.route_invocation(self.rid(op[1]))
            return "ok"
        if k == "retrieve":
            got = self.b.retrieve_invocation()
            return "-" if got is None else "s" + str(self.L(got))
        if k == "pset":
            o.set_up_invocation_auto_purge(self.rid(op[1]))
            return "ok"
        if k == "apurge":
            o.auto_purge()
            return "ok"
        if k == "result":
            sb.set_result(self.rid(op[1]), op[2])
            return "ok"
        if k == "exc":
            sb.set_exception(self.rid(op[1]), ValueError(op[2]))
            return "ok"
        if k == "hist":
            _, i, st, owner, r = op
            sb.add_history(self.rid(i), InvocationStatusRecord(S(st), owner), rctx(r))
            return "ok"
        if k == "histhold":
            # a history entry whose background writer is LATE: created (and stamped) now, stored at the next `histflush` -
            # after whatever is recorded in between (the writers are unsynchronised threads)
            _, i, st, owner, r = op
            if getattr(self, "_held", None) is not None:
                return "ok"                      # one at a time
            real = sb._add_histories
            held: list = []
            sb._add_histories = lambda ids, h: held.append((ids, h))  # type: ignore[method-assign]
            try:
                sb.add_history(self.rid(i), InvocationStatusRecord(S(st), owner), rctx(r))
                self.flush()
            finally:
                del sb._add_histories
            self._held = (real, held)
            self.hold_ts = now
            return "ok"
        if k == "histflush":
            if getattr(self, "_held", None) is not None:
                real, held = self._held
                self._held = None
                for ids, h in held:
                    real(ids, h)
            return "ok"
        if k == "wf":
            sb.set_workflow_data(self.wfid(op[1]), op[2], op[3])
            return "ok"
        if k == "x.wf":
            # workflow data of any JSON-like value - None and the falsy ones included (direct comparison of the two backends)
            sb.set_workflow_data(self.wfid(op[1]), "x" + op[2], op[3])
            return "ok"
        if k == "rctx":
            from pynenc.runner.runner_context import RunnerContext

            parent = RunnerContext(runner_cls="VerifParent", runner_id=op[2], pid=1, hostname="verif", thread_id=1) if op[2] else None
            sb.store_runner_context(RunnerContext(runner_cls=CLS, runner_id=op[1], parent_ctx=parent, pid=1, hostname="verif", thread_id=1))
            return "ok"
        if k == "purge":
            {"broker": self.b.purge, "orch": o.purge, "sb": sb.purge, "app": self.app.purge, "cds": self.cds.purge, "trg": self.tr.purge}[op[1]]()
            return "ok"
        if k == "q":
            return self.query(tuple(op[1]), now)
        # ---- trigger store (direct comparison only) ------------------------------------------------------
        if k == "t.cond":
            self.tr.register_condition(self.cond(op[1]))
            return "ok"
        if k == "t.trg":
            from pynenc.models.trigger_definition_dto import TriggerDefinitionDTO
            from pynenc.trigger.conditions import CompositeLogic

            # t3 belongs to ANOTHER task and shares condition c1 with the triggers of tA
            self.tr.register_trigger(TriggerDefinitionDTO(trigger_id=op[1], task_id=self.tasks["tB" if op[1] == "t3" else "tA"].task_id,
                                                          condition_ids=[self.cond(c).condition_id for c in op[2]],
                                                          logic=CompositeLogic.AND, argument_provider_json=None))
            return "ok"
        if k in ("t.valid", "t.valids", "t.clear"):
            from pynenc.trigger.conditions import EventContext, ValidCondition

            vcs = [ValidCondition(self.cond(c), EventContext(event_id=tag, event_code="ev" + c, payload={})) for c, tag in op[1]]
            if k == "t.valid":
                self.tr.record_valid_condition(vcs[0])
            elif k == "t.valids":
                self.tr.record_valid_conditions(vcs)
            else:
                self.tr.clear_valid_conditions(vcs)
            return "ok"
        if k == "t.claim":
            return str(bool(self.tr.claim_trigger_run(op[1], op[2])))
        if k == "t.cron":
            _, c, expected = op
            cid = self.cond(c).condition_id
            exp = None if expected is None else (self.tr.get_last_cron_execution(cid) if expected in ("cur", "cur-tz") else self.now_dt(START_US - 1))
            if expected in ("cur", "cur-tz") and exp is None:
                exp = self.now_dt(START_US - 2)
            if expected == "cur-tz" and exp is not None:
                # the SAME instant written in another UTC offset (a caller in another time zone): still the current value
                import datetime as _dt

                exp = exp.astimezone(_dt.timezone(_dt.timedelta(hours=2)))
            return str(bool(self.tr.store_last_cron_execution(cid, self.now_dt(now), exp)))
        if k == "t.clean":
            self.tr.clean_task_trigger_definitions(self.tasks[op[1] if len(op) > 1 else "tA"].task_id)
            return "ok"
        # ---- client data store (direct comparison only) --------------------------------------------------
        if k == "cds.put":
            val = op[1] * (2000 if op[2] else 1)
            key = self.cds.serialize(val)
            self.cds_keys[op[1] + ("L" if op[2] else "s")] = key
            return "ref" if self.cds.is_reference(key) else "inline"
        raise ValueError(f"unknown op {op}")

    # -- queries -------------------------------------------------------------------------------------------
    def query(self, q: tuple, now: int) -> str:
        try:
            return self._query(q, now)
        except BaseException as e:  # noqa: BLE001
            return err_class(e)

    def begin_readout(self) -> None:
        """answers of read-only calls may be shared inside ONE read-out (nothing changes in between)"""
        self._rc: dict = {}

    def _cached(self, key, fn):
        rc = getattr(self, "_rc", None)
        if rc is None:
            return fn()
        if key not in rc:
            rc[key] = fn()
        return rc[key]

    def end_readout(self) -> None:
        self._rc = None  # type: ignore[assignment]

    def _page(self, task, ss, limit, offset) -> str:
        o = self.o
        tid = self.tasks[task].task_id if task else None
        sts = self.statuses(ss) or None
        page = list(o.get_invocation_ids_paginated(task_id=tid, statuses=sts, limit=limit, offset=offset))
        allc = self._cached(("all", task, ss), lambda: list(o.get_invocation_ids_paginated(task_id=tid, statuses=sts, limit=100000, offset=0)))
        ts = {i: self._cached(("ts", i), lambda i=i: ts_us(o.get_invocation_status_record(i).timestamp)) for i in set(page) | set(allc)}
        classes: list[int] = []
        for i in page:
            if ts[i] not in classes:
                classes.append(ts[i])
        parts = []
        for t in classes:
            inp = [i for i in page if ts[i] == t]
            ina = [i for i in allc if ts[i] == t]
            parts.append(f"{t}:" + ",".join(sorted(str(self.L(i)) for i in inp)) if len(inp) == len(ina) else f"{t}:#{len(inp)}")
        return show_list(parts)

    def _query(self, q: tuple, now: int) -> str:
        from pynenc.call import Call
        from pynenc.identifiers.task_id import TaskId

        k = q[0]
        o, sb = self.o, self.sb
        labs = lambda ids: show_set(str(self.L(i)) for i in ids)  # noqa: E731
        if k == "status":
            r = o.get_invocation_status_record(self.rid(q[1]))
            return f"{r.status.value} {sopt(r.runner_id)} {ts_us(r.timestamp)}"
        if k == "retries":
            return str(o.get_invocation_retries(self.rid(q[1])))
        if k == "task":
            tid = self.tasks[q[1]].task_id if q[1] in self.tasks else TaskId("harness.tasks", "no_such_task")
            return labs(o.get_task_invocation_ids(tid))
        if k == "call":
            _, task, a, v = q
            call = Call(self.tasks[task], self.tasks[task].args(a, v))
            return labs(o.get_call_invocation_ids(call.call_id))
        if k == "existing":
            _, task, ss, key = q
            kd = {a: self.ser(b) for a, b in key}
            return labs(o.get_existing_invocations(self.tasks[task], key_serialized_arguments=kd, statuses=self.statuses(ss) or None))   # (an empty key is passed as {}: what ARGUMENTS control passes for a task without parameters)
        if k == "page":
            _, task, ss, limit, offset = q
            return self._page(task, ss, limit, offset)
        if k == "count":
            _, task, ss = q
            return str(o.count_invocations(task_id=self.tasks[task].task_id if task else None, statuses=self.statuses(ss) or None))
        if k == "fbs":
            _, ss, ids = q
            if ss == "final":
                return labs(o.filter_final([self.rid(i) for i in ids]))
            return labs(o.filter_by_status([self.rid(i) for i in ids], frozenset(self.statuses(ss))))
        if k == "active":
            rows = o.get_active_runners(q[1])
            created = [ts_us(r.creation_time) for r in rows]
            if created != sorted(created):
                return "err unsorted " + " ".join(r.runner_id for r in rows)
            out = []
            for r in rows:
                sv = "-" if r.last_service_start is None else f"{ts_us(r.last_service_start)}~{ts_us(r.last_service_end)}"
                out.append((ts_us(r.creation_time), r.runner_id, f"{ts_us(r.creation_time)}/{r.runner_id}/{1 if r.allow_to_run_atomic_service else 0}/{ts_us(r.last_heartbeat)}/{sv}"))
            return show_list(x[2] for x in sorted(out))
        if k == "blocking":
            lim = list(o.get_blocking_invocations(q[1]))
            allb = self._cached(("allb",), lambda: list(o.get_blocking_invocations(1_000_000)))
            if len(set(lim)) != len(lim) or not set(lim) <= set(allb):
                return "err not-a-sub-multiset"
            return f"{len(lim)} " + labs(allb)
        if k == "pscan":
            return labs(o.get_pending_invocations_for_recovery())
        if k == "rscan":
            return labs(o.get_running_invocations_for_recovery())
        if k == "queue":
            return str(self.b.count_invocations())
        if k == "inv":
            got = sb.get_invocation(self.rid(q[1]))
            return "yes" if got.invocation_id == self.rid(q[1]) else "err wrong-id"
        if k == "children":
            return labs(sb.get_child_invocations(self.rid(q[1])))
        if k == "result":
            return "s" + str(sb.get_result(self.rid(q[1])))
        if k == "exc":
            e = sb.get_exception(self.rid(q[1]))
            return "s" + str(e.args[0] if e.args else "")
        if k == "history":
            hs = sb.get_history(self.rid(q[1]))
            tss = [ts_us(h.timestamp) for h in hs]
            if tss != sorted(tss):
                return "err unsorted"
            return show_list(sorted(f"{ts_us(h.timestamp)}/{h.status_record.status.value}/{sopt(h.status_record.runner_id)}/{h.runner_context_id}" for h in hs))
        if k == "wf":
            return sopt(sb.get_workflow_data(self.wfid(q[1]), q[2], None))
        if k == "rctx":
            c = sb.get_runner_context(q[1])
            return "-" if c is None else f"{c.runner_cls} {sopt(c.parent_ctx.runner_id if c.parent_ctx else None)}"
        if k == "rctxs":
            return show_set(c.runner_id for c in sb.get_runner_contexts(list(q[1])))
        if k == "rmatch":
            return show_set(c.runner_id for c in sb.get_matching_runner_contexts(q[1]))
        if k == "x.wf":
            # read with a default that no stored value equals: "stored None" and "nothing stored" are different answers
            return repr(sb.get_workflow_data(self.wfid(q[1]), "x" + q[2], "<nothing stored>"))
        if k in ("x.hrange", "x.irange"):
            # the time-range scans (what the monitor's timeline reads) over the window that ends at the instant of the last late entry
            t = getattr(self, "hold_ts", None)
            if t is None:
                return "-"
            a, b = self.now_dt(t - 3), self.now_dt(t)
            if k == "x.hrange":
                return show_list(sorted(f"{self.L(h.invocation_id)}/{h.status_record.status.value}/{ts_us(h.timestamp)}" for batch in sb.iter_history_in_timerange(a, b) for h in batch))
            return show_set(str(self.L(i)) for batch in sb.iter_invocations_in_timerange(a, b) for i in batch)
        if k == "appinfo":
            try:
                return "yes" if sb.get_app_info().app_id == self.app.app_id else "err wrong-app"
            except (KeyError, ValueError):
                return "err missing"
        # ---- trigger store ---------------------------------------------------------------------------------
        if k == "t.cond":
            c = self.tr.get_condition(self.cond(q[1]).condition_id)
            return "-" if c is None else ("yes" if c.condition_id == self.cond(q[1]).condition_id else "err wrong-id")
        if k == "t.trgs":
            cid = {self.cond(c).condition_id: c for c in ("c1", "c2", "c3")}
            return show_list(sorted(f"{t.trigger_id}:" + ",".join(sorted(cid.get(x, "?") for x in t.condition_ids)) for t in self.tr.get_triggers_for_condition(self.cond(q[1]).condition_id)))
        if k == "t.trg":
            t = self.tr.get_trigger(q[1])
            return "-" if t is None else "yes"
        if k == "t.valid":
            cid = {self.cond(c).condition_id: c for c in ("c1", "c2", "c3")}
            out = []
            for key, vc in self.tr.get_valid_conditions().items():
                if key != vc.valid_condition_id:
                    return "err key-mismatch"
                out.append(f"{cid.get(vc.condition.condition_id, '?')}@{vc.context.context_id}")
            return show_list(sorted(out))
        if k == "t.cron":
            d = self.tr.get_last_cron_execution(self.cond(q[1]).condition_id)
            return "-" if d is None else str(ts_us(d))
        if k == "cds.get":
            key = self.cds_keys.get(q[1])
            if key is None:
                return "-"
            v = self.cds.resolve(key)
            return f"{v[:1]}x{len(v)}"
        raise ValueError(f"unknown query {q}")


# --------------------------------------------------------------------------------------------------------------
# the Lean reference model
# --------------------------------------------------------------------------------------------------------------

TRIGGER_OR_CDS = ("t.", "cds.", "x.")


def modelled(kind: str) -> bool:
    return not kind.startswith(TRIGGER_OR_CDS)


class Model:
    """translates abstract operations / queries to `c16.*` lines; keeps the label bookkeeping of a Stack"""

    def __init__(self, ext: str):
        self.ext = ext
        self.reset()

    def reset(self) -> None:
        self.n = 0
        self._held_line = None
        self.info: dict[str, tuple] = {}

    def mid(self, x: str | None) -> str | None:
        """label -> the id the model sees: a label that names no invocation (yet) is the same ghost string the stacks get"""
        if x is None or x == "" or x in self.info:
            return x
        return "ghost-" + x

    def item(self, label: str, task: str, a: str, v: str, parent: str | None) -> str:
        args = [("k", a), ("v", v), ("w", "e")]
        return f"{tok(label)} {tok(task)} {tok(f'{task}:{a}|{v}')} {tok(parent)} {len(args)} " + " ".join(f"{tok(x)} {tok(y)}" for x, y in args)

    def op_line(self, op: list, now: int) -> str | None:
        k = op[0]
        if not modelled(k):
            return None
        if k == "call":
            _, task, a, v, parent = op
            label = f"i{self.n}"
            self.n += 1
            self.info[label] = (task, a, v, parent if parent in self.info else None)
            return f"c16.reg {tok(self.ext)} {tok('ExternalRunner')} {1 if task == 'tA' else 0} {now} " + self.item(label, task, a, v, self.info[label][3])
        if k == "batch":
            _, task, items = op
            parts = []
            for a, v in items:
                label = f"i{self.n}"
                self.n += 1
                self.info[label] = (task, a, v, None)
                parts.append(self.item(label, task, a, v, None))
            return f"c16.reg {tok(self.ext)} {tok('ExternalRunner')} {1 if task == 'tA' else 0} {now} " + " ".join(parts)
        if k == "rereg":
            if op[1] not in self.info:
                return None  # nothing happens
            task, a, v, parent = self.info[op[1]]
            return f"c16.reg {tok(self.ext)} {tok('ExternalRunner')} 0 {now} " + self.item(op[1], task, a, v, parent)
        if k == "set":
            return f"c16.set {tok(self.mid(op[1]))} {op[2]} {tok(op[3])} {tok(CLS)} {now}"
        if k == "incr":
            return f"c16.incr {tok(self.mid(op[1]))}"
        if k == "hb":
            return f"c16.hb {1 if op[2] else 0} {now} " + " ".join(tok(r) for r in op[1])
        if k == "svc":
            return f"c16.svc {tok(op[1])} {now - 1_000_000} {now}"
        if k == "wait":
            return f"c16.wait {tok(self.mid(op[1]))} " + " ".join(tok(self.mid(x)) for x in op[2])
        if k == "release":
            return f"c16.release {tok(self.mid(op[1]))}"
        if k == "route":
            return f"c16.route {tok(self.mid(op[1]))}"
        if k == "retrieve":
            return "c16.retrieve"
        if k == "pset":
            return f"c16.pset {tok(self.mid(op[1]))} {now}"
        if k == "apurge":
            return f"c16.apurge {now} {KEEP_US}"
        if k == "result":
            return f"c16.result {tok(self.mid(op[1]))} {tok(op[2])}"
        if k == "exc":
            return f"c16.exc {tok(self.mid(op[1]))} {tok(op[2])}"
        if k == "hist":
            return f"c16.hist {tok(self.mid(op[1]))} {op[2]} {tok(op[3])} {tok(op[4])} {tok(CLS)} {now}"
        if k == "histhold":
            if getattr(self, "_held_line", None) is None:
                self._held_line = f"c16.hist {tok(self.mid(op[1]))} {op[2]} {tok(op[3])} {tok(op[4])} {tok(CLS)} {now}"
            return f"c16.rctx {tok(op[4])} {tok(CLS)} {tok(None)}"         # (the runner context is stored at once;) the model sees the entry when it is stored
        if k == "histflush":
            line, self._held_line = getattr(self, "_held_line", None), None
            return line
        if k == "wf":
            return f"c16.wf {tok(op[1])} {tok(op[2])} {tok(op[3])}"
        if k == "rctx":
            line = f"c16.rctx {tok(op[1])} {tok(CLS)} {tok(op[2])}"
            if op[2]:
                line += f" {tok(op[2])} {tok('VerifParent')} -"
            return line
        if k == "purge":
            return f"c16.purge {op[1]}" if op[1] in ("broker", "orch", "sb", "app") else None
        if k == "q":
            return None  # handled by query_line with the family
        raise ValueError(op)

    def query_line(self, q: tuple, now: int, fam: str) -> str | None:
        k = q[0]
        if not modelled(k) or k == "rctxs":
            return None
        sts = lambda name: ",".join(STATUS_SETS[name]) or "-"  # noqa: E731
        if k in ("status", "retries", "inv", "children", "result", "exc", "history"):
            return f"c16.q.{k} {tok(self.mid(q[1]))}"
        if k == "task":
            return f"c16.q.task {tok(q[1])}"
        if k == "call":
            return f"c16.q.call {tok(f'{q[1]}:{q[2]}|{q[3]}')}"
        if k == "existing":
            _, task, ss, key = q
            return f"c16.q.existing {fam} {tok(task)} {sts(ss)} " + " ".join(f"{tok(a)} {tok(b)}" for a, b in key)
        if k == "page":
            _, task, ss, limit, offset = q
            return f"c16.q.page {fam} {tok(task)} {sts(ss)} {limit} {offset}"
        if k == "count":
            return f"c16.q.count {tok(q[1])} {sts(q[2])}"
        if k == "fbs":
            ss = ",".join(FINALS) if q[1] == "final" else sts(q[1])
            return f"c16.q.fbs {ss} " + " ".join(tok(self.mid(i)) for i in q[2])
        if k == "active":
            return f"c16.q.active {now} {DEAD_US} {'-' if q[1] is None else (1 if q[1] else 0)}"
        if k == "blocking":
            return f"c16.q.blocking {fam} {q[1]}"
        if k == "pscan":
            return f"c16.q.pscan {now} {PEND_US}"
        if k == "rscan":
            return f"c16.q.rscan {fam} {now} {DEAD_US}"
        if k == "queue":
            return "c16.q.queue"
        if k == "wf":
            return f"c16.q.wf {tok(q[1])} {tok(q[2])}"
        if k == "rctx":
            return f"c16.q.rctx {tok(q[1])}"
        if k == "rmatch":
            return f"c16.q.rmatch {tok(q[1])}"
        if k == "appinfo":
            return "c16.q.appinfo"
        raise ValueError(q)


# --------------------------------------------------------------------------------------------------------------
# the read-out: every query over the small universe
# --------------------------------------------------------------------------------------------------------------

KEYS = [(), (("k", "a"),), (("k", "a"), ("v", "d")), (("v", "x"),), (("k", "b"), ("v", "x"))]
RUNNERS = ["rA", "rB", "rP", "rZ"]


def mentioned_ids(op: list) -> list[str]:
    """invocation labels an operation names"""
    k = op[0]
    out: list = []
    if k in ("set", "incr", "release", "route", "pset", "result", "exc", "hist", "rereg"):
        out.append(op[1])
    elif k == "wait":
        out += [op[1]] + list(op[2])
    elif k == "call":
        out.append(op[4])
    return [x for x in out if isinstance(x, str) and x]


def readout_queries(labels: list[str], known: list[str], ext: str, ghosts: list[str] = ()) -> list[tuple]:
    ids = labels + ["g0"] + [g for g in ghosts if g not in labels and g != "g0"][:3]
    qs: list[tuple] = []
    for i in ids:
        qs += [("status", i), ("retries", i), ("inv", i), ("children", i), ("result", i), ("exc", i), ("history", i)]
    qs += [("task", t) for t in ("tA", "tB", "tZ")]
    qs += [("call", "tA", "a", "d"), ("call", "tA", "b", "x"), ("call", "tB", "a", "d"), ("call", "tB", "a", "x"), ("call", "tA", "z", "z")]
    for key in KEYS:
        qs.append(("existing", "tA", "-", key))
    qs += [("existing", "tA", "reg", KEYS[2]), ("existing", "tA", "act", KEYS[1]), ("existing", "tB", "-", ()), ("existing", "tB", "reg", KEYS[1])]
    qs += [("existing", "tA", "reg", ()), ("existing", "tB", "act", ()), ("existing", "tA", "fin", ())]      # an EMPTY key dictionary with a status filter
    for lim, off in ((100, 0), (2, 0), (2, 1), (1, 2)):
        qs.append(("page", None, "-", lim, off))
    qs += [("page", None, "reg", 2, 0), ("page", None, "reg", 1, 1), ("page", None, "-", 0, 0), ("page", "tA", "-", 100, 0), ("page", "tA", "fin", 2, 0), ("page", "tB", "-", 1, 1)]
    qs += [("count", None, ss) for ss in ("-", "reg", "act", "fin")] + [("count", "tA", "-"), ("count", "tB", "reg")]
    for ss in ("reg", "act", "final"):
        qs.append(("fbs", ss, tuple(known)))
    qs += [("active", None), ("active", True), ("active", False)]
    qs += [("blocking", 100), ("blocking", 1), ("blocking", 0), ("blocking", -1)]
    qs += [("pscan",), ("rscan",), ("queue",)]
    qs += [("wf", "w1", "k1"), ("wf", "w1", "k2"), ("wf", "w2", "k1")]
    qs += [("rctx", r) for r in ("rA", "rB", "rP", ext)]
    qs += [("rctxs", tuple(RUNNERS + [ext]))]
    qs += [("rmatch", p) for p in ("rA", "r")]
    qs += [("x.hrange",), ("x.irange",)]
    qs += [("x.wf", "w1", "k1"), ("x.wf", "w1", "k2")]
    qs += [("t.cond", c) for c in ("c1", "c3")] + [("t.trgs", c) for c in ("c1", "c2")] + [("t.trg", "t1"), ("t.trg", "t3"), ("t.valid",), ("t.cron", "c1"), ("t.cron", "c3")]
    qs += [("cds.get", "pL"), ("cds.get", "ps")]
    return qs


# queries on which the two families are known to differ; they are explicit operations of the "wild" alphabet
WILD_QUERIES = [
    ("fbs", "reg", ("i0", "g0")), ("fbs", "final", ("g0",)),
    ("page", None, "-", -1, 0), ("page", None, "-", 2, -1),
    ("rmatch", "ra"), ("rmatch", "_"), ("appinfo",),
]


# --------------------------------------------------------------------------------------------------------------
# running one sequence three ways
# --------------------------------------------------------------------------------------------------------------

class Divergence:
    def __init__(self, step: int, op: list, where: str, mem: str, sql: str, model_mem: str | None, model_sql: str | None, kind: str,
                 known: list | None = None):
        self.step, self.op, self.where, self.mem, self.sql = step, op, where, mem, sql
        self.model_mem, self.model_sql, self.kind = model_mem, model_sql, kind  # kind: 'backends' | 'model'
        self.known = known  # labels the (in-memory) orchestrator knew right before the operation

    def as_dict(self) -> dict:
        return {"step": self.step, "op": self.op, "observation": self.where, "mem": self.mem, "sqlite": self.sql,
                "model_for_mem": self.model_mem, "model_for_sqlite": self.model_sql, "kind": self.kind, "known_before": self.known}


class Rig:
    """two real stacks + the Lean driver + the controlled clock, reused across sequences (hard reset in between)"""

    def __init__(self, tmp: str, tag: str = ""):
        install_fast_lock_failure()
        self.clock = VirtualClock(start_us=START_US).install()
        self.mem = Stack("mem", tmp, tag)
        self.sql = Stack("sqlite", tmp, tag)
        self.drv = LeanDriver()
        self.model = Model(self.mem.ext)
        self.stats = {"ops": 0, "queries": 0, "model_lines": 0}

    def close(self) -> None:
        self.clock.uninstall()
        self.drv.close()

    def reset(self) -> None:
        self.clock.us = START_US
        self.mem.reset()
        self.sql.reset()
        self.model.reset()
        self.drv.ask("c16.reset")
        self.events = {"purge": [], "dead": [], "pend": [], "claim": []}

    # clock control is part of the sequence (`adv`), computed from the events of THIS run
    def advance(self, op: list) -> None:
        _, kind, delta = op
        if kind == "us":
            self.clock.us += int(delta)
            return
        span = {"purge": KEEP_US, "dead": DEAD_US, "pend": PEND_US, "claim": 1_000_000}[kind]
        targets = [e + span for e in self.events[kind] if e + span + 1 > self.clock.us]
        if targets:
            t = min(targets) + int(delta)
            if t > self.clock.us:
                self.clock.us = t

    def note_event(self, op: list, out: str, now: int) -> None:
        k = op[0]
        if k == "set" and (out.startswith("ok") or out == "err notfound"):
            if op[2] in FINALS:
                self.events["purge"].append(now)
            if op[2] == "pending":
                self.events["pend"].append(now)
        elif k == "pset":
            self.events["purge"].append(now)
        elif k == "hb":
            self.events["dead"].append(now)
        elif k == "t.claim":
            self.events["claim"].append(now)

    def ask(self, lines: list[str]) -> list[str]:
        if not lines:
            return []
        if sum(len(x) + 1 for x in lines) > 30000:
            return self.drv.ask_many(lines)
        p = self.drv.p
        p.stdin.write("\n".join(lines) + "\n")
        p.stdin.flush()
        out = []
        for ln in lines:
            o = p.stdout.readline()
            if not o:
                raise RuntimeError(f"lean driver died around: {ln!r}")
            out.append(o.rstrip("\n"))
        self.drv.n += len(lines)
        return out

    def begin(self) -> None:
        self.reset()
        self._hold = False
        self._n = 0
        self._ment: set[str] = set()

    def step(self, op: list, do_read: bool) -> tuple[list[Divergence], dict]:
        """one operation on mem, sqlite and the model (+ read-out); returns (divergences, shadow) where shadow is what the
        in-memory stack answered: {'out': op answer, 'status': {label: status answer}, 'now': time of the op}"""
        n = self._n
        self._n += 1
        if op[0] == "adv":
            self.advance(op)
            return [], {}
        if op[0] == "hold":
            self._hold = True
            return [], {}
        if not self._hold:
            self.clock.us += 1
        self._hold = False
        now = self.clock.us
        self._ment |= set(mentioned_ids(op))
        known_before = [i for i in self.mem.real if not self.mem.query(("status", i), now).startswith("err")]
        m_out = self.mem.do(op, now)
        s_out = self.sql.do(op, now)
        self.stats["ops"] += 1
        self.note_event(op, m_out, now)
        lines: list[str] = []
        slots: list[tuple] = []  # (what, index of the model line for mem, for sql)
        if op[0] == "q":
            lm = self.model.query_line(tuple(op[1]), now, "mem")
            ls = self.model.query_line(tuple(op[1]), now, "sql")
            if lm is not None:
                lines += [lm, ls]
                slots.append(("op", 0, 1))
            else:
                slots.append(("op", None, None))
        else:
            lo = self.model.op_line(op, now)
            if lo is not None:
                lines.append(lo)
                slots.append(("op", 0, 0))
            else:
                slots.append(("op", None, None))
        labels = [f"i{j}" for j in range(len(self.mem.real))]
        shadow: dict[str, Any] = {"out": m_out, "now": now, "labels": labels, "status": {}}
        qs: list[tuple] = []
        q_mem: list[str] = []
        q_sql: list[str] = []
        if do_read:
            self.mem.begin_readout()
            self.sql.begin_readout()
            try:
                st = {i: self.mem.query(("status", i), now) for i in labels}
                shadow["status"] = st
                known = [i for i in labels if not st[i].startswith("err")]
                qs = readout_queries(labels, known, self.mem.ext, sorted(self._ment))
                for q in qs:
                    q_mem.append(self.mem.query(q, now))
                    q_sql.append(self.sql.query(q, now))
                    lm = self.model.query_line(q, now, "mem")
                    if lm is None:
                        slots.append((q, None, None))
                        continue
                    ls = self.model.query_line(q, now, "sql")
                    if ls == lm:
                        slots.append((q, len(lines), len(lines)))
                        lines.append(lm)
                    else:
                        slots.append((q, len(lines), len(lines) + 1))
                        lines += [lm, ls]
            finally:
                self.mem.end_readout()
                self.sql.end_readout()
            self.stats["queries"] += 2 * len(qs)
            self.stats["readouts"] = self.stats.get("readouts", 0) + 1
        answers = self.ask(lines)
        self.stats["model_lines"] += len(lines)
        divs: list[Divergence] = []
        obs = [("op", m_out, s_out)] + [(q, a, b) for q, a, b in zip(qs, q_mem, q_sql)]
        for (what, a, b), (_, im, isq) in zip(obs, slots):
            mm = answers[im] if im is not None else None
            ms = answers[isq] if isq is not None else None
            where = "op" if what == "op" else f"q:{what[0]} {list(what[1:])}"
            if a != b:
                divs.append(Divergence(n, op, where, a, b, mm, ms, "backends", known_before))
            elif mm is not None and (a != mm or b != ms):
                divs.append(Divergence(n, op, where, a, b, mm, ms, "model", known_before))
        return divs, shadow

    def run(self, seq: list[list], readout: str = "every", stop_at_first: bool = True, skip_readout_before: int = 0) -> tuple[list[Divergence], dict]:
        """readout: 'every' | 'last' | 'none'.  Returns (divergences, info)."""
        self.begin()
        divs: list[Divergence] = []
        info: dict[str, Any] = {"steps": 0}
        last = len(seq) - 1
        for n, op in enumerate(seq):
            do_read = (readout == "every" and (n >= skip_readout_before or n == last)) or (readout == "last" and n == last)
            d, _ = self.step(op, do_read)
            info["steps"] = n + 1
            divs += d
            if divs and stop_at_first:
                break
        return divs, info


# --------------------------------------------------------------------------------------------------------------
# shrinking and signatures
# --------------------------------------------------------------------------------------------------------------

def arg_class(op: list, n_labels_before: int, known: list | None = None) -> str:
    """abstract the arguments of an operation: ids become known/ghost, values disappear.  `known` = the labels the
    orchestrator knew right before the operation (when recorded): an id that was purged is as unknown as one never made"""
    def idc(i):
        if i is None:
            return "none"
        if i == "":
            return "empty"
        if known is not None:
            return "id" if i in known else "ghost"
        if isinstance(i, str) and i.startswith("i") and i[1:].isdigit():
            return "id" if int(i[1:]) < n_labels_before else "ghost"
        return "ghost"
    k = op[0]
    if k in ("incr", "release", "route", "pset", "rereg"):
        return idc(op[1])
    if k in ("result", "exc", "hist", "histhold"):
        return idc(op[1])
    if k == "set":
        return f"{idc(op[1])},{'final' if op[2] in FINALS else op[2]}"
    if k == "wait":
        w = idc(op[1])
        return f"{w if w in ('none', 'empty') else ''}>" + "+".join(sorted({idc(x) for x in op[2]}))
    if k == "purge":
        return op[1]
    if k == "svc":
        return "runner"
    if k == "q":
        q = op[1]
        extra = ""
        if q[0] == "fbs":
            extra = "ghost" if any(idc(x) != "id" for x in q[2]) else ""
        elif q[0] == "page":
            extra = ("neg-limit" if q[3] < 0 else "") + ("neg-offset" if q[4] < 0 else "")
        elif q[0] == "rmatch":
            extra = "wildcard" if q[1] == "_" else ("case" if q[1] != q[1].upper() and q[1] != "r" else "")
        return f"{q[0]}{':' + extra if extra else ''}"
    if k == "adv":
        return op[1]
    return ""


def out_class(s: str | None) -> str:
    if s is None:
        return "n/a"
    return s if s.startswith("err") else "val"


def count_labels_before(seq: list[list], n: int) -> int:
    c = 0
    for op in seq[:n]:
        if op[0] == "call":
            c += 1
        elif op[0] == "batch":
            c += len(op[2])
    return c


FILLER = {"call", "batch", "adv"}


def signature(seq: list[list], d: Divergence) -> str:
    """stable name of the class of a MINIMAL diverging sequence: its last operation (ids abstracted to known/ghost,
    values dropped), the SET of other operation kinds it needs (registrations and clock moves are filler), the
    observation that differs and the error classes of the two answers"""
    # ONE root cause, many shapes: a raw `release_waiters` of an invocation that is not final (the lifecycle never does
    # that) leaves the two wait graphs different - memory forgets the invocation's own outgoing waits, SQLite keeps them
    # (Props/C09.mem_sql_diverge_without_premise).  Whatever operation later makes the difference visible in the blocking
    # query, it is that listed finding.
    if d.kind == "backends" and d.where.startswith("q:blocking") and out_class(d.mem) == "val" and out_class(d.sql) == "val":
        for j, op in enumerate(seq):
            if op[0] == "release" and not any(o[0] == "set" and o[1] == op[1] and o[2] in FINALS for o in seq[:j]):
                return "backends-differ:wait(>id) after {release,wait}=>q:blocking[mem=val|sqlite=val]"
    last = "-"
    if seq:
        a = arg_class(seq[-1], count_labels_before(seq, len(seq) - 1), d.known)
        last = seq[-1][0] + (f"({a})" if a else "")
    # a query as last operation: the earlier operations only build the state it is asked in
    ctxset = [] if (seq and seq[-1][0] == "q") else sorted({op[0] for op in seq[:-1]} - FILLER)
    where = d.where.split(" ")[0]
    pre = "backends-differ" if d.kind == "backends" else "model-differs"
    return f"{pre}:{last}{' after {' + ','.join(ctxset) + '}' if ctxset else ''}=>{where}[mem={out_class(d.mem)}|sqlite={out_class(d.sql)}]"


def same_class(d0: Divergence, d1: Divergence) -> bool:
    return d0.kind == d1.kind and d0.where.split(" ")[0] == d1.where.split(" ")[0] and out_class(d0.mem) == out_class(d1.mem) and out_class(d0.sql) == out_class(d1.sql)


def last_class(seq: list[list], d: Divergence) -> str:
    return seq[-1][0] + "(" + arg_class(seq[-1], count_labels_before(seq, len(seq) - 1), d.known) + ")" if seq else "-"


def first_div(rig: Rig, seq: list[list], d0: Divergence | None, keep_last: str | None = None) -> Divergence | None:
    """the divergence of `seq` that is of the same class as d0 (None when there is none).  `keep_last`: the candidate must
    still end with the same operation on the same kind of ids — otherwise shrinking can slide from a new defect into a
    known one that shows at the same observation (an increment of a KNOWN id must not become one of an unknown id)"""
    divs, _ = rig.run(seq, readout="last")
    for d in divs:
        if (d0 is None or same_class(d0, d)) and (keep_last is None or (d.step == len(seq) - 1 and last_class(seq, d) == keep_last)):
            return d
    return None


def shrink(rig: Rig, seq: list[list], d0: Divergence, budget: int = 120) -> tuple[list[list], Divergence, int]:
    """greedy: cut after the diverging step, then delete chunks (halving) and single operations BEFORE the last one while a
    divergence of the same class (same observation kind, same answer classes) remains and the last operation keeps its
    argument class; then lower labels and simplify arguments"""
    import json as _json

    cur = [list(o) for o in seq[: d0.step + 1]]
    keep = last_class(cur, d0)
    best = first_div(rig, cur, d0, keep)
    trials = 1
    if best is None:
        return cur, d0, trials

    def attempt(cand: list[list]) -> bool:
        nonlocal cur, best, trials
        if not cand or trials >= budget:
            return False
        d = first_div(rig, cand, d0, keep)
        trials += 1
        if d is not None:
            cur, best = cand, d
            return True
        return False

    chunk = max(1, (len(cur) - 1) // 2)
    while chunk >= 1 and trials < budget:
        i = 0
        progress = False
        while i < len(cur) - 1 and trials < budget:
            hi = min(i + chunk, len(cur) - 1)   # the last operation stays
            if attempt(cur[:i] + cur[hi:]):
                progress = True
            else:
                i += chunk
        if chunk == 1 and not progress:
            break
        chunk = chunk // 2 if chunk > 1 else 1
    # label lowering: i<k> -> i<k-1> everywhere (lets an unused registration go away afterwards)
    changed = True
    while changed and trials < budget:
        changed = False
        for hi in range(MAXL + 1, 0, -1):
            txt = _json.dumps(cur)
            if f'"i{hi}"' not in txt:
                continue
            if attempt(_json.loads(txt.replace(f'"i{hi}"', f'"i{hi - 1}"'))):
                changed = True
                i = 0
                while i < len(cur) - 1 and trials < budget:
                    if not attempt(cur[:i] + cur[i + 1:]):
                        i += 1
                break
    # argument simplification: lists -> singletons, no parent
    for n in range(len(cur)):
        if trials >= budget:
            break
        op = cur[n]
        cands = []
        if op[0] == "batch" and len(op[2]) > 1:
            cands.append(["batch", op[1], op[2][:1]])
        if op[0] == "batch" and len(op[2]) == 1:
            cands.append(["call", op[1], op[2][0][0], op[2][0][1], None])
        if op[0] == "wait" and len(op[2]) > 1:
            cands += [["wait", op[1], [x]] for x in op[2]]
        if op[0] == "hb" and len(op[1]) > 1:
            cands.append(["hb", op[1][:1], op[2]])
        if op[0] == "call" and op[4] is not None:
            cands.append(["call", op[1], op[2], op[3], None])
        for c in cands:
            if attempt(cur[:n] + [c] + cur[n + 1:]):
                break
    return cur, best, trials


# --------------------------------------------------------------------------------------------------------------
# generators
# --------------------------------------------------------------------------------------------------------------

NEXT = {  # plausible lifecycle successors (the generator also asks for arbitrary ones)
    "registered": ["pending", "pending", "concurrency_controlled", "concurrency_controlled_final"],
    "concurrency_controlled": ["rerouted"], "rerouted": ["pending", "concurrency_controlled"],
    "pending": ["running", "running", "rerouted", "pending_recovery", "killed"], "pending_recovery": ["rerouted"],
    "running": ["success", "failed", "retry", "paused", "running_recovery", "killed", "success"], "running_recovery": ["rerouted"],
    "paused": ["resumed", "killed"], "resumed": ["success", "failed", "retry", "paused"], "killed": ["rerouted"], "retry": ["pending"],
}


class Gen:
    """online generator: the next operation is drawn knowing what the in-memory stack answered so far (labels, statuses)"""

    def __init__(self, rng, wild: bool):
        self.rng, self.wild = rng, wild
        self.labels: list[str] = []
        self.status: dict[str, str] = {}     # label -> 'status owner ts' answer (or 'err …')
        self.marks: dict[str, int] = {}      # label -> time of the auto-purge mark
        self.no_sb: set[str] = set()         # labels whose state-backend record was purged
        self.hb: set[str] = set()
        self.trg: set[str] = set()
        self.cond: set[str] = set()
        self.now = START_US
        self.pending_hold = False

    def observe(self, op: list, shadow: dict) -> None:
        if not shadow:
            return
        self.now = shadow["now"]
        self.labels = shadow["labels"]
        if shadow.get("status"):
            self.status = shadow["status"]
        k, out = op[0], shadow["out"]
        if k == "set" and (out.startswith("ok") or out == "err notfound") and op[2] in FINALS:
            # "err notfound": the status changed, only the trigger report afterwards failed (state-backend record purged)
            self.marks[op[1]] = self.now
        elif k == "pset":
            self.marks.setdefault(op[1], self.now)
        elif k == "apurge" and out == "ok":
            for i in self.due(self.now):
                self.marks.pop(i, None)
        elif k == "hb":
            self.hb |= set(op[1])
        elif k == "purge":
            if op[1] in ("orch", "app"):
                self.marks.clear()
                self.hb.clear()
            if op[1] in ("sb", "app"):
                self.no_sb = set(self.labels)
            if op[1] in ("trg", "app"):
                self.trg.clear()
                self.cond.clear()
        elif k == "t.trg":
            self.trg.add(op[1])
        elif k == "t.cond":
            self.cond.add(op[1])
        elif k == "t.clean":
            gone = {"t3"} if (len(op) > 1 and op[1] == "tB") else {"t1", "t2"}
            self.trg -= gone

    def known(self) -> list[str]:
        return [i for i in self.labels if not self.status.get(i, "err").startswith("err")]

    def st(self, i: str) -> str:
        return self.status.get(i, "err").split(" ")[0]

    def owner(self, i: str) -> str | None:
        parts = self.status.get(i, "err").split(" ")
        return parts[1][1:] if len(parts) > 1 and parts[1].startswith("s") else None

    def due(self, at: int) -> list[str]:
        return [i for i, t in self.marks.items() if t <= at - KEEP_US]

    def next(self) -> list:
        for _ in range(50):
            op = self._draw()
            if op is not None:
                return op
        return ["retrieve"]

    def _draw(self) -> list | None:
        r, rnd = self.rng, self.rng.random()
        known = self.known()
        some = lambda: r.choice(known) if known else None  # noqa: E731
        wild = self.wild
        if self.pending_hold:
            self.pending_hold = False
            if len(self.labels) < MAXL:
                return ["call", r.choice(TASKS), r.choice("ab"), r.choice("dx"), None]
            return ["hb", [r.choice(RUNNERS[:2])], r.random() < 0.5]
        if wild and rnd < 0.10:
            return self._wild_op(known)
        x = r.random()
        if x < 0.14 or not self.labels:
            if len(self.labels) >= MAXL:
                return None
            parent = some() if r.random() < 0.3 else None
            return ["call", r.choice(TASKS), r.choice("ab"), r.choice("dx"), parent]
        if x < 0.17:
            if len(self.labels) > MAXL - 2:
                return None
            return ["batch", r.choice(TASKS), [[r.choice("ab"), r.choice("dx")] for _ in range(2)]]
        if x < 0.42:
            i = some()
            if i is None:
                return None
            cur = self.st(i)
            if r.random() < 0.75 and cur in NEXT:
                return ["set", i, r.choice(NEXT[cur]), self.owner(i) or r.choice(["rA", "rB"])]
            return ["set", i, r.choice(ALL_STATUSES), r.choice(["rA", "rB"])]
        if x < 0.45:
            i = some()
            return ["incr", i] if i else None
        if x < 0.51:
            return ["hb", r.sample(["rA", "rB", "rZ"], r.randint(1, 2)), r.random() < 0.5]
        if x < 0.54:
            return ["svc", r.choice(sorted(self.hb))] if self.hb else None
        if x < 0.60:
            if len(known) < 2:
                return None
            w = r.choice(known)
            others = [i for i in known if i != w]
            return ["wait", w if r.random() < 0.9 else r.choice([None, ""]), r.sample(others, r.randint(1, min(2, len(others))))]
        if x < 0.62:
            fin = [i for i in known if self.st(i) in FINALS]
            return ["release", r.choice(fin)] if fin else None
        if x < 0.65:
            return ["route", some() or "g0"]
        if x < 0.70:
            return ["retrieve"]
        if x < 0.74:
            i = some()
            return [r.choice(["result", "exc"]), i, r.choice(["v1", "v2"])] if i else None
        if x < 0.76:
            i = some()
            return ["hist", i, r.choice(ALL_STATUSES), r.choice([None, "rA"]), r.choice(["rA", "rB"])] if i else None
        if x < 0.78:
            return ["wf", r.choice(["w1", "w2"]), r.choice(["k1", "k2"]), r.choice(["u", "v"])]
        if x < 0.79:
            return ["x.wf", "w1", r.choice(["k1", "k2"]), r.choice([None, 0, "", False, [], "v", {"a": None}])]
        if x < 0.81:
            return ["rctx", r.choice(["rA", "rB", "rZ"]), r.choice([None, "rP"])]
        if x < 0.90:
            kind = r.choice(["us", "us", "purge", "dead", "pend", "claim"])
            return ["adv", kind, r.choice([1, 999, 250_000]) if kind == "us" else r.choice([-2, -1, 0])]
        if x < 0.93:
            d = self.due(self.now + 1)
            if len(d) > 1 or any(i in self.no_sb for i in d):
                return None
            return ["apurge"]
        if x < 0.945:
            return ["purge", r.choice(["broker", "orch", "sb", "app", "cds", "trg"])]
        if x < 0.955:
            self.pending_hold = True
            return ["hold"]
        if x < 0.985:
            return self._trigger_op()
        return ["cds.put", r.choice(["p", "q"]), r.random() < 0.5]

    def _trigger_op(self) -> list | None:
        r = self.rng
        x = r.random()
        if x < 0.2:
            return ["t.cond", r.choice(["c1", "c2", "c3"])]
        if x < 0.35:
            t = r.choice(["t1", "t2", "t3"])
            if t in self.trg and not self.wild:
                return None
            return ["t.trg", t, ["c1", "c2"] if t == "t2" else ["c1"]]
        if x < 0.5:
            return ["t.valid", [[r.choice(["c1", "c2"]), r.choice(["e1", "e2"])]]]
        if x < 0.58:
            return ["t.valids", [[c, r.choice(["e1", "e2"])] for c in ("c1", "c2")]]
        if x < 0.68:
            return ["t.clear", [[r.choice(["c1", "c2"]), r.choice(["e1", "e2"])]]]
        if x < 0.82:
            return ["t.claim", r.choice(["run1", "run2"]), r.choice([1, 60])]
        if x < 0.97:
            c = r.choice(["c1", "c3"])
            if c not in self.cond and not self.wild:
                return None
            return ["t.cron", c, r.choice([None, "cur", "stale", "cur-tz"])]
        return ["t.clean", r.choice(["tA", "tB"])]

    def _wild_op(self, known: list[str]) -> list | None:
        r = self.rng
        x = r.random()
        i = r.choice(known) if known else "i0"
        if x < 0.10:
            return ["rereg", i]
        if x < 0.20:
            return ["pset", r.choice([i, "g0"])]
        if x < 0.30:
            return ["release", i]
        if x < 0.40:
            return ["wait", i, ["g0"]]
        if x < 0.50:
            return ["incr", "g0"]
        if x < 0.58:
            return ["svc", "rQ"]
        if x < 0.66:
            return ["apurge"]
        if x < 0.74:
            return ["hold"]
        if x < 0.80:
            return ["t.cron", "c1", None]
        if x < 0.86:
            return ["hist", i, self.st(i) if self.st(i) in ALL_STATUSES else "registered", None, "rA"]
        return ["q", list(r.choice(WILD_QUERIES))]


def is_subsequence(small: list, big: list) -> bool:
    it = iter(big)
    return all(any(x == y for y in it) for x in small)
