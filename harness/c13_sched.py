"""Cooperative scheduler at *store-operation* granularity for real threads sharing one in-memory trigger store
(the SQL-statement scheduler of harness/sched_sql.py cannot see a store that issues no SQL).

`OpSched.wrap(obj, names)` replaces the named bound methods of one object by wrappers that, in scheduled threads
only, stop *before* the operation and hand the baton back; exactly one thread runs at a time, chosen by a chooser
(`PrefixChooser` / `RandomChooser` / `explore` of harness.sched_sql work unchanged).  A wrapped operation called
from inside another wrapped operation of the same thread does not yield again.  Every completed top-level
operation is appended to `Run.ops` as (thread, name, args summary, result summary), in execution order.
"""
from __future__ import annotations

import threading
from typing import Any, Callable, Sequence

from harness.sched_sql import Run

_tls = threading.local()


class _W:
    def __init__(self, idx: int):
        self.idx = idx
        self.go = threading.Semaphore(0)
        self.done = False
        self.result: Any = None
        self.error: BaseException | None = None
        self.thread: threading.Thread | None = None


class OpSched:
    def __init__(self, max_steps: int = 2000):
        self.max_steps = max_steps
        self._back = threading.Semaphore(0)
        self._workers: list[_W] = []
        self._run: Run | None = None
        self._aborting = False
        self._step = 0
        self.ops: list[tuple[int, str, Any, Any]] = []
        self._wrapped: list[tuple[Any, str, Any]] = []
        self.summarise: Callable[[str, tuple, Any], tuple[Any, Any]] = lambda name, args, res: (None, None)
        self.before: Callable[[int, str], None] | None = None  # hook run in the worker right before an operation executes

    def wrap(self, obj: Any, names: Sequence[str]) -> None:
        for name in names:
            orig = getattr(obj, name)

            def make(orig: Any, name: str) -> Any:
                def wrapper(*a: Any, **kw: Any) -> Any:
                    w: _W | None = getattr(_tls, "worker", None)
                    if w is None or getattr(_tls, "depth", 0) > 0 or self._aborting:
                        return orig(*a, **kw)
                    self._yield(w, name)
                    _tls.depth = 1
                    try:
                        if self.before:
                            self.before(w.idx, name)
                        res = orig(*a, **kw)
                        self.ops.append((w.idx, name) + self.summarise(name, a, res))
                        return res
                    finally:
                        _tls.depth = 0

                return wrapper

            self._wrapped.append((obj, name, obj.__dict__.get(name, None)))
            setattr(obj, name, make(orig, name))

    def unwrap(self) -> None:
        for obj, name, prev in reversed(self._wrapped):
            if prev is None:
                try:
                    delattr(obj, name)
                except AttributeError:
                    pass
            else:
                setattr(obj, name, prev)
        self._wrapped.clear()

    def _yield(self, w: _W, name: str) -> None:
        self._back.release()
        w.go.acquire()
        if self._run is not None:
            self._run.trace.append((self._step, w.idx, "op", name))

    def run(self, bodies: Sequence[Callable[[], Any]], chooser: Callable[[int, list[int], int | None], int]) -> Run:
        run = Run()
        self._run = run
        self._aborting = False
        self._step = 0
        self.ops = []
        self._workers = [_W(i) for i in range(len(bodies))]
        self._back = threading.Semaphore(0)

        def main(w: _W, body: Callable[[], Any]) -> None:
            w.go.acquire()
            _tls.worker = w
            _tls.depth = 0
            try:
                w.result = body()
            except BaseException as e:  # noqa: BLE001
                w.error = e.with_traceback(None)
            finally:
                _tls.worker = None
                w.done = True
                self._back.release()

        for w, body in zip(self._workers, bodies):
            w.thread = threading.Thread(target=main, args=(w, body), daemon=True)
            w.thread.start()
        current: int | None = None
        while True:
            alive = [w.idx for w in self._workers if not w.done]
            if not alive:
                break
            c = chooser(self._step, alive, current)
            if c not in alive:
                c = alive[0]
            run.choices.append(c)
            run.runnable.append(tuple(alive))
            self._workers[c].go.release()
            self._back.acquire()
            current = c
            self._step += 1
            if self._step > self.max_steps:
                run.aborted = True
                self._aborting = True
                for w in self._workers:
                    w.go.release()
                break
        for w in self._workers:
            assert w.thread is not None
            w.thread.join(timeout=30)
        run.results = [w.result for w in self._workers]
        run.errors = [w.error for w in self._workers]
        run.deviated = bool(getattr(chooser, "deviated", False))
        self._run = None
        return run


class CoopLock:
    """Stands in for the `threading.RLock`s of a MemTrigger while its threads are scheduled line by line: a thread
    that finds the lock taken by another scheduled thread is marked blocked and yields instead of blocking for real."""

    def __init__(self, sched: "LineSched"):
        self.sched = sched
        self.owner: int | None = None
        self.depth = 0

    def acquire(self, blocking: bool = True, timeout: float = -1) -> bool:
        w: _W | None = getattr(_tls, "worker", None)
        me = -1 if w is None else w.idx
        while self.owner is not None and self.owner != me:
            if w is None:
                raise RuntimeError("unscheduled thread met a held cooperative lock")
            self.sched._block(w)
        self.owner = me
        self.depth += 1
        return True

    def release(self) -> None:
        self.depth -= 1
        if self.depth == 0:
            self.owner = None
            self.sched._unblock_all()

    def __enter__(self) -> "CoopLock":
        self.acquire()
        return self

    def __exit__(self, *a: Any) -> None:
        self.release()


class LineSched(OpSched):
    """`OpSched` with a yield point before every source *line* executed in the given files (via `sys.settrace` in the
    scheduled threads only) and cooperative locks."""

    def __init__(self, files: Sequence[str], max_steps: int = 6000):
        super().__init__(max_steps)
        self.files = tuple(files)
        self.blocked: set[int] = set()

    def _block(self, w: _W) -> None:
        self.blocked.add(w.idx)
        self._back.release()
        w.go.acquire()

    def _unblock_all(self) -> None:
        self.blocked.clear()

    def _tracer(self, frame: Any, event: str, arg: Any) -> Any:
        if not frame.f_code.co_filename.endswith(self.files):
            return None

        def local(frame: Any, event: str, arg: Any) -> Any:
            if event == "line" and not self._aborting:
                w: _W | None = getattr(_tls, "worker", None)
                if w is not None:
                    self._back.release()
                    w.go.acquire()
                    if self._run is not None:
                        self._run.trace.append((self._step, w.idx, "line", f"{frame.f_code.co_name}:{frame.f_lineno}"))
            return local

        return local

    def run(self, bodies: Sequence[Callable[[], Any]], chooser: Callable[[int, list[int], int | None], int]) -> Run:
        import sys

        run = Run()
        self._run = run
        self._aborting = False
        self._step = 0
        self.blocked = set()
        self._workers = [_W(i) for i in range(len(bodies))]
        self._back = threading.Semaphore(0)

        def main(w: _W, body: Callable[[], Any]) -> None:
            w.go.acquire()
            _tls.worker = w
            _tls.depth = 0
            sys.settrace(self._tracer)
            try:
                w.result = body()
            except BaseException as e:  # noqa: BLE001
                w.error = e.with_traceback(None)
            finally:
                sys.settrace(None)
                _tls.worker = None
                w.done = True
                self._unblock_all()
                self._back.release()

        for w, body in zip(self._workers, bodies):
            w.thread = threading.Thread(target=main, args=(w, body), daemon=True)
            w.thread.start()
        current: int | None = None
        while True:
            alive = [w.idx for w in self._workers if not w.done]
            if not alive:
                break
            runnable = [i for i in alive if i not in self.blocked]
            if not runnable:  # cannot happen with correct lock discipline; give up rather than hang
                run.aborted = True
                self._aborting = True
                self.blocked.clear()
                for w in self._workers:
                    w.go.release()
                break
            c = chooser(self._step, runnable, current)
            if c not in runnable:
                c = runnable[0]
            run.choices.append(c)
            run.runnable.append(tuple(runnable))
            self._workers[c].go.release()
            self._back.acquire()
            current = c
            self._step += 1
            if self._step > self.max_steps:
                run.aborted = True
                self._aborting = True
                self.blocked.clear()
                for w in self._workers:
                    w.go.release()
                break
        for w in self._workers:
            assert w.thread is not None
            w.thread.join(timeout=30)
        run.results = [w.result for w in self._workers]
        run.errors = [w.error for w in self._workers]
        run.deviated = bool(getattr(chooser, "deviated", False))
        self._run = None
        return run
