"""Fresh interpreter for C18: re-executes one invocation against an existing SQLite file and prints its trace.

    python -m harness.c18_child '<json: {db, tmp, app_id, inv_id, tag, limit, tick, max_retries}>'

Nothing of the parent's process image exists here: the app, the Task objects and every cache are new;
only the SQLite file connects the two.  Output: one JSON line {"trace": [...], "pynenc": path, "clock": bool}.
"""
from __future__ import annotations

import json
import sys


def main() -> int:
    a = json.loads(sys.argv[1])
    from harness.common import quiet_pynenc

    quiet_pynenc()
    import pynenc
    from pynenc.invocation.status import InvocationStatus as S

    from harness import c18_probe as P
    from harness.apps import inject_status, make_app, rctx

    if a.get("mode") == "gen":
        # an execution that finds nothing recorded (a recovery re-run racing the original, in another process image):
        # the values this interpreter GENERATES for (workflow, op, sequence)
        from pynenc.identifiers.task_id import TaskId
        from pynenc.workflow.workflow_deterministic import DeterministicExecutor
        from pynenc.workflow.workflow_identity import WorkflowIdentity

        app = make_app("mem", a["tmp"], a["app_id"])
        out = {}
        for wid in a["workflows"]:
            ex = DeterministicExecutor(WorkflowIdentity.new_workflow(wid, TaskId("harness.tasks", "wf_script")), app)
            out[wid] = {"random": [ex.random() for _ in range(a["n"])], "uuid": [ex.uuid() for _ in range(a["n"])]}
        print(json.dumps({"values": out}))
        return 0
    app = make_app("sqlite", a["tmp"], a["app_id"], db=a["db"])
    P.install(app)
    clock = P.install_clock(a["tick"])
    P.register_tasks(app, a.get("max_retries", 0))
    if a.get("limit") is not None:
        P.LIMIT[a["tag"]] = a["limit"]
    inject_status(app, a["inv_id"], S.PENDING, "r1", 0)
    inv = app.state_backend.get_invocation(a["inv_id"])
    err = None
    try:
        inv.run(rctx("r1"))
    except Exception as e:  # noqa: BLE001
        err = type(e).__name__
    print(json.dumps({"trace": P.TRACE, "pynenc": pynenc.__file__, "clock": clock, "err": err, "tick": P.CLOCK.tick}))
    return 0


if __name__ == "__main__":
    sys.exit(main())
