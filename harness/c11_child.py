"""Fresh interpreter for C11: a MultiThreadRunner WORKER process main (`thread_runner_process_main`) running in the main thread,
so that the real signal handlers are in force.

    python -m harness.c11_child '<json: {db, tmp, app_id, reason, point}>'

A task is RUNNING in the worker; the worker enters its clean-up for `reason`
  parent-gone : the parent's Manager is gone, the shared-status write of the next loop iteration fails
  ctrl-c      : SIGINT
  sigterm     : SIGTERM (the ordinary stop)
and a (further) SIGTERM - the parent's or the supervisor's - arrives at `point` of the clean-up
  none | before-kill | after-killed | before-push
Output: one JSON line {status, owner, queued, returned, error}.
"""
from __future__ import annotations

import json
import os
import signal
import sys
import threading
import time


def main() -> int:
    a = json.loads(sys.argv[1])
    from harness.common import quiet_pynenc

    quiet_pynenc()
    import warnings

    warnings.simplefilter("ignore")
    from pynenc.runner.multi_thread_runner import thread_runner_process_main
    from pynenc.runner.runner_context import RunnerContext

    from harness import tasks as T
    from harness.apps import make_app

    app = make_app("sqlite", a["tmp"], a["app_id"], db=a["db"], runner_cls="MultiThreadRunner", runner_loop_sleep_time_sec=0.002,
                   invocation_wait_results_sleep_time_sec=0.002)
    task = app.task(T.c11_slow)
    inv = task("ok", 1.0)
    o = app.orchestrator

    class ManagerDict(dict):
        dead = False

        def __setitem__(self, k, v):  # type: ignore[no-untyped-def]
            if self.dead:
                raise BrokenPipeError("the parent's manager is gone")
            super().__setitem__(k, v)

    shared = ManagerDict()
    sent: list[str] = []

    def second_sigterm(where: str) -> None:
        if a["point"] == where and not sent:
            sent.append(where)
            os.kill(os.getpid(), signal.SIGTERM)
            time.sleep(0.05)        # every chance for the handler to run right here

    from pynenc.runner import base_runner as br

    real_kr = br.BaseRunner._kill_and_reroute
    real_reroute = o.reroute_invocations
    real_push = app.broker.route_invocation

    def kr(self, invocation_id, *aa, **kw):  # type: ignore[no-untyped-def]
        second_sigterm("before-kill")
        return real_kr(self, invocation_id, *aa, **kw)

    def reroute(ids, ctx):  # type: ignore[no-untyped-def]
        second_sigterm("after-killed")
        return real_reroute(ids, ctx)

    def push(i):  # type: ignore[no-untyped-def]
        if i == inv.invocation_id and o.get_invocation_status(i).value == "rerouted":
            second_sigterm("before-push")
        return real_push(i)

    br.BaseRunner._kill_and_reroute = kr  # type: ignore[method-assign]
    o.reroute_invocations = reroute  # type: ignore[method-assign]
    app.broker.route_invocation = push  # type: ignore[method-assign]

    def trigger() -> None:
        t0 = time.time()
        while time.time() - t0 < 10 and o.get_invocation_status(inv.invocation_id).value != "running":
            time.sleep(0.005)
        time.sleep(0.05)
        if a["reason"] == "parent-gone":
            shared.dead = True
        elif a["reason"] == "ctrl-c":
            os.kill(os.getpid(), signal.SIGINT)
        else:
            os.kill(os.getpid(), signal.SIGTERM)

    threading.Thread(target=trigger, daemon=True).start()
    parent = RunnerContext("MultiThreadRunner", runner_id="c11-mtr-parent")
    out = {"returned": True, "error": None}
    try:
        thread_runner_process_main(app, parent_ctx_json=parent.to_json(), child_runner_id="c11-worker", runner_cache={}, shared_status=shared)
    except BaseException as e:  # noqa: BLE001
        out = {"returned": False, "error": f"{type(e).__name__}: {e}"[:160]}
    signal.signal(signal.SIGTERM, signal.SIG_IGN)
    # the worker PROCESS ends here (its task threads die with it): what it leaves behind is what counts
    try:
        rec0 = o.get_invocation_status_record(inv.invocation_id)
        out.update(status_at_exit=rec0.status.value, owner_at_exit=rec0.runner_id)
    except Exception as e:  # noqa: BLE001
        out.update(status_at_exit=f"error:{type(e).__name__}", owner_at_exit=None)
    time.sleep(1.2)     # the body (1 s) ends
    try:
        app.state_backend.wait_for_all_async_operations()
    except Exception:  # noqa: BLE001
        pass
    rec = o.get_invocation_status_record(inv.invocation_id)
    q = []
    while (i := app.broker.retrieve_invocation()) is not None:
        q.append(i)
    out.update(status=rec.status.value, owner=rec.runner_id, queued=q.count(inv.invocation_id), signal_sent=sent)
    print(json.dumps(out))
    return 0


if __name__ == "__main__":
    sys.exit(main())
