"""Fresh interpreter for C06: ANOTHER runner process on the same SQLite file (its own hash salt, its own caches).

    python -m harness.c06_child '<json: {db, tmp, app_id, mode, keys, reroute, args}>'

Registers the same task, submits one invocation with `args`, polls once with four slots and starts whatever it was handed.
Output: one JSON line {submitted, polled: [ids], statuses: {id: status}}.
"""
from __future__ import annotations

import json
import sys
import threading
import time


def main() -> int:
    a = json.loads(sys.argv[1])
    from harness.common import quiet_pynenc

    quiet_pynenc()
    import warnings

    warnings.simplefilter("ignore")
    from pynenc.conf.config_task import ConcurrencyControlType as C

    from harness import tasks as T
    from harness.apps import make_app, rctx

    app = make_app("sqlite", a["tmp"], a["app_id"], db=a["db"])
    opts = {"running_concurrency": C(a["mode"]), "reroute_on_concurrency_control": bool(a["reroute"])}
    if a["keys"]:
        opts["key_arguments"] = tuple(a["keys"])
    task = app.task(T.cc_body, **opts)
    o = app.orchestrator
    inv = task(*a["args"])
    got = list(o.get_invocations_to_run(4, rctx("rChild")))
    started = []
    for g in got:
        T.CC_GATES[g.invocation_id] = threading.Event()
        th = threading.Thread(target=g.run, args=[rctx("rChild")], daemon=True)
        th.start()
        t0 = time.time()
        while time.time() - t0 < 5 and th.is_alive() and o.get_invocation_status(g.invocation_id).value != "running":
            time.sleep(0.002)
        started.append(g.invocation_id)
    ids = list(o.get_invocation_ids_paginated(limit=50))
    print(json.dumps({"submitted": inv.invocation_id, "polled": [g.invocation_id for g in got],
                      "statuses": {i: o.get_invocation_status(i).value for i in ids}}))
    sys.stdout.flush()
    import os

    os._exit(0)


if __name__ == "__main__":
    sys.exit(main())
