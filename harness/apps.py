"""Building real pynenc apps for the harness, a controllable clock, and test-only state injection."""
from __future__ import annotations

import datetime as _dt
import importlib
import os
import time as _time
from typing import Any

from pynenc.builder import PynencBuilder
from pynenc.runner.runner_context import RunnerContext

from harness import tasks as T


def make_app(kind: str, tmp: str, app_id: str = "verif", db: str | None = None, **conf: Any):
    """kind = 'mem' | 'sqlite'.  `conf` are extra config values (custom_config)."""
    b = PynencBuilder().app_id(app_id)
    if kind == "mem":
        b = b.memory()
    else:
        b = b.sqlite(db or os.path.join(tmp, f"{app_id}.db"))
    # cached_status_time=0: DistributedInvocation.status otherwise serves a 100 ms old value
    cfg = {"logging_level": "critical", "print_arguments": False, "cached_status_time": 0.0}
    cfg.update(conf)
    b = b.custom_config(**cfg)
    app = b.build()
    return app


def task(app, func, **options):
    return app.task(func, **options)


def rctx(runner_id: str | None, cls: str = "VerifRunner") -> RunnerContext:
    return RunnerContext(runner_cls=cls, runner_id=runner_id, pid=1, hostname="verif", thread_id=1)  # type: ignore[arg-type]


# --------------------------------------------------------------------------------------------
# virtual clock
# --------------------------------------------------------------------------------------------

class VirtualClock:
    """Replaces `time.time` / `datetime.now` as seen from pynenc modules by a controlled value
    (integer microseconds since the epoch, so every timestamp is exactly representable)."""

    TIME_MODULES = [
        "pynenc.orchestrator.mem_orchestrator",
        "pynenc.orchestrator.sqlite_orchestrator",
        "pynenc.orchestrator.base_orchestrator",
    ]
    DT_MODULES = [
        "pynenc.invocation.status",
        "pynenc.state_backend.base_state_backend",
        "pynenc.trigger.base_trigger",
        "pynenc.trigger.mem_trigger",
        "pynenc.trigger.sqlite_trigger",
    ]

    def __init__(self, start_us: int = 1_700_000_000_000_000):
        self.us = start_us
        self._saved: list[tuple[Any, str, Any]] = []
        clock = self

        class FakeDT(_dt.datetime):
            @classmethod
            def now(cls, tz=None):  # type: ignore[override]
                return _dt.datetime.fromtimestamp(0, tz=_dt.UTC).replace(tzinfo=_dt.UTC) + _dt.timedelta(microseconds=clock.us) if tz else _dt.datetime.utcfromtimestamp(0) + _dt.timedelta(microseconds=clock.us)

        self.FakeDT = FakeDT

    def time(self) -> float:
        return self.us / 1_000_000

    def advance(self, us: int) -> None:
        self.us += us

    def install(self) -> "VirtualClock":
        for m in self.TIME_MODULES:
            mod = importlib.import_module(m)
            if hasattr(mod, "time") and callable(getattr(mod, "time")):
                self._saved.append((mod, "time", mod.time))
                mod.time = self.time
        for m in self.DT_MODULES:
            mod = importlib.import_module(m)
            if hasattr(mod, "datetime"):
                self._saved.append((mod, "datetime", mod.datetime))
                mod.datetime = self.FakeDT
        return self

    def uninstall(self) -> None:
        for mod, name, val in reversed(self._saved):
            setattr(mod, name, val)
        self._saved.clear()

    def __enter__(self):
        return self.install()

    def __exit__(self, *a):
        self.uninstall()


def ts_us(d: _dt.datetime) -> int:
    """datetime -> integer microseconds since the epoch (exact)."""
    if d.tzinfo is None:
        d = d.replace(tzinfo=_dt.UTC)
    delta = d - _dt.datetime(1970, 1, 1, tzinfo=_dt.UTC)
    return delta.days * 86_400_000_000 + delta.seconds * 1_000_000 + delta.microseconds


# --------------------------------------------------------------------------------------------
# test-only injection of a status record (flagged `injected` in the evidence)
# --------------------------------------------------------------------------------------------

def inject_status(app, inv_id: str, status, owner: str | None, when_us: int) -> None:
    from pynenc.invocation.status import InvocationStatusRecord

    o = app.orchestrator
    when = _dt.datetime(1970, 1, 1, tzinfo=_dt.UTC) + _dt.timedelta(microseconds=when_us)
    if type(o).__name__ == "MemOrchestrator":
        prev = o.invocation_status_record.get(inv_id)
        if prev:
            o.status_index[prev.status].discard(inv_id)
        o.status_index[status].add(inv_id)
        o.invocation_status_record[inv_id] = InvocationStatusRecord(status, owner, when)
    else:
        from pynenc.util.sqlite_utils import create_sqlite_connection

        with create_sqlite_connection(o.sqlite_db_path) as conn:
            conn.execute(
                f"UPDATE {o.tables.INVOCATIONS} SET status=?, status_runner_id=?, status_timestamp=? WHERE invocation_id=?",
                (status.value, owner, when_us / 1_000_000, inv_id),
            )
            conn.commit()


def flush(app) -> None:
    sb = app.state_backend
    if hasattr(sb, "wait_for_all_async_operations"):
        sb.wait_for_all_async_operations()
