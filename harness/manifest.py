"""Regenerates /verif/MANIFEST.json from the table below:  python -m harness.manifest"""
from __future__ import annotations

import json
from pathlib import Path

VERIF = Path(__file__).resolve().parent.parent

TB = ("Trusted: Lean 4.33 kernel; axioms ⊆ {propext, Classical.choice, Quot.sound} (audited every run); the Python "
      "translators and the correspondence harness; CPython/sqlite3/third-party libraries are modelled, not verified. ")

CHECKS: dict[str, dict] = {
    "C01": dict(
        text="Lean theorems over the status table regenerated from status.py and the documented graph regenerated from the svg/md: "
             "table edges = documented edges, flags = documented categories = the sets the property names, exact characterisation of a "
             "successful step for all records/requests/runner-id strings, finals absorbing, non-owner rejected, every request sequence of "
             "any length yields a documented path starting at REGISTERED, refused request leaves the store unchanged. Tie: translator "
             "(every run) + exhaustive differential of the single-step space through status_record_transition and through "
             "set_invocation_status on Mem and SQLite under a virtual clock + request sequences; an oracle built from the documented "
             "graph alone judges every real step, so a failing input is concrete. Status index of the in-memory orchestrator (Model/IndexScan.lean, "
             "Props/C01Scan.lean): however read-side scans interleave with the three steps of an accepted transition, the invocation ends up listed under "
             "exactly its recorded status; a scan that repairs the index by the record loses it (witness); `code_scans_only_read` (translate/indexscan.py) "
             "ties writers of the index and the order index-then-record to the source; real threads at line granularity (`scans_during_a_transition`).",
        note=TB + "States not reachable with an arbitrary owner are injected into the store (13 statuses are also driven by public calls).",
        technique="Lean 4 proof (decide over regenerated table + induction over request lists) + exhaustive differential correspondence",
        ref="§5 C01",
    ),
    "C12": dict(
        text="Lean theorems over a model of calculate_time_slot / is_runner_in_time_slot / can_run_atomic_service that applies a rounding "
             "function after every float operation: mutual exclusion and at-most-one-authorised for every monotone, idempotent, 0-fixing "
             "rounding (hence binary64 and exact arithmetic), all n, intervals, margins (incl. margin >= slot), positions and instants; exact "
             "theorems: margin separation (cyclic), non-empty window inside every cycle, authorised in every cycle, single runner always, "
             "stranger never. Tie (1): translate/slot.py re-expresses the arithmetic of calculate_time_slot and is_runner_in_time_slot from the "
             "Python AST on every run (Gen/Slot.lean, fl after every float operation, integer sub-expressions exact); `gen_slot_is_the_model` "
             "(by rfl) makes every theorem a theorem about what the source says now, `translated_source_excludes` states the exclusion on the "
             "translated functions; the execution-history block must assign nothing. Tie (2): bit-exact differential of the real functions against the model run with an executable binary64 "
             "round-to-nearest-even (floats exchanged as integer ratios) on grids + every slot boundary +-2 ulp + epoch offsets to 2e9; the "
             "property itself is evaluated on the real functions at every instant, so a failing input is concrete.",
        note=TB + "IEEE rounding is monotone/idempotent (hypothesis FlOK); Python float % is exact (checked on every instant used).",
        technique="Lean 4 proof over Q parametric in the rounding function; arithmetic regenerated from the source by a translator + bit-exact differential correspondence",
        ref="§5 C12",
    ),
}

for _f in sorted((VERIF / "harness" / "manifest_entries").glob("C*.json")):
    CHECKS[_f.stem] = json.loads(_f.read_text())

NOT_YET = "check not built yet (work in progress; see DESIGN.md section 5 for the plan)"


def main() -> None:
    props = [json.loads(l) for l in (VERIF / "properties.jsonl").read_text().splitlines() if l.strip()]
    checks = []
    na = []
    for p in props:
        pid = p["id"]
        c = CHECKS.get(pid)
        if not c:
            na.append({"property_id": pid, "reason": NOT_YET})
            continue
        checks.append({
            "property_id": pid,
            "quick_cmd": f"./check {pid} --tier quick",
            "thorough_cmd": f"./check {pid} --tier thorough",
            "evidence_file": f"evidence/{pid}.json",
            "replay_cmd_template": f"./check {pid} --replay {{path}}",
            "engine": "lean4-model+correspondence",
            "level_claimed": {"category": c.get("category", "proof"), "text": c["text"], "design_ref": c["ref"]},
            "level_note": c["note"],
            "technique": c["technique"],
        })
    m = {
        "version": 1,
        "setup_cmd": "./setup.sh",
        "hooks": {
            "guard": "PYNENC_VERIF",
            "enable": "no source hooks: every yield point, clock and stand-in is installed by monkey-patching from /verif/harness (checks export PYNENC_VERIF=1 for uniformity)",
            "baseline_off_cmd": "cd /repo && /venv/bin/python -m pytest -ra -q -p no:cacheprovider --timeout=900 --continue-on-collection-errors",
            "source_commits": [],
            "add_only": True,
        },
        "engines": [{
            "name": "lean4-model+correspondence", "path": "lean/ + harness/",
            "serves_properties": [c["property_id"] for c in checks],
            "kind_free_text": "hand-written executable Lean 4 model + property theorems (lake build, #print axioms audit); Gen/*.lean regenerated from /repo by Python translators every run; differential correspondence of the compiled model driver (pynmodel) against the real code on Mem and SQLite backends",
        }],
        "checks": checks,
        "notes": "Single entry point ./check <Cxx> --tier quick|thorough [--replay f]. VERIF_SEED seeds every random choice. known_findings.json lists recorded genuine defects; see DESIGN.md.",
        "not_applicable": na,
    }
    # root module of the lake library: everything except Audit/* (so that `lake build` checks all of it)
    lean = VERIF / "lean"
    mods = sorted(
        ".".join(p.relative_to(lean).with_suffix("").parts)
        for p in (lean / "PynencModel").rglob("*.lean")
        if "Audit" not in p.parts
    )
    drivers = sorted(p.stem for p in (lean / "PynencModel" / "Driver").glob("*.lean"))
    main = "-- GENERATED by harness/manifest.py from PynencModel/Driver/*.lean. Do not edit.\n"
    main += "".join(f"import PynencModel.Driver.{d}\n" for d in drivers)
    main += ("/-\n  `pynmodel`: one operation per input line, one canonical output line per operation.\n"
             "  The harness runs the real pynenc code on the same operations and diffs the outputs.\n"
             "  Each property's operations live in a fragment `PynencModel/Driver/*.lean` with its own state.\n-/\nopen Pynenc\n\n"
             "structure World where\n")
    main += "".join(f"  s{d} : Driver.{d}.St := {{}}\n" for d in drivers)
    main += "\ndef stepLine (w : World) (line : String) : World × String :=\n  let toks := (line.splitOn \" \").filter (· ≠ \"\")\n"
    for i, d in enumerate(drivers):
        kw = "if" if i == 0 else "else if"
        main += f"  {kw} let some (s, o) := Driver.{d}.handle w.s{d} toks then ({{ w with s{d} := s }}, o)\n"
    main += ("  else (w, \"bad-op\")\n\n"
             "partial def loop (h : IO.FS.Stream) (out : IO.FS.Stream) (w : World) : IO Unit := do\n"
             "  let line ← h.getLine\n  if line.isEmpty then return ()\n"
             "  let (w', o) := stepLine w (line.trimAscii.toString)\n  out.putStrLn o\n  out.flush\n  loop h out w'\n\n"
             "def main : IO Unit := do loop (← IO.getStdin) (← IO.getStdout) {}\n")
    if (lean / "Main.lean").read_text() != main:
        (lean / "Main.lean").write_text(main)
    root = "-- GENERATED by harness/manifest.py: imports every module of the library\n" + "".join(f"import {m}\n" for m in mods)
    if (lean / "PynencModel.lean").read_text() != root:
        (lean / "PynencModel.lean").write_text(root)
    (VERIF / "MANIFEST.json").write_text(json.dumps(m, indent=1, ensure_ascii=False) + "\n")


if __name__ == "__main__":
    main()
