"""Regenerate every lean/PynencModel/Gen/*.lean from the source tree (PYNENC_REPO, default /repo):  python -m harness.regen
Used by setup (so that the build never depends on a stale committed copy) and after mutant runs."""
from __future__ import annotations

import importlib
import logging
import shutil
import tempfile

from harness.common import GEN, write_if_changed


def main() -> None:
    logging.disable(logging.CRITICAL)
    tmp = tempfile.mkdtemp(prefix="verif-regen-")
    try:
        out: dict[str, str] = {}
        for modname in ("status", "programs", "tables", "reserved", "handlers", "histwriter", "brokersend", "exclusion", "pollskip", "slot", "pool",
                        "detop", "indexscan"):
            try:
                mod = importlib.import_module(f"harness.translate.{modname}")
            except ModuleNotFoundError:
                continue
            try:
                g = mod.gen(tmp) if modname == "programs" else mod.gen()
            except TypeError:
                g = mod.gen(tmp)
            out.update(g)
        for name, content in out.items():
            changed = write_if_changed(GEN / name, content)
            print(("regenerated " if changed else "unchanged   ") + name)
    finally:
        shutil.rmtree(tmp, ignore_errors=True)


if __name__ == "__main__":
    main()
