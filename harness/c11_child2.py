"""Fresh interpreter for C11 / C03: a ThreadRunner whose `run()` loop is the MAIN thread, so that the real signal handlers are in force,
and a real OS signal that lands at a chosen point of the loop.

    python -m harness.c11_child2 '<json: {tmp, app_id, mode}>'

mode
  sigint-after-pop   : SIGINT (Ctrl-C) right after the broker handed a message to the loop, before the claim
  sigterm-after-pop  : the same with SIGTERM
  sigterm-in-reclaim : SIGTERM while the loop looks at the waiting marks in `_reclaim_available_slots` (one task is RUNNING)
  sigint-twice / sigterm-twice : two tasks RUNNING, the signal, and the SAME signal again while the stop is under way (right after the first
                       invocation has been killed and re-routed): an impatient operator, a supervisor that repeats its TERM
Afterwards a second runner object polls and runs, and both recovery tasks run (virtual time is not used: timeouts are zero).
Output: one JSON line {stop_completed, raised, status_after_stop, owner_after_stop, queued_after_stop, final_status}.
"""
from __future__ import annotations

import json
import os
import signal
import sys
import threading
import time


def main() -> int:
    a = json.loads(sys.argv[1])
    from harness.common import quiet_pynenc

    quiet_pynenc()
    import warnings

    warnings.simplefilter("ignore")
    from pynenc import context, core_tasks
    from pynenc.runner.thread_runner import ThreadRunner

    from harness import tasks as T
    from harness.apps import make_app, rctx

    app = make_app("mem", a["tmp"], a["app_id"], runner_cls="ThreadRunner", runner_loop_sleep_time_sec=0.01, max_pending_seconds=0.0,
                   runner_considered_dead_after_minutes=0.0)
    mode = a["mode"]
    task = app.task(T.c11_slow)
    inv = task("ok", 0.3 if mode != "sigterm-in-reclaim" else 1.0)
    o, b = app.orchestrator, app.broker
    runner = app.runner
    sent = []
    sig = signal.SIGINT if mode.startswith("sigint") else signal.SIGTERM
    inv2 = None
    if mode.endswith("-twice"):
        inv2 = task("ok2", 0.31)
        real_kr = runner._kill_and_reroute

        def kr(invocation_id, *aa, **kw):  # type: ignore[no-untyped-def]
            r = real_kr(invocation_id, *aa, **kw)
            if len(sent) == 1:
                sent.append(2)
                os.kill(os.getpid(), sig)       # the same signal again, the stop is half-way
                time.sleep(0.05)
            return r

        runner._kill_and_reroute = kr  # type: ignore[method-assign]

        def first() -> None:
            t0 = time.time()
            while time.time() - t0 < 8 and not all(o.get_invocation_status(i.invocation_id).value == "running" for i in (inv, inv2)):
                time.sleep(0.002)
            sent.append(1)
            os.kill(os.getpid(), sig)

        threading.Thread(target=first, daemon=True).start()
    elif mode.endswith("after-pop"):
        real = b.retrieve_invocation

        def pop():  # type: ignore[no-untyped-def]
            r = real()
            if r == inv.invocation_id and not sent:
                sent.append(1)
                os.kill(os.getpid(), sig)
                time.sleep(0.02)            # give the interpreter every chance to run the handler here
            return r

        b.retrieve_invocation = pop  # type: ignore[method-assign]
    else:
        class Marks(set):
            def __contains__(self, x):  # type: ignore[no-untyped-def]
                if not sent and o.get_invocation_status(inv.invocation_id).value == "running":
                    sent.append(1)
                    os.kill(os.getpid(), sig)
                    time.sleep(0.02)
                return set.__contains__(self, x)

        def arm() -> None:
            while not runner.running:
                time.sleep(0.002)
            runner.waiting_invocation_ids = Marks(runner.waiting_invocation_ids)

        threading.Thread(target=arm, daemon=True).start()

    done = threading.Event()
    res = {"stop_completed": False, "raised": None}

    def watchdog() -> None:
        if not done.wait(12):
            st = o.get_invocation_status_record(inv.invocation_id)
            print(json.dumps({"stop_completed": False, "raised": None, "status_after_stop": st.status.value, "owner_after_stop": st.runner_id,
                              "queued_after_stop": None, "final_status": st.status.value, "runner_running": bool(runner.running)}))
            sys.stdout.flush()
            os._exit(0)

    threading.Thread(target=watchdog, daemon=True).start()
    try:
        runner.run()
        res["stop_completed"] = True
    except BaseException as e:  # noqa: BLE001
        res["raised"] = f"{type(e).__name__}: {str(e)[:80]}"
        res["stop_completed"] = True
    done.set()
    signal.signal(signal.SIGTERM, signal.SIG_DFL)
    signal.signal(signal.SIGINT, signal.SIG_DFL)
    if mode.endswith("after-pop"):
        del b.retrieve_invocation
    time.sleep(0.5)
    st = o.get_invocation_status_record(inv.invocation_id)
    q = []
    while (x := b.retrieve_invocation()) is not None:
        q.append(x)
    for x in q:
        b.route_invocation(x)
    res.update(status_after_stop=st.status.value, owner_after_stop=st.runner_id, queued_after_stop=q.count(inv.invocation_id))
    if inv2 is not None:
        # the worse of the two invocations is reported
        def fine(rec, n):  # type: ignore[no-untyped-def]
            return rec.status.value in ("success", "failed") or (rec.status.value in ("registered", "rerouted", "retry") and rec.runner_id is None and n >= 1)

        st2 = o.get_invocation_status_record(inv2.invocation_id)
        res["signals_sent"] = len(sent)
        if fine(st, q.count(inv.invocation_id)) and not fine(st2, q.count(inv2.invocation_id)):
            res.update(status_after_stop=st2.status.value, owner_after_stop=st2.runner_id, queued_after_stop=q.count(inv2.invocation_id))
    # a surviving runner and the recovery services
    cB = rctx("rSurvivor")
    r2 = ThreadRunner(app, runner_context=cB)
    r2._on_start()
    t0 = time.time()
    while time.time() - t0 < 6 and not o.get_invocation_status(inv.invocation_id).is_final():
        o.register_runner_heartbeats([cB.runner_id])
        context.set_current_app(app)
        context.set_runner_context(app.app_id, cB)
        try:
            core_tasks.recover_pending_invocations()
            core_tasks.recover_running_invocations()
        except BaseException:  # noqa: BLE001
            pass
        r2.runner_loop_iteration()
    res["final_status"] = o.get_invocation_status(inv.invocation_id).value
    print(json.dumps(res))
    sys.stdout.flush()
    os._exit(0)


if __name__ == "__main__":
    sys.exit(main())
