"""C01 — lifecycle follows the documented state machine; finals absorbing; refused changes change nothing.

Lean: Props/C01.lean over Gen/StatusTable.lean + Gen/DocGraph.lean (regenerated here).
Tie:  (i)  every (cur, owner) x (req, requester) single step of `status_record_transition` vs `Pynenc.step`;
      (ii) the same space through `orchestrator.set_invocation_status` on Mem and SQLite (virtual clock), record
           read back through `get_invocation_status_record`, vs `Orch.setStatus`;
      (iii) request sequences (exhaustive short ones over a reduced alphabet + seeded random long ones).
Search: an oracle built only from the *documented* graph and the sets the property text names is evaluated on
      every real step; what it flags is a concrete failing input.
"""
from __future__ import annotations

import itertools

from harness import tasks as T
from harness.apps import VirtualClock, inject_status, make_app, rctx, ts_us, flush
from harness.common import Ctx, LeanDriver, lean_stage, thorough_rebuild, tok
from harness.translate import status as tr

THEOREMS = [
    "enum_covered", "table_edges_eq_doc", "table_flags_eq_doc", "step_ok_iff", "finals_absorbing",
    "non_owner_rejected", "recovery_overrides", "history_is_path", "starts_registered",
    "every_status_reachable", "setStatus_err_unchanged", "setStatus_ok_writes",
    # Props/C01Scan.lean: the status index beside read-side scans (writers of the index read from the source by translate/indexscan.py)
    "scan_inv_step", "scans_move_nothing", "repairing_scan_loses_the_invocation", "code_scans_only_read",
]

FINALS = {"SUCCESS", "FAILED", "CONCURRENCY_CONTROLLED_FINAL"}
OWNED = {"PENDING", "RUNNING", "PAUSED", "RESUMED"}
RECOVERY = {"PENDING_RECOVERY", "RUNNING_RECOVERY"}
OWNERS = [None, "rA", "rB"]
REQUESTERS = [None, "rA", "rB", ""]


def _classify(exc: BaseException | None) -> str:
    from pynenc.exceptions import InvocationStatusOwnershipError, InvocationStatusTransitionError

    if exc is None:
        return "ok"
    if isinstance(exc, InvocationStatusTransitionError):
        return "err transition"
    if isinstance(exc, InvocationStatusOwnershipError):
        return "err ownership"
    if isinstance(exc, KeyError):
        return "err keyerror"
    return f"err other:{type(exc).__name__}"


def oracle(doc_edges: set, cur: str | None, owner, req: str, rid, outcome: str, before, after) -> str | None:
    """Property-level judgement of one real step, from the documented graph only.
    before/after = (status, owner, ts) read through the public API (or None for unknown id)."""
    ok = outcome == "ok"
    if ok and ((cur or "START"), req) not in doc_edges:
        return f"change {cur}->{req} accepted but is not an edge of the documented graph"
    if ok and cur in FINALS:
        return f"final status {cur} was left for {req}"
    if ok and cur in OWNED and req not in RECOVERY and rid != owner:
        return f"{cur} owned by {owner!r} was moved to {req} by {rid!r}"
    if not ok and not outcome.startswith(("err transition", "err ownership", "err keyerror")):
        return f"refused change raised {outcome} instead of a status error"
    if not ok and before != after:
        return f"refused change {cur}->{req} altered the record: {before} -> {after}"
    if ok and after is not None and after[0] != req.lower():
        return f"accepted change to {req} but the record says {after[0]}"
    return None


class Backend:
    def __init__(self, kind: str, ctx: Ctx, nested: bool = False):
        self.kind = kind
        self.nested = nested          # requesters are WORKER contexts of one parent runner (same root, different runner ids)
        self.label = kind + ("+workers-of-one-parent" if nested else "")
        self.app = make_app(kind, ctx.tmp, app_id=f"c01{kind}{'n' if nested else ''}")
        self.task = self.app.task(T.add)
        self.o = self.app.orchestrator

    def new_inv(self) -> str:
        return self.task(1).invocation_id

    def read(self, inv_id: str):
        try:
            r = self.o.get_invocation_status_record(inv_id)
        except KeyError:
            return None
        return (r.status.value, r.runner_id, ts_us(r.timestamp))

    def listed(self, inv_id: str) -> list[str]:
        """the statuses under which the status-filtered listing of the orchestrator shows the invocation (it is observable through the
        orchestrator there too): exactly its recorded status"""
        from pynenc.invocation.status import InvocationStatus as S

        return [st.value for st in S if inv_id in self.o.get_invocation_ids_paginated(statuses=[st], limit=1000)]

    def set(self, inv_id: str, req, rid) -> str:
        try:
            rc = rctx(rid)
            if self.nested and rid:
                from pynenc.runner.runner_context import RunnerContext

                rc = RunnerContext(runner_cls="VerifWorker", runner_id=rid, pid=1, hostname="verif", thread_id=1, parent_ctx=rctx("the-parent-runner"))
            self.o.set_invocation_status(inv_id, req, rc)
            return "ok"
        except BaseException as e:  # noqa: BLE001
            return _classify(e)


def scans_during_a_transition(ctx: Ctx) -> None:
    """an accepted transition of the in-memory orchestrator, paused after each of its source lines, while another thread runs the
    READ-side scans to completion (the recovery scans, the status-filtered listing, the count, the concurrency lookup) - and the other
    way round.  Afterwards the invocation is observable under exactly its recorded status: a scan moves nothing."""
    from pynenc.invocation.status import InvocationStatus as S
    from pynenc.orchestrator.mem_orchestrator import MemOrchestrator

    from harness.sched_line import DeferredThreads, LineSched
    from harness.sched_sql import PrefixChooser

    defer = DeferredThreads().install()
    sched = LineSched(line_targets=[MemOrchestrator], lock_modules=["pynenc.orchestrator.mem_orchestrator"], max_steps=20000).install()
    n = 0
    try:
        b = Backend("mem", ctx)
        for start, owner, req, rid in ((S.REGISTERED, None, S.PENDING, "rA"), (S.PENDING, "rA", S.RUNNING, "rA"), (S.RUNNING, "rA", S.SUCCESS, "rA"),
                                       (S.RETRY, None, S.PENDING, "rB"), (S.PENDING, "rA", S.PENDING_RECOVERY, "rR")):
            def run_one(chooser, start=start, owner=owner, req=req, rid=rid):
                inv = b.new_inv()
                inject_status(b.app, inv, start, owner, 0)
                out: dict = {}

                def change() -> None:
                    out["set"] = b.set(inv, req, rid)

                def scans() -> None:
                    o = b.o
                    try:
                        out["pending"] = list(o.get_pending_invocations_for_recovery())
                        out["running"] = list(o.get_running_invocations_for_recovery())
                        out["count"] = o.count_invocations(statuses=[start, req])
                        out["listed"] = b.listed(inv)
                        out["existing"] = list(o.get_existing_invocations(b.task, statuses=[start, req]))
                    except BaseException as e:  # noqa: BLE001
                        out["scan-error"] = f"{type(e).__name__}: {str(e)[:120]}"

                run = sched.run([change, scans], chooser)
                defer.flush()
                run.meta = (inv, out, b.read(inv), b.listed(inv))  # type: ignore[attr-defined]
                return run

            n0 = len([c for c in run_one(PrefixChooser([0] * 5000)).choices if c == 0])
            n1 = len([c for c in run_one(PrefixChooser([1] * 5000)).choices if c == 1])
            plans = [[0] * k + [1] * 5000 for k in range(n0 + 1)] + [[1] * k + [0] * 5000 for k in range(0, n1 + 1, max(1, n1 // (25 if ctx.quick else 120)))]
            for plan in plans:
                run = run_one(PrefixChooser(plan))
                n += 1
                ctx.count()
                inv, out, rec, ls = run.meta  # type: ignore[attr-defined]
                ctx.distinct(("mem", "scan-vs-transition", start.value, req.value, tuple(run.choices[:60])))
                rep = {"kind": "scan-vs-transition", "backend": "mem", "start": start.value, "request": req.value, "schedule": run.choices[:80]}
                if run.aborted or any(e is not None for e in run.errors) or "scan-error" in out:
                    ctx.report("scan-vs-transition:error[mem]", f"[mem] {start.value} -> {req.value} beside the read-side scans: aborted={run.aborted} errors={run.errors} {out.get('scan-error')}", rep)
                    continue
                if out.get("set") != "ok" or rec is None or rec[0] != req.value or ls != [rec[0]]:
                    ctx.report(f"status-listing-disagrees-with-record[mem]:scan-during-transition",
                               f"[mem] the accepted change {start.value} -> {req.value} (answer {out.get('set')}) ran beside the read-side scans of another thread (recovery scans, listing, "
                               f"count, concurrency lookup): afterwards the record says {rec and rec[0]} and the status-filtered listing shows the invocation under {ls}", rep)
    finally:
        sched.uninstall()
        defer.uninstall()
    ctx.notes["scan_vs_transition_schedules"] = n


def run(ctx: Ctx) -> None:
    from pynenc.invocation.status import InvocationStatus as S, InvocationStatusRecord, status_record_transition

    def gen() -> dict[str, str]:
        from harness.translate import indexscan

        g = tr.gen()
        g.update(indexscan.gen())
        return g

    lean_stage(ctx, gen, THEOREMS)
    doc_edges = set(tr.doc_graph()[0])
    drv = LeanDriver()
    statuses = list(S)
    ctx.cov["rule"] = (
        "single steps: all (current status or none, owner in {None,rA,rB}) x (requested status, requester in "
        "{None,rA,rB,''}); non-trivial+distinct = distinct (cur,owner,req,requester,outcome) tuples with an existing "
        "record; sequences: distinct (backend, request sequence) pairs")

    # ---- (i) pure function vs model ------------------------------------------------------------
    lines, cases = [], []
    for cur in [None, *statuses]:
        for owner in (OWNERS if cur else [None]):
            for req in statuses:
                for rid in REQUESTERS:
                    rec = InvocationStatusRecord(cur, owner) if cur else None
                    try:
                        r = status_record_transition(rec, req, rid)
                        out = f"ok {r.status.value} {tok(r.runner_id)}"
                    except BaseException as e:  # noqa: BLE001
                        out = _classify(e)
                    cases.append((cur, owner, req, rid, out))
                    lines.append(f"st.step {cur.value if cur else '-'} {tok(owner)} {req.value} {tok(rid)}")
    outs = drv.ask_many(lines)
    ndis = 0
    for c, m in zip(cases, outs):
        ctx.count()
        ctx.distinct(("pure", str(c[0]), c[1], str(c[2]), c[3], c[4].split()[0]))
        if c[4] != m:
            ndis += 1
            if ndis <= 5:
                ctx.obligation("correspondence status_record_transition vs Pynenc.step", False,
                               f"cur={c[0]} owner={c[1]!r} req={c[2]} rid={c[3]!r}: impl={c[4]!r} model={m!r}")
            v = oracle(doc_edges, c[0].name if c[0] else None, c[1], c[2].name, c[3], c[4].split()[0] if c[4].startswith("ok") else c[4], None, None)
            if v:
                ctx.report(f"pure-step:{c[0]}:{c[1]}:{c[2]}:{c[3]}", v, {"kind": "pure", "cur": str(c[0]), "owner": c[1], "req": str(c[2]), "rid": c[3]})
    ctx.obligation("correspondence (i): status_record_transition == Pynenc.step on the full single-step space", ndis == 0,
                   f"{ndis} disagreements")
    # the oracle is evaluated on the implementation's own outcomes, whether or not the model agrees
    for cur, owner, req, rid, out in cases:
        v = oracle(doc_edges, cur.name if cur else None, owner, req.name, rid, "ok" if out.startswith("ok") else out, None, None)
        if v:
            ctx.report(f"pure-step:{cur}:{owner}:{req}:{rid}", v, {"kind": "pure", "cur": str(cur), "owner": owner, "req": str(req), "rid": rid})
    ctx.sample({"kind": "pure-step", "cur": "pending", "owner": "rA", "req": "running", "requester": "rB", "impl": "err ownership"})

    # ---- (ii) through the public call on both backends ------------------------------------------
    clock = VirtualClock().install()
    try:
        backs = [Backend("mem", ctx), Backend("sqlite", ctx), Backend("mem", ctx, nested=True), Backend("sqlite", ctx, nested=True)]
        owners2 = OWNERS if not ctx.quick else OWNERS
        reqrs2 = REQUESTERS if not ctx.quick else [None, "rA", "rB"]
        per_backend: dict[str, list] = {}
        for b in backs:
            inv = b.new_inv()
            res = []
            mlines = [f"orch.reset", f"orch.register {tok(inv)} {tok('c')} 0"]
            for cur in statuses:
                for owner in owners2:
                    for req in statuses:
                        for rid in reqrs2:
                            clock.advance(1000)
                            t0 = clock.us
                            inject_status(b.app, inv, cur, owner, t0)
                            clock.advance(1000)
                            if len(res) % 11 == 6:
                                clock.advance(3_600_000_000)   # the record is an HOUR old when it is read and the request arrives (far beyond every timeout): reading moves nothing
                            if len(res) % 5 == 3:
                                clock.advance(-5_001_000)      # the requester's clock is 5 s BEHIND the stored timestamp (hosts with skewed clocks, an NTP step back)
                            before = b.read(inv)
                            out = b.set(inv, req, rid)
                            after = b.read(inv)
                            if after is not None and (len(res) % 7 == 0 or out != "ok"):
                                ls = b.listed(inv)
                                if ls != [after[0]]:
                                    ctx.report(f"status-listing-disagrees-with-record[{b.label}]:{'refused' if out != 'ok' else 'accepted'}",
                                               f"[{b.label}] after the {'refused' if out != 'ok' else 'accepted'} request {cur.value}/{owner} -> {req.value} by {rid!r} the record says "
                                               f"{after[0]} but the status-filtered listing shows the invocation under {ls}",
                                               {"kind": "public-step", "backend": b.kind, "nested": b.nested, "cur": cur.value, "owner": owner, "req": req.value, "rid": rid})
                            res.append((cur, owner, req, rid, out, before, after))
                            ts_req = clock.us
                            if clock.us < t0:
                                clock.advance(t0 - clock.us + 2000)     # (the next step starts after this one again)
                            mlines += [f"orch.inject {tok(inv)} {cur.value} {tok(owner)} {t0}",
                                       f"orch.set {tok(inv)} {req.value} {tok(rid)} {ts_req}",
                                       f"orch.get {tok(inv)}"]
            flush(b.app)
            mouts = drv.ask_many(mlines)[2:]
            nd = 0
            for k, (cur, owner, req, rid, out, before, after) in enumerate(res):
                ctx.count()
                ctx.distinct((b.label, cur.value, owner, req.value, rid, out))
                m_set, m_get = mouts[3 * k + 1], mouts[3 * k + 2]
                i_get = f"{after[0]} {tok(after[1])} {after[2]}" if after else "err keyerror"
                i_set = out if out != "ok" else f"ok {i_get}"
                if (i_set, i_get) != (m_set, m_get):
                    nd += 1
                    if nd <= 5:
                        ctx.obligation(f"correspondence set_invocation_status[{b.label}] vs Orch.setStatus", False,
                                       f"cur={cur.value} owner={owner!r} req={req.value} rid={rid!r}: impl={i_set!r}/{i_get!r} model={m_set!r}/{m_get!r}")
                v = oracle(doc_edges, cur.name, owner, req.name, rid, out, before, after)
                if v:
                    ctx.report(f"step[{b.label}]:{cur.value}:{owner}:{req.value}:{rid}", f"[{b.label}] {v}",
                               {"kind": "public-step", "backend": b.kind, "nested": b.nested, "cur": cur.value, "owner": owner, "req": req.value, "rid": rid})
            ctx.obligation(f"correspondence (ii): set_invocation_status on {b.label} == Orch.setStatus ({len(res)} injected states x requests)",
                           nd == 0, f"{nd} disagreements")
            per_backend[b.label] = [(r[4], r[6][:2] if r[6] else None) for r in res]
        # backends identical
        for other in ("sqlite", "mem+workers-of-one-parent", "sqlite+workers-of-one-parent"):
            diff = [i for i, (a, c) in enumerate(zip(per_backend["mem"], per_backend[other])) if a != c]
            if diff:
                ctx.report(f"mem-vs-{other}:single-step", f"the in-memory orchestrator with plain runner contexts and [{other}] differ on {len(diff)} single steps, first index {diff[0]}",
                           {"kind": "backend-diff", "index": diff[0], "other": other})
        ctx.sample({"kind": "public-step", "backend": "sqlite", "cur": "running", "owner": "rA", "req": "success", "requester": "rA",
                    "impl": per_backend["sqlite"][0]})

        backs = backs[:2]
        # unknown id (no record at all)
        for req in statuses:
            outs_u = {}
            for b in backs:
                ghost = f"ghost-{req.value}"
                out = b.set(ghost, req, "rA")
                after = b.read(ghost)
                outs_u[b.kind] = (out, None if after is None else after[:2])
                ctx.count()
                if out == "ok" and req != S.REGISTERED:
                    ctx.report(f"unknown-id[{b.kind}]:{req.value}", f"[{b.kind}] unknown invocation accepted status {req.value} (must start at REGISTERED)",
                               {"kind": "unknown-id", "backend": b.kind, "req": req.value})
            if outs_u["mem"] != outs_u["sqlite"]:
                ctx.report(f"unknown-id:{'REGISTERED' if req == S.REGISTERED else 'other'}",
                           f"unknown invocation id, request {req.value}: in-memory gives {outs_u['mem']}, SQLite gives {outs_u['sqlite']}",
                           {"kind": "unknown-id", "req": req.value, "mem": outs_u["mem"], "sqlite": outs_u["sqlite"]})

        # driven (not injected) states: walk each witness path through public calls only and compare with injection-free model
        paths = {
            "concurrency_controlled": ["concurrency_controlled"], "concurrency_controlled_final": ["concurrency_controlled_final"],
            "pending": ["pending"], "rerouted": ["pending", "rerouted"], "pending_recovery": ["pending", "pending_recovery"],
            "running": ["pending", "running"], "running_recovery": ["pending", "running", "running_recovery"],
            "paused": ["pending", "running", "paused"], "resumed": ["pending", "running", "paused", "resumed"],
            "killed": ["pending", "killed"], "success": ["pending", "running", "success"],
            "failed": ["pending", "running", "failed"], "retry": ["pending", "running", "retry"],
        }
        for b in backs:
            nd = 0
            for target, path in paths.items():
                inv = b.new_inv()
                reg = b.read(inv)
                ml = [f"orch.register {tok(inv)} {tok(reg[1])} {reg[2]}"]
                seq = []
                for stp in path:
                    clock.advance(1000)
                    out = b.set(inv, S(stp), "rA")
                    after = b.read(inv)
                    seq.append((out, after))
                    ml += [f"orch.set {tok(inv)} {stp} {tok('rA')} {clock.us}"]
                mo = drv.ask_many(ml)[1:]
                for (out, after), m in zip(seq, mo):
                    ctx.count()
                    i = f"ok {after[0]} {tok(after[1])} {after[2]}" if out == "ok" else out
                    if i != m:
                        nd += 1
                        ctx.obligation(f"correspondence driven path[{b.kind}] to {target}", False, f"impl={i!r} model={m!r}")
                if seq[-1][1][0] != target:
                    ctx.report(f"unreachable[{b.kind}]:{target}", f"[{b.kind}] status {target} not reachable by its documented path {path}", {"kind": "path", "path": path})
            flush(b.app)
            ctx.obligation(f"correspondence: 13 statuses driven by public calls on {b.kind}", nd == 0)

        # ---- (iii) sequences -----------------------------------------------------------------------
        alpha = [(S.PENDING, "rA"), (S.PENDING, "rB"), (S.RUNNING, "rA"), (S.RUNNING, "rB"), (S.KILLED, "rA"),
                 (S.REROUTED, "rA"), (S.RETRY, "rA"), (S.SUCCESS, "rA"), (S.PENDING_RECOVERY, "rB"),
                 (S.RUNNING_RECOVERY, "rB"), (S.CONCURRENCY_CONTROLLED, "rB"), (S.REGISTERED, "rA")]
        L = 3 if ctx.quick else 4
        seqs = [list(s) for s in itertools.product(alpha[:8] if ctx.quick else alpha[:10], repeat=L)]
        nrand = 40 if ctx.quick else 400
        allreq = [(s, r) for s in statuses for r in [None, "rA", "rB"]]
        for _ in range(nrand):
            n = ctx.rng.randint(20, 60 if ctx.quick else 300)
            # bias towards legal continuations so that long sequences make progress
            seqs.append([ctx.rng.choice(alpha if ctx.rng.random() < 0.7 else allreq) for _ in range(n)])
        for b in backs:
            use = seqs if b.kind == "mem" else (seqs[:: (8 if ctx.quick else 4)] + seqs[-nrand // 4:])
            nd = 0
            ml_all, impl_all, meta = [], [], []
            for sq in use:
                inv = b.new_inv()
                reg = b.read(inv)
                ml_all.append(f"orch.register {tok(inv)} {tok(reg[1])} {reg[2]}")
                impl_all.append("ok")
                meta.append(None)
                prev = reg
                for (st, rid) in sq:
                    clock.advance(1000)
                    out = b.set(inv, st, rid)
                    after = b.read(inv)
                    ml_all.append(f"orch.set {tok(inv)} {st.value} {tok(rid)} {clock.us}")
                    impl_all.append(f"ok {after[0]} {tok(after[1])} {after[2]}" if out == "ok" else out)
                    meta.append((sq, st, rid))
                    v = oracle(doc_edges, S(prev[0]).name, prev[1], st.name, rid, out, prev, after)
                    if v:
                        ctx.report(f"seq-step[{b.kind}]:{prev[0]}:{prev[1]}:{st.value}:{rid}", f"[{b.kind}] in a request sequence: {v}",
                                   {"kind": "sequence", "backend": b.kind, "sequence": [(s.value, r) for s, r in sq]})
                    prev = after
                ctx.distinct((b.kind, tuple((s.value, r) for s, r in sq)))
            flush(b.app)
            mo = drv.ask_many(ml_all)
            for i, m, mt in zip(impl_all, mo, meta):
                ctx.count()
                if i != m:
                    nd += 1
                    if nd <= 3:
                        ctx.obligation(f"correspondence sequences[{b.kind}]", False, f"impl={i!r} model={m!r} at {mt and (mt[1].value, mt[2])}")
            ctx.obligation(f"correspondence (iii): {len(use)} request sequences on {b.kind} == model", nd == 0, f"{nd} disagreements")
            ctx.notes[f"sequences_{b.kind}"] = len(use)
        ctx.sample({"kind": "sequence", "requests": [(s.value, r) for s, r in seqs[-1][:12]]})
    finally:
        clock.uninstall()
        drv.close()
    scans_during_a_transition(ctx)
    ctx.cov["exhaustive"] = True
    ctx.assumptions += [
        "states not reachable with a chosen owner by public calls are injected into the backend's store (flagged injected); 13 statuses are also driven by public calls",
        "runner ids are sampled from {None,'', 'rA','rB'} in the correspondence; the theorems quantify over all strings",
    ]
    if not ctx.quick:
        thorough_rebuild(ctx)


def replay(data: dict) -> int:
    from harness.common import replay_by_rerun

    return replay_by_rerun("C01", run, data)
