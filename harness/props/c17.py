"""C17 — applications with different ids are fully isolated, for any id string.

Lean:  Model/Sanitize.lean + Props/C17.lean over Gen/TableNames.lean (component / table / index templates and the
       storage objects named by the SQL of a probe application — regenerated from the running code on every run).
Tie:   (a) `sanitize_table_prefix` and every `Tables` class vs the Lean driver on adversarial ids (the 8 hex digits are
           computed here with hashlib and handed to the model: SHA-256 is a parameter of the model);
       (b) the model's SQLite behaviours vs a real `sqlite3`: LIKE, table-name resolution (ASCII case folding),
           reserved names, and both purge helpers (`delete_tables`, legacy `delete_tables_with_prefix`) on scratch files;
       (c) the hypothesis of `stemWith_eq_stem` (`str.isdigit` agrees with [0-9] on [a-zA-Z0-9_]) vs CPython.
Search (independent of the model): (i) names: every prefix / table name matches [A-Za-z_][A-Za-z0-9_]*, carries the
       SHA-256 suffix, table-name sets of different ids are disjoint case-insensitively, every id yields a usable
       SQLite application; (ii) 2–3 real applications with adversarial ids sharing ONE SQLite file (and, separately,
       in-memory applications in one process) run interleaved operations incl. purge of every component; after every
       operation of application A the complete read-out of every other application (public API + raw storage) must be
       unchanged, every SQL statement issued for A (sqlite3 trace callback) must name only A's tables/indexes, and A's
       read-out must not contain another application's invocation ids.
"""
from __future__ import annotations

import importlib
import json
import os
import shutil
import sqlite3
import tempfile
import time

from harness.c17lib import (COMPONENT_ATTRS, IDENT, Handle, Tracer, encodable, gen_groups, gen_ids, own_prefix, sha8,
                            sql_idents, variants)
from harness.common import Ctx, LeanDriver, lean_stage, thorough_rebuild, tok
from harness.translate import tables as tr

THEOREMS = [
    "stemWith_eq_stem", "sanitize_identifier_safe", "table_names_identifier_safe", "keep_not_meta", "table_names_distinct",
    "apps_disjoint", "pairs_nodup", "purge_touches_only_own", "purge_is_by_exact_names", "purge_keeps_tables", "exact_purge_isolated",
    "like_prefix_self", "prefix_purge_hits_other_app", "prefix_purge_not_isolated", "index_name_not_a_table",
    "ops_touch_only_own_tables", "reserved_iff_stem", "never_reserved", "old_scheme_reserved",
]

SQLITE_ERRORS = {"OperationalError", "ProgrammingError", "IntegrityError", "DatabaseError", "InterfaceError", "InternalError",
                 "NotSupportedError", "DataError", "Warning"}
PURGES = ["purge_broker", "purge_orchestrator", "purge_state_backend", "purge_trigger", "purge_client_data_store", "purge_app"]
PREAMBLE = ["route", "route", "route_inside", "route_keyed", "retrieve", "set_status", "set_status", "sb_result", "sb_exception", "heartbeat",
            "store_rctx", "wf_data", "wait", "cds_store", "reg_trigger", "emit", "cron", "claim", "cron_tick"]


def tables_classes():
    return [(attr, importlib.import_module(mod).Tables) for mod, attr in tr.TABLES_CLASSES]


def impl_tables(app_id: str) -> tuple[str, list[str]]:
    """(canonical string in the driver's format, flat list of names) from the real `Tables` classes"""
    from pynenc.util.sqlite_utils import sanitize_table_prefix

    pref = sanitize_table_prefix(app_id)
    parts, flat = [], []
    for _attr, cls in tables_classes():
        t = cls(app_id)
        label = t.table_prefix[len(pref) + 2:] if t.table_prefix.startswith(pref + "__") else "?" + t.table_prefix
        names = t.all_table_names()
        parts.append(label + "=" + ",".join(names))
        flat += names
    return ";".join(parts), flat


def usable(app_id: str) -> bool:
    """ids an application can be built with (everything `str.encode()` accepts; ids whose sanitised form starts with
    `sqlite_` included since commit c2764ff — `check_usable` and the scenarios exercise them)"""
    return encodable(app_id)


# ------------------------------------------------------------------------------------------------
# (a) + (i): the sanitiser and the table names
# ------------------------------------------------------------------------------------------------


def names_stage(ctx: Ctx, drv: LeanDriver) -> list[str]:
    from pynenc.util.sqlite_utils import sanitize_table_prefix

    ids = gen_ids(ctx.rng, 120 if ctx.quick else 600)
    for b in list(ids[: 40 if ctx.quick else 200]):
        ids += variants(ctx.rng, b)
    ids = ["\ud800", "a\udfffb"] + ids  # not encodable: the real code must refuse them (the model's strings are scalar values only)
    seen: set[str] = set()
    ids = [i for i in ids if not (i in seen or seen.add(i))]
    cap = 1500 if ctx.quick else 12000
    ids = ids[:cap]

    lines, impl, meta = [], [], []
    n_unenc = 0
    for i in ids:
        if not encodable(i):
            try:
                sanitize_table_prefix(i)
                ctx.report("unencodable-id-accepted", f"id {i!r} cannot be UTF-8 encoded but sanitize_table_prefix accepted it", {"kind": "names", "ids": [i]})
            except UnicodeEncodeError:
                n_unenc += 1
            continue
        try:
            p = sanitize_table_prefix(i)
            tstr, flat = impl_tables(i)
        except BaseException as e:  # noqa: BLE001
            ctx.report(f"sanitize-raises:{type(e).__name__}", f"sanitize_table_prefix / Tables raised {e!r} for id {i!r}", {"kind": "names", "ids": [i]})
            continue
        h = sha8(i)
        lines += [f"san.prefix {tok(i)} {h}", f"san.tables {tok(i)} {h}"]
        impl += [p, tstr]
        meta += [i, i]
        ctx.count(2)
        ctx.distinct(("id", i))
        # ---- property on the implementation's own output
        if not IDENT.match(p):
            ctx.report("prefix-not-identifier", f"sanitize_table_prefix({i!r}) = {p!r} is not a plain SQL identifier [A-Za-z_][A-Za-z0-9_]*",
                       {"kind": "names", "ids": [i]})
        if not p.endswith("_" + h):
            ctx.report("prefix-without-hash", f"sanitize_table_prefix({i!r}) = {p!r} does not end with the SHA-256 prefix _{h}", {"kind": "names", "ids": [i]})
        bad = [n for n in flat if not IDENT.match(n)]
        if bad:
            ctx.report("table-name-not-identifier", f"id {i!r}: table name {bad[0]!r} is not a plain SQL identifier", {"kind": "names", "ids": [i]})
        if len({n.lower() for n in flat}) != len(flat):
            ctx.report("components-share-table", f"id {i!r}: two tables of one application have the same name {sorted(flat)}", {"kind": "names", "ids": [i]})
    outs = drv.ask_many(lines)
    nd = 0
    first = None
    for ln, a, m, i in zip(lines, impl, outs, meta):
        if a != m:
            nd += 1
            first = first or f"id={i!r}: impl={a[:90]!r} model={m[:90]!r}"
    ctx.obligation(f"correspondence (a): sanitize_table_prefix and the 5 Tables classes == Lean model on {len(lines) // 2} adversarial ids",
                   nd == 0, f"{nd} disagreements, first {first}")
    ctx.notes["ids"] = len(lines) // 2
    ctx.notes["unencodable_ids_refused"] = n_unenc
    ctx.sample({"id": "my-app", "impl": sanitize_table_prefix("my-app"), "model": drv.ask(f"san.prefix {tok('my-app')} {sha8('my-app')}")})

    # hypothesis of stemWith_eq_stem
    cls = [chr(c) for c in range(128)]
    badc = [c for c in cls if c.isdigit() != (c in "0123456789")]
    ctx.obligation("assumption check: str.isdigit agrees with [0-9] on every ASCII character (hypothesis of stemWith_eq_stem)", not badc, repr(badc))

    # ---- pairwise disjointness of table-name sets
    groups = gen_groups(ctx.rng, 300 if ctx.quick else 3000, 2)
    for a, b in groups:
        try:
            ta = {n.lower() for n in impl_tables(a)[1]}
            tb = {n.lower() for n in impl_tables(b)[1]}
        except BaseException:  # noqa: BLE001
            continue
        ctx.count()
        ctx.distinct(("pair", a, b))
        if ta & tb:
            sig = "sha8-collision" if sha8(a) == sha8(b) else "name-collision"
            ctx.report(sig, f"different ids {a!r} and {b!r} share the table {sorted(ta & tb)[0]!r}", {"kind": "names", "ids": [a, b]})
    ctx.notes["pairs_checked"] = len(groups)
    return [i for i in ids if encodable(i)]


def check_usable(ctx: Ctx, ids: list[str]) -> None:
    """every id must yield an application whose five SQLite components can be built and used"""
    n = 0
    for i in ids:
        d = tempfile.mkdtemp(dir=ctx.tmp)
        try:
            h = Handle("sqlite", d, i, os.path.join(d, "u.db"))
            r1 = h.do("route", 1)
            r2 = h.do("count")
            ok = r1 == "inv#0" and r2 == "1"
            why = f"route -> {r1}, count -> {r2}"
        except BaseException as e:  # noqa: BLE001
            ok = False
            why = f"{type(e).__name__}: {e}"
        finally:
            shutil.rmtree(d, ignore_errors=True)
        n += 1
        ctx.count()
        if not ok:
            sig = "unusable-id:sqlite-reserved-name" if "reserved for internal use" in why else f"unusable-id:{why.split(':')[0]}"
            ctx.report(sig, f"an application with id {i!r} cannot use the SQLite backend: {why[:200]}", {"kind": "usable", "id": i})
    ctx.notes["ids_built_as_sqlite_apps"] = n


# ------------------------------------------------------------------------------------------------
# (b) the model's SQLite behaviours vs a real sqlite3
# ------------------------------------------------------------------------------------------------


def sqlite_stage(ctx: Ctx, drv: LeanDriver, ids: list[str]) -> None:
    from pynenc.util import sqlite_utils as su

    rng = ctx.rng
    con = sqlite3.connect(":memory:")
    # ---- LIKE
    alpha = list("abAB_%1") + ["é", "É", "日", "_", "%", "x"]
    cases: list[tuple[str, str]] = []
    for _ in range(1500 if ctx.quick else 15000):
        p = "".join(rng.choice(alpha) for _ in range(rng.randint(0, 6)))
        s = "".join(rng.choice(alpha) for _ in range(rng.randint(0, 7)))
        cases.append((p, s))
    real_ids = [i for i in ids if usable(i)]
    for _ in range(300 if ctx.quick else 3000):
        a, b = rng.choice(real_ids), rng.choice(real_ids)
        if rng.random() < 0.5:
            b = rng.choice(variants(rng, a))
            if not usable(b):
                continue
        pa = own_prefix(a) + "__" + rng.choice(["broker", "orchestrator", "state_backend", "trg", "client"])
        cases.append((pa + "%", rng.choice(impl_tables(b)[1])))
    lines = [f"san.like {tok(p)} {tok(s)}" for p, s in cases]
    impl = ["true" if con.execute("SELECT ? LIKE ?", (s, p)).fetchone()[0] else "false" for p, s in cases]
    outs = drv.ask_many(lines)
    nd = [(c, i, m) for c, i, m in zip(cases, impl, outs) if i != m]
    ctx.count(len(cases))
    ctx.obligation(f"correspondence (b1): Lean LIKE == sqlite3 LIKE on {len(cases)} (pattern, string) pairs", not nd, f"{len(nd)} disagreements, first {nd[:1]}")
    ctx.notes["like_true"] = impl.count("true")

    # ---- table-name resolution and reserved names
    names = []
    for _ in range(250 if ctx.quick else 2500):
        n = "".join(rng.choice(list("abAB_1zZ") + ["é", "É"]) for _ in range(rng.randint(1, 5)))
        names.append(n)
    names += ["sqlite_x", "SQLITE_y", "sqlite", "sqlit_e1", "Sqlite_1_ab", "_sqlite_", "sqlite_", "sqlitE_Zz"] + [own_prefix(i) + "__broker_message_queue" for i in ["sqlite", "SQLite-app", "sqlit", "a"]]
    lines, impl = [], []
    for n in names:
        v = rng.choice([n.upper(), n.lower(), n.swapcase(), n, n + "x", n[:-1] or "q"])
        c2 = sqlite3.connect(":memory:")
        try:
            c2.execute(f'CREATE TABLE "{n}" (x)')
            created = True
        except sqlite3.OperationalError as e:
            created = False
            reserved = "reserved" in str(e)
        lines.append(f"san.reserved {tok(n)}")
        impl.append("false" if created else ("true" if reserved else "error"))
        if created:
            try:
                c2.execute(f'SELECT count(*) FROM "{v}"')
                same = True
            except sqlite3.OperationalError:
                same = False
            lines.append(f"san.ieq {tok(n)} {tok(v)}")
            impl.append("true" if same else "false")
        c2.close()
    outs = drv.ask_many(lines)
    nd = [(ln, i, m) for ln, i, m in zip(lines, impl, outs) if i != m]
    ctx.count(len(lines))
    ctx.obligation(f"correspondence (b2): Lean name comparison / reserved names == sqlite3 on {len(lines)} cases", not nd, f"{len(nd)} disagreements, first {nd[:1]}")

    # ---- both purge helpers on scratch files
    groups = gen_groups(rng, 10 if ctx.quick else 80, 3)
    groups = [("a", own_prefix("a") + "__broker", "A")] + [g for g in groups if all(usable(x) for x in g)]
    lines, impl, meta = [], [], []
    labels = [c for _a, c, _s in tr.templates()[0]]
    for g in groups:
        path = os.path.join(ctx.tmp, f"purge-{len(lines)}.db")
        c3 = sqlite3.connect(path)
        allnames: list[str] = []
        for x in g:
            for n in impl_tables(x)[1]:
                if n.lower() not in {m.lower() for m in allnames} and rng.random() < 0.9:
                    allnames.append(n)
        for n in list(allnames):
            try:
                c3.execute(f'CREATE TABLE "{n}" (x)')
            except sqlite3.OperationalError as e:  # a name SQLite itself refuses: the scheme is broken for this id
                allnames.remove(n)
                owner = next((x for x in g if n in impl_tables(x)[1]), g[0])
                sig = "unusable-id:sqlite-reserved-name" if "reserved for internal use" in str(e) else "table-name-refused-by-sqlite"
                ctx.report(sig, f"SQLite refuses the table name {n!r} of application {owner!r}: {e}", {"kind": "usable", "id": owner})
        c3.commit()

        def fill():
            for n in allnames:
                c3.execute(f'DELETE FROM "{n}"')
                c3.execute(f'INSERT INTO "{n}" VALUES (1)')
            c3.commit()

        def emptied():
            e = [n for n in allnames if c3.execute(f'SELECT count(*) FROM "{n}"').fetchone()[0] == 0]
            return ",".join(e) or "-"

        ttok = ",".join(tok(n) for n in allnames) or "-"
        for (attr, cls), label in zip(tables_classes(), labels):
            t = cls(g[0])
            for mode in ("exact", "like"):
                fill()
                try:
                    if mode == "exact":
                        su.delete_tables(path, t.all_table_names())
                    else:
                        su.delete_tables_with_prefix(path, t.table_prefix)
                    res = emptied()
                except BaseException as e:  # noqa: BLE001
                    res = f"error:{type(e).__name__}"
                    if mode == "exact":
                        ctx.report(f"purge-raises:{type(e).__name__}", f"delete_tables for the {attr} tables of application {g[0]!r} raised {e!r}"[:300],
                                   {"kind": "names", "ids": [g[0]]})
                lines.append(f"san.purge exact {tok(g[0])} {sha8(g[0])} {label} {ttok}" if mode == "exact" else f"san.purge like {tok(t.table_prefix)} {ttok}")
                impl.append(res)
                meta.append((g, attr, mode))
        c3.close()
    outs = drv.ask_many(lines)
    nd = [(mt, i, m) for mt, i, m in zip(meta, impl, outs) if i != m]
    ctx.count(len(lines))
    ctx.obligation(f"correspondence (b3): Lean purgeExact / purgeLike == delete_tables / delete_tables_with_prefix on {len(lines)} scratch databases",
                   not nd, f"{len(nd)} disagreements, first {nd[:1]}")
    # how often the legacy helper would have crossed an application boundary (information only: it is no longer called)
    ctx.notes["legacy_prefix_purge_crossings"] = sum(
        1 for (g, attr, k), i in zip(meta, impl) if k == "like" and any(n.lower() not in {m.lower() for m in impl_tables(g[0])[1]} for n in i.split(",") if n != "-"))
    con.close()


# ------------------------------------------------------------------------------------------------
# (ii) real applications side by side
# ------------------------------------------------------------------------------------------------


def diff(a, b, path="") -> str:
    if type(a) is not type(b):
        return f"{path}: {str(a)[:80]} -> {str(b)[:80]}"
    if isinstance(a, dict):
        for k in sorted(set(a) | set(b), key=str):
            if a.get(k) != b.get(k):
                return diff(a.get(k), b.get(k), f"{path}/{k}")
    if isinstance(a, list) and len(a) == len(b):
        for k, (x, y) in enumerate(zip(a, b)):
            if x != y:
                return diff(x, y, f"{path}[{k}]")
    return f"{path}: {str(a)[:80]} -> {str(b)[:80]}"


def run_scenario(kind: str, ids: list[str], steps: list[tuple[int, str, int]], tmp: str, full_every: bool = True,
                 report=None, stats: dict | None = None, solo: bool = True) -> list[dict]:
    """Build one application per id (SQLite: all on one file), run the preamble on each, then the steps.
    Returns the violations found (dicts with signature / what)."""
    found: list[dict] = []

    def rep(sig: str, what: str, upto: int) -> None:
        v = {"signature": sig, "what": what, "replay": {"kind": "scenario", "backend": kind, "ids": ids, "steps": steps[: upto + 1]}}
        found.append(v)
        if report:
            report(v)

    d = tempfile.mkdtemp(dir=tmp)
    db = os.path.join(d, "shared.db") if kind == "sqlite" else None
    tracer = Tracer().install() if kind == "sqlite" else None
    try:
        try:
            hs = [Handle(kind, d, i, db, tracer) for i in ids]
        except BaseException as e:  # noqa: BLE001
            rep(f"cannot-build[{kind}]:{type(e).__name__}", f"[{kind}] applications {ids!r} cannot be built side by side: {e!r}"[:300], -1)
            return found
        own = [{n.lower() for n in h.table_names()} for h in hs]
        for n_, h_ in enumerate(hs):
            h_.neighbour = hs[(n_ + 1) % len(hs)] if len(hs) > 1 else None

        index = {i: n for n, i in enumerate(ids)}

        def check_trace(op: str, step: int) -> None:
            """every statement logged since the last call, judged against the tables of the application it was issued for"""
            if tracer is None:
                return
            for actor, sql in tracer.take():
                k = index[actor]
                others = set().union(*[own[j] for j in range(len(hs)) if j != k]) - own[k]
                if stats is not None:
                    stats["statements"] = stats.get("statements", 0) + 1
                for t in sql_idents(sql):
                    tl = t.lower()
                    if tl in own[k]:
                        continue
                    bad = None
                    if tl in others:
                        bad = f"names table {t!r} of another application"
                    elif "__" in tl and not any(tl.startswith("idx_" + n + "_") for n in own[k]):
                        bad = f"names storage object {t!r} that is not one of its own tables / indexes"
                    if bad:
                        rep(f"foreign-statement[{kind}]:{op}", f"[{kind}] ids {ids!r}: during {op} on application {ids[k]!r} the statement "
                            f"{' '.join(sql.split())[:160]!r} {bad}", step)
                        return

        def snap(j: int, full: bool):
            api = hs[j].readout() if full else None  # first: reads may create lazily built helper objects
            return {"raw": hs[j].raw(), "api": api}

        def inv_ids(j: int) -> set[str]:
            return set(hs[j].inv_ids())

        outs: list[list[tuple[str, int, str]]] = [[] for _ in hs]
        for k, h in enumerate(hs):
            for n, op in enumerate(PREAMBLE):
                r = h.do(op, 3 * n + k)
                outs[k].append((op, 3 * n + k, r))
                if r.startswith("err:") and r[4:] in SQLITE_ERRORS:
                    rep(f"storage-error[{kind}]:{op}:{r[4:]}", f"[{kind}] ids {ids!r}: {op} on {ids[k]!r} failed with {r[4:]} while setting up", -1)
        snaps = [snap(j, True) for j in range(len(hs))]
        check_trace("setup", -1)
        for step, (k, op, arg) in enumerate(steps):
            h = hs[k]
            out = h.do(op, arg)
            outs[k].append((op, arg, out))
            if stats is not None:
                stats["steps"] = stats.get("steps", 0) + 1
                stats.setdefault("ops", {}).setdefault(op, 0)
                stats["ops"][op] += 1
            if out.startswith("err:") and out[4:] in SQLITE_ERRORS:
                rep(f"storage-error[{kind}]:{op}:{out[4:]}", f"[{kind}] ids {ids!r}: {op} on application {ids[k]!r} failed with {out[4:]}", step)
            if out.startswith("ineffective:"):
                rep(f"purge-leaves-own-data[{kind}]:{op}", f"[{kind}] ids {ids!r}: {op} on application {ids[k]!r} returned normally but its own data is still there ({out[12:]})", step)
            if out.startswith("unknown:"):
                rep(f"observed-foreign[{kind}]:{op}", f"[{kind}] ids {ids!r}: {op} on application {ids[k]!r} returned invocation {out[8:]} that it never created", step)
            full = full_every or op.startswith("purge")
            for j in range(len(hs)):
                new = snap(j, full or j == k)
                if j != k:
                    old = snaps[j]
                    if new["raw"] != old["raw"]:
                        rep(f"interference[{kind}]:{op}", f"[{kind}] ids {ids!r}: {op} on application {ids[k]!r} changed the stored data of application "
                            f"{ids[j]!r}: {diff(old['raw'], new['raw'])}", step)
                    elif new["api"] is not None and old["api"] is not None and new["api"] != old["api"]:
                        rep(f"interference[{kind}]:{op}", f"[{kind}] ids {ids!r}: {op} on application {ids[k]!r} changed what application {ids[j]!r} "
                            f"observes: {diff(old['api'], new['api'])}", step)
                    if new["api"] is None:
                        new["api"] = old["api"]
                else:
                    foreign = set().union(*[inv_ids(x) for x in range(len(hs)) if x != k]) - inv_ids(k)
                    seen = h.strings(new["api"]) & foreign
                    if seen:
                        rep(f"observed-foreign[{kind}]:{op}", f"[{kind}] ids {ids!r}: after {op} application {ids[k]!r} observes invocation "
                            f"{sorted(seen)[0]} of another application", step)
                snaps[j] = new
            check_trace(op, step)
            if found:
                break
        # ---- the presence of the other applications changes nothing for an application: replayed ALONE (its own operations only,
        #      a fresh store), every one of its operations answers the same
        if solo and not found:
            if tracer:
                tracer.uninstall()
            for k, i in enumerate(ids):
                d2 = tempfile.mkdtemp(dir=tmp)
                try:
                    h2 = Handle(kind, d2, i, os.path.join(d2, "solo.db") if kind == "sqlite" else None, None)
                    for n, (op, arg, together) in enumerate(outs[k]):
                        alone = h2.do(op, arg)
                        if stats is not None:
                            stats["solo_ops"] = stats.get("solo_ops", 0) + 1
                        if alone != together:
                            rep(f"presence-changes-behaviour[{kind}]:{op}", f"[{kind}] ids {ids!r}: operation #{n} ({op} {arg}) of application {i!r} answers {together!r} when the other "
                                f"applications share the {'database file' if kind == 'sqlite' else 'process'} and {alone!r} when it runs alone with the same history", len(steps) - 1)
                            break
                except BaseException as e:  # noqa: BLE001
                    if stats is not None:
                        stats.setdefault("solo_errors", []).append(f"{type(e).__name__}: {e}"[:120])
                finally:
                    shutil.rmtree(d2, ignore_errors=True)
                if found:
                    break
        return found
    finally:
        if tracer:
            tracer.uninstall()
        shutil.rmtree(d, ignore_errors=True)


def make_steps(rng, napps: int, n: int, purger: int | None = 0) -> list[tuple[int, str, int]]:
    normal = [op for op in Handle.OPS if not op.startswith("purge")]
    steps = [(rng.randrange(napps), rng.choice(normal), rng.randrange(1000)) for _ in range(n)]
    for p in PURGES:
        k = purger if purger is not None else rng.randrange(napps)
        steps.insert(rng.randrange(len(steps) + 1), (k, p, 0))
        # something to destroy again afterwards
        steps.insert(rng.randrange(len(steps) + 1), (rng.randrange(napps), rng.choice(["route", "cds_store", "emit", "sb_result"]), rng.randrange(1000)))
    return steps


def fixed_groups() -> list[tuple[str, ...]]:
    g: list[tuple[str, ...]] = []
    for base, comp in [("a", "broker"), ("app", "orchestrator"), ("my-app", "state_backend"), ("A", "trg"), ("", "client")]:
        p = own_prefix(base) + "__" + comp
        g.append((base, p))
    g += [("my-app", "my_app", "MY-APP"), ("app", "App", "APP"), ("ab", "a_", "a%"), ("1app", "_1app"), ("", "_default", " "),
          ("a", "idx_" + own_prefix("a") + "__broker_message_queue"), ("x'; DROP TABLE y;--", 'x"; DROP TABLE y;--'),
          ("a", own_prefix("a")), ("٣", "3", "_3"), ("a_b", "a__b", "a_b_"), ("sqlite", "_sqlite", "SQLite"),
          ("sqlite.db", own_prefix("sqlite.db") + "__broker"),
          # different strings that Unicode calls compatible / canonically equivalent (superscripts, full-width letters and digits, circled
          # digits, composed vs decomposed accents): still different application ids
          ("shop\u00b2", "shop2"), ("\uff41pp", "app"), ("tenant\u2460", "tenant1"), ("caf\u00e9", "cafe\u0301"), ("\uff13", "3", "\u00b3")]
    return g


def scenario_stage(ctx: Ctx) -> None:
    rng = ctx.rng
    stats: dict = {}
    fixed = fixed_groups()
    rnd3 = [g for g in gen_groups(rng, 40 if ctx.quick else 400, 3) if all(usable(x) for x in g)]
    rnd2 = [g for g in gen_groups(rng, 40 if ctx.quick else 400, 2) if all(usable(x) for x in g)]
    n_fixed = len(fixed)
    plan: list[tuple[str, tuple[str, ...], int, bool]] = []
    for g in fixed:
        plan.append(("sqlite", g, 8 if ctx.quick else 30, not ctx.quick))
    k_sql = 4 if ctx.quick else 20
    for g in rnd3[:k_sql] + rnd2[:k_sql]:
        plan.append(("sqlite", g, 14 if ctx.quick else 40, not ctx.quick))
    for g in fixed + rnd3[: 10 if ctx.quick else 150] + rnd2[: 10 if ctx.quick else 150]:
        plan.append(("mem", g, 20 if ctx.quick else 60, True))
    nrun = {"sqlite": 0, "mem": 0}
    tkind = {"sqlite": 0.0, "mem": 0.0}
    for kind, g, n, full in plan:
        steps = make_steps(rng, len(g), n, purger=0 if g in fixed else None)
        t1 = time.time()
        run_scenario(kind, list(g), steps, ctx.tmp, full_every=full, stats=stats,
                     report=lambda v: ctx.report(v["signature"], v["what"], v["replay"]))
        tkind[kind] += time.time() - t1
        nrun[kind] += 1
        ctx.count(len(steps))
        for (k, op, _a) in steps:
            ctx.distinct((kind, g, op, k))
    ctx.notes["scenarios"] = nrun
    ctx.notes["t_scenarios_by_backend_s"] = {k: round(v, 1) for k, v in tkind.items()}
    ctx.notes["scenario_steps"] = stats.get("steps", 0)
    ctx.notes["sql_statements_checked"] = stats.get("statements", 0)
    ctx.notes["ops_histogram"] = stats.get("ops", {})
    ctx.notes["fixed_groups"] = n_fixed
    ctx.sample({"scenario": "sqlite, one file", "ids": list(fixed[0]), "purges": PURGES})
    ctx.sample({"scenario": "random triple", "ids": list(rnd3[0]) if rnd3 else None})


def from_info_stage(ctx: Ctx) -> None:
    """operator tooling re-creates applications from their stored AppInfo (`Pynenc.from_info`: monitor, CLI).  One code base deployed
    for several tenants stores, for EVERY tenant, the same module and variable name; in a process where that variable holds tenant
    A, the handle made from the AppInfo of tenant B must still be B - and what is done through it must reach B only."""
    import dataclasses
    import sys as _sys
    import types

    from pynenc import Pynenc
    from pynenc.app_info import AppInfo

    groups = [g for g in fixed_groups() if all(usable(x) for x in g)][: 6 if ctx.quick else 40]
    modname = "c17_tenant_module"
    for g in groups:
        a_id, b_id = g[0], g[1]
        d = tempfile.mkdtemp(dir=ctx.tmp)
        db = os.path.join(d, "shared.db")
        try:
            ha, hb = Handle("sqlite", d, a_id, db, None), Handle("sqlite", d, b_id, db, None)
            for h in (ha, hb):
                h.do("route", 1)
            hb.do("route", 2)
            mod = types.ModuleType(modname)
            mod.__file__ = os.path.join(d, modname + ".py")
            open(mod.__file__, "w").write("# tenant module\n")
            mod.app = ha.app                                   # this process runs as tenant A
            _sys.modules[modname] = mod
            try:
                info_b = dataclasses.replace(AppInfo.from_app(hb.app), module=modname, module_filepath=mod.__file__, app_variable="app")
                got = Pynenc.from_info(info_b)
                ctx.count()
                ctx.distinct(("from-info", a_id, b_id))
                rep = {"kind": "from-info", "ids": [a_id, b_id]}
                if got.app_id != b_id:
                    ctx.report("from-info-returns-other-application", f"Pynenc.from_info(AppInfo of {b_id!r}) in a process whose module variable holds {a_id!r} returned the application {got.app_id!r}", rep)
                    continue
                na, nb_ = ha.app.broker.count_invocations(), hb.app.broker.count_invocations()
                seen = got.broker.count_invocations()
                if seen != nb_:
                    ctx.report("from-info-handle-sees-other-queue", f"the handle made from the AppInfo of {b_id!r} counts {seen} queued invocations; {b_id!r} has {nb_}, {a_id!r} has {na}", rep)
                got.broker.purge()
                if ha.app.broker.count_invocations() != na:
                    ctx.report("from-info-handle-purges-other", f"purging the broker through the handle of {b_id!r} emptied the queue of {a_id!r}", rep)
            finally:
                _sys.modules.pop(modname, None)
        finally:
            shutil.rmtree(d, ignore_errors=True)


def housekeeping_in_a_shared_thread_stage(ctx: Ctx) -> None:
    """two applications with look-alike ids in ONE process, served by one thread in turn (a worker pool shared by the tenants of a
    process, a test runner, a notebook): the thread runs an ordinary invocation of B, then A's own housekeeping task
    (`recover_pending_invocations`, launched and run as the invocation it is).  A's housekeeping recovers A's stuck work and
    leaves B's alone - whichever application the thread served last."""
    import threading as _th

    from pynenc.invocation.status import InvocationStatus as S

    from harness import tasks as T
    from harness.apps import flush, inject_status, make_app, rctx

    n = 0
    for kind in ("mem", "sqlite"):
        for ida, idb in (("tenant.a", "tenant_a"), ("x", "x ")):
            out: dict = {}

            def scenario() -> None:
                db = os.path.join(ctx.tmp, f"c17hk{kind}{abs(hash((ida, idb))) % 10**6}.db")
                a = make_app(kind, ctx.tmp, app_id=ida, db=db if kind == "sqlite" else None, max_pending_seconds=1.0)
                b = make_app(kind, ctx.tmp, app_id=idb, db=db if kind == "sqlite" else None, max_pending_seconds=1.0)
                ta, tb = a.task(T.add), b.task(T.add)
                a.register_core_tasks()
                b.register_core_tasks()
                rec_a = next(t for tid, t in a.tasks.items() if tid.func_name == "recover_pending_invocations")
                ca, cb = rctx("worker-a"), rctx("worker-b")
                stuck_a, stuck_b = ta(1, 1).invocation_id, tb(1, 1).invocation_id
                for app_, i, c in ((a, stuck_a, ca), (b, stuck_b, cb)):
                    got = [g.invocation_id for g in app_.orchestrator.get_invocations_to_run(1, c)]
                    assert got == [i], got
                    inject_status(app_, i, S.PENDING, c.runner_id, 0)           # claimed long ago
                # the thread serves B ...
                tb(10, 2)
                for inv in app_invs(b, cb):
                    inv.run(cb)
                # ... and then A's housekeeping
                rec_a()
                for inv in app_invs(a, ca):
                    inv.run(ca)
                flush(a)
                flush(b)
                out["a"] = a.orchestrator.get_invocation_status(stuck_a).value
                out["b"] = b.orchestrator.get_invocation_status(stuck_b).value
                out["hist_b"] = [h.status_record.status.value for h in b.state_backend.get_history(stuck_b)]

            def app_invs(app_, c):  # type: ignore[no-untyped-def]
                return list(app_.orchestrator.get_invocations_to_run(3, c))

            err = []

            def guarded() -> None:
                try:
                    scenario()
                except BaseException as e:  # noqa: BLE001
                    err.append(f"{type(e).__name__}: {str(e)[:160]}")

            th = _th.Thread(target=guarded)          # a fresh thread: nothing is "current" in it yet
            th.start()
            th.join(60)
            n += 1
            ctx.count()
            ctx.distinct((kind, "housekeeping-in-a-shared-thread", ida, idb))
            rep = {"kind": "housekeeping-in-a-shared-thread", "backend": kind, "ids": [ida, idb], "result": out, "error": err}
            if err or th.is_alive():
                ctx.report(f"shared-thread-scenario-failed[{kind}]", f"[{kind}] applications {ida!r} and {idb!r} served by one thread: {err or 'did not finish'}", rep)
            elif out.get("b") != "pending" or "pending_recovery" in out.get("hist_b", []) or out.get("a") == "pending":
                ctx.report(f"housekeeping-of-one-app-acts-on-another[{kind}]",
                           f"[{kind}] applications {ida!r} and {idb!r} in one process; a thread runs an invocation of {idb!r} and then the housekeeping task of {ida!r}: "
                           f"{ida!r}'s stuck invocation is {out.get('a')} (should have been recovered), {idb!r}'s stuck invocation is {out.get('b')} with history {out.get('hist_b')} (should be untouched)", rep)
    ctx.notes["housekeeping_in_a_shared_thread"] = n


def config_file_ids_stage(ctx: Ctx) -> None:
    """a worker process holds an application it received by pickle (the process registry then answers constructor calls); applications
    whose id comes from their CONFIGURATION FILE are built next to it: each is its own object with its own id, queue and records"""
    import pickle

    from pynenc import Pynenc

    Pynenc._clear_instances()
    try:
        default_app = pickle.loads(pickle.dumps(Pynenc()))        # registered in the process registry by __setstate__
        made = {}
        for tenant in ("tenant_y", "tenant_z", "pynenc2"):
            path = os.path.join(ctx.tmp, f"{tenant}.yaml")
            open(path, "w").write(f"app_id: {tenant}\n")
            made[tenant] = Pynenc(config_filepath=path)
        by_values = Pynenc(config_values={"app_id": "tenant_v"})
        made["tenant_v"] = by_values
        ctx.count()
        ctx.distinct(("config-file-ids",))
        rep = {"kind": "config-file-ids"}
        for tenant, app in made.items():
            if app.app_id != tenant or app is default_app:
                ctx.report("constructor-returns-other-application", f"next to an unpickled application {default_app.app_id!r}, building the application whose "
                                                                      f"{'configuration file' if tenant != 'tenant_v' else 'config values'} say app_id {tenant!r} returned the application "
                                                                      f"{app.app_id!r}{' (the very same object)' if app is default_app else ''}", rep)
                return
        apps = [default_app, *made.values()]
        if len({id(a) for a in apps}) != len(apps):
            ctx.report("constructor-returns-other-application", "two applications with different ids are one object", rep)
            return
        for k, a in enumerate(apps):
            for j in range(k + 1):
                a.broker.route_invocation(f"m{k}-{j}")
        counts = [a.broker.count_invocations() for a in apps]
        if counts != [k + 1 for k in range(len(apps))]:
            ctx.report("applications-share-a-queue", f"applications {[a.app_id for a in apps]} were given 1, 2, 3, … messages each; their queues hold {counts}", rep)
    finally:
        Pynenc._clear_instances()


# ------------------------------------------------------------------------------------------------


def run(ctx: Ctx) -> None:
    lean_stage(ctx, tr.gen, THEOREMS)
    drv = LeanDriver()
    try:
        ctx.cov["rule"] = (
            "ids: fixed adversarial bases + variants (case, punctuation, prefixes/extensions, ids built from another id's storage "
            "prefix / table / index names, quotes, semicolons, LIKE wildcards, unicode incl. non-ASCII digits, empty, leading digits) + "
            "seeded random strings; distinct+non-trivial = distinct ids, distinct id pairs, and distinct (backend, id group, operation, "
            "acting application) tuples of the side-by-side scenarios")
        t0 = time.time()
        ids = names_stage(ctx, drv)
        ctx.notes["t_names_s"] = round(time.time() - t0, 1)
        t0 = time.time()
        sqlite_stage(ctx, drv, ids)
        ctx.notes["t_sqlite_s"] = round(time.time() - t0, 1)
    finally:
        drv.close()
    t0 = time.time()
    nb = 70 if ctx.quick else 500
    pool = [i for i in ids if len(i) < 200]
    sample = ["sqlite", "SQLite-app", "sqlite_x", "sqlite.db", "sqlit", "my-sqlite"] + pool[:nb]
    check_usable(ctx, sample)
    ctx.notes["t_usable_s"] = round(time.time() - t0, 1)
    t0 = time.time()
    scenario_stage(ctx)
    from_info_stage(ctx)
    config_file_ids_stage(ctx)
    housekeeping_in_a_shared_thread_stage(ctx)
    ctx.notes["t_scenarios_s"] = round(time.time() - t0, 1)
    ctx.assumptions += [
        "SHA-256 is not modelled: the 8 hex digits are a parameter of the model; 'no collision of the 32-bit prefix' is the explicit hypothesis ha ≠ hb of table_names_distinct / apps_disjoint / exact_purge_isolated",
        "ids are Unicode scalar-value strings (what str.encode() accepts); ids with lone surrogates are refused by the real code (UnicodeEncodeError) — checked",
        "SQLite semantics used by the model (LIKE, ASCII case folding of names, reserved sqlite_ prefix, DELETE FROM by name) are compared with the real sqlite3 on every run, not verified",
        "in-memory read-out below the API = canonical picture of the five component objects' attributes",
    ]
    if not ctx.quick:
        thorough_rebuild(ctx)


def replay(data: dict) -> int:
    r = data["replay"]
    tmp = tempfile.mkdtemp(prefix="verif-C17-replay-")
    try:
        if r["kind"] == "scenario":
            steps = [tuple(s) for s in r["steps"]]
            found = run_scenario(r["backend"], r["ids"], steps, tmp)
            for v in found:
                print(v["signature"], "—", v["what"])
            print("reproduced" if found else "not reproduced")
            return 1 if found else 0
        if r["kind"] == "usable":
            try:
                h = Handle("sqlite", tmp, r["id"], os.path.join(tmp, "u.db"))
                print("built; route ->", h.do("route", 1), "count ->", h.do("count"))
                return 0
            except BaseException as e:  # noqa: BLE001
                print(f"id {r['id']!r}: {type(e).__name__}: {e}")
                return 1
        if r["kind"] == "names":
            from pynenc.util.sqlite_utils import sanitize_table_prefix

            for i in r["ids"]:
                try:
                    print(repr(i), "->", sanitize_table_prefix(i), impl_tables(i)[1][:2])
                except BaseException as e:  # noqa: BLE001
                    print(repr(i), "->", repr(e))
            ids = r["ids"]
            if len(ids) == 2:
                inter = {n.lower() for n in impl_tables(ids[0])[1]} & {n.lower() for n in impl_tables(ids[1])[1]}
                print("shared tables:", sorted(inter)[:3])
                return 1 if inter else 0
            return 1
        print(json.dumps(r)[:500])
        return 0
    finally:
        shutil.rmtree(tmp, ignore_errors=True)
