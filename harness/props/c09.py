"""C09 — waiting on sub-tasks is tracked exactly and can never deadlock a runner.

Lean: Props/C09.lean.  Part A over Model/Blocking.lean (MemBlockingControl and SQLiteBlockingControl as coded, and the
      specification "standing wait declarations"); part B over Model/ThreadRunner.lean (+ Model/TreeProg.lean).
Tie A: differential of `orchestrator.waiting_for_results / release_waiters / get_blocking_invocations` and of
      `set_invocation_status(final)` (which must release) on BOTH real blocking controls, with real registered
      invocations whose statuses are driven, against the Lean driver: exhaustive short histories + seeded random long
      ones; limits -1, 0, 1, 2, 3, 99; answers compared as sets + sizes.
Oracle A: a reference wait graph in Python (set of edges) evaluates the property text directly on every answer of the
      real code (lifecycle histories: release only through a final status).
Tie B(poll): `orchestrator.get_invocations_to_run(n)` on both stacks, sequentially, on generated (statuses, queue, waits, n)
      scenarios against the model's poll `TR.doPoll` (claimed ids in order, queue left); the property's reading (at most n,
      only runnable, blocking first, claimed = PENDING, nothing runnable lost, no idle slot) judged on every real answer.
Tie/oracle B: the REAL ThreadRunner (in-memory stack and SQLite stack, 1 and 2 slots) executes generated call trees
      (single results, groups via parallelize, launch-all-then-wait, mixed; depth <= 3, fan-out <= 3) under a
      watchdog; every root must reach SUCCESS with the right result and leave an empty wait graph; the Lean model's
      deterministic schedule of the same numbered tree must complete with the same node count.  A tree that does not
      complete is the concrete failing input.
"""
from __future__ import annotations

import itertools
import sys
import threading
import time
import warnings

from harness import tasks as T
from harness.apps import inject_status, make_app, rctx, flush
from harness.common import Ctx, LeanDriver, lean_stage, thorough_rebuild, tok
from harness.translate import programs as trp
from harness.translate import status as tr

THEOREMS = [
    # part A
    "ready_eq_definition", "wait_graph_invariants", "raw_empty_wait_breaks_ready", "stores_record_standing_waits",
    "release_clears", "announce_on_finished_records_nothing", "announce_alone_left_an_edge_on_finished", "blocking_spec", "blocking_spec_sql", "prefix_facts", "mem_blocking_eq_sql_blocking",
    "mem_sql_diverge_without_premise", "final_not_available",
    # Props/C09Announce.lean: check-then-announce of a reader against status-then-release of the finisher, all interleavings
    "inv_step", "repaired_no_stale_edge", "repaired_tracks_open_wait", "announce_only_leaves_stale_edge", "programs_follow_the_model",
    # part B
    "wfb_sound", "progress_enabled", "step_decreases", "tree_completes", "deadlock_if_waiting_counts_busy",
]

# the statuses the documentation calls "available for run" (usage_guide/invocation_status.md; C01 ties the table to it)
AVAILABLE = {"registered", "rerouted", "retry"}
NONFINAL = ["registered", "pending", "running", "rerouted", "retry", "paused", "killed"]
FINALS = ["success", "failed", "concurrency_controlled_final"]   # every final status: also the one concurrency control gives a refused invocation
LIMITS = [-1, 0, 1, 2, 3, 99]


# ------------------------------------------------------------------------------------------------
# part A
# ------------------------------------------------------------------------------------------------

class Backend:
    """One real app; a fixed universe of registered invocations named a, b, c, ..."""

    def __init__(self, kind: str, ctx: Ctx, names: list[str], tag: str):
        from pynenc.invocation.status import InvocationStatus as S

        self.S = S
        self.kind = kind
        self.app = make_app(kind, ctx.tmp, app_id=f"c09{kind}{tag}")
        self.task = self.app.task(T.add)
        self.o = self.app.orchestrator
        # on SQLite the invocations are FINISHED by another process (a second application object on the same file, which never
        # declared a wait itself): waits are declared here, releases happen there, both answer the queries
        self.o_fin = self.o
        if kind == "sqlite":
            import copy as _copy

            from pynenc.app import Pynenc

            Pynenc._clear_instances()
            self.app2 = Pynenc(config_values=_copy.deepcopy(self.app.config_values))
            Pynenc._clear_instances()
            self.app2.task(T.add)
            self.o_fin = self.app2.orchestrator
        self.names = names
        self.ids = {n: self.task(i).invocation_id for i, n in enumerate(names)}
        self.back = {v: k for k, v in self.ids.items()}

    def reset(self) -> None:
        """public-operation reset: releasing every id empties both stores; statuses back to REGISTERED"""
        for n in self.names:
            self.o.release_waiters(self.ids[n])
        for n in self.names:
            inject_status(self.app, self.ids[n], self.S.REGISTERED, None, 0)

    def apply(self, op: tuple) -> None:
        k = op[0]
        if k == "W":
            w = self.ids[op[1]] if op[1] in self.ids else op[1]  # None / "" pass through
            self.o.waiting_for_results(w, [self.ids[x] for x in op[2]])
        elif k == "R":
            self.o.release_waiters(self.ids[op[1]])
        elif k == "S":
            inject_status(self.app, self.ids[op[1]], self.S(op[2]), None, 0)
        elif k == "X":
            # a final-status REPORT THAT IS REFUSED (a stale worker reporting SUCCESS for an invocation it does not hold / that is
            # not running): nothing changes, in particular nobody stops waiting for the invocation
            try:
                self.o.set_invocation_status(self.ids[op[1]], self.S.SUCCESS, rctx("rStale"))
                raise AssertionError(f"a SUCCESS report by a stranger was accepted for {op[1]}")
            except (KeyError, Exception) as e:  # noqa: BLE001
                if isinstance(e, AssertionError):
                    raise
        elif k == "F":
            # the lifecycle way: RUNNING (owned by rA) -> final status through set_invocation_status
            if op[2] == "concurrency_controlled_final":
                # the way a poll finishes an invocation concurrency control refuses: from an available status, by the polling runner
                inject_status(self.app, self.ids[op[1]], self.S.REGISTERED, None, 0)
            else:
                inject_status(self.app, self.ids[op[1]], self.S.RUNNING, "rA", 0)
            self.o_fin.set_invocation_status(self.ids[op[1]], self.S(op[2]), rctx("rA"))
        else:
            raise ValueError(op)

    def query(self, limit: int) -> list[str]:
        self.nq = getattr(self, "nq", 0) + 1
        o = self.o_fin if self.nq % 2 == 0 else self.o        # both processes are asked, in turn
        return [self.back.get(i, f"?{i}") for i in o.get_blocking_invocations(limit)]


def model_lines(op: tuple) -> str:
    k = op[0]
    if k == "W":
        w = tok(op[1]) if op[1] is None or op[1] == "" else tok(op[1])
        return "bc.wait " + " ".join([w, *[tok(x) for x in op[2]]])
    if k == "R":
        return f"bc.release {tok(op[1])}"
    if k == "S":
        return f"bc.status {tok(op[1])} {op[2]}"
    if k == "F":
        return f"bc.final {tok(op[1])} {op[2]}"
    if k == "X":
        return ""           # a refused report is no operation of the model
    raise ValueError(op)


class RefGraph:
    """The property text, directly: which declarations stand, who is waiting, who is runnable."""

    def __init__(self, names: list[str]):
        self.names = names
        self.edges: set[tuple[str, str]] = set()
        self.status = {n: "registered" for n in names}

    def apply(self, op: tuple) -> None:
        k = op[0]
        if k == "W":
            if op[1] and op[2]:
                for x in op[2]:
                    if self.status[x] not in FINALS:   # nothing is recorded as waiting on a finished invocation
                        self.edges.add((op[1], x))
        elif k == "F":
            self.status[op[1]] = op[2]
            self.edges = {e for e in self.edges if e[1] != op[1]}  # nothing waits on a finished invocation
        elif k == "S":
            self.status[op[1]] = op[2]
        elif k == "X":
            pass
        else:
            raise ValueError("the reference graph is only defined for lifecycle histories")

    def blocking(self) -> set[str]:
        awaited = {x for _, x in self.edges}
        waiting = {w for w, _ in self.edges}
        return {x for x in awaited if x not in waiting and self.status[x] in AVAILABLE}


def judge(ans: list[str], spec: set[str], limit: int) -> str | None:
    """the property's own statement on one real answer"""
    if len(set(ans)) != len(ans):
        return "duplicate"
    if not set(ans) <= spec:
        return "not-blocking-reported"
    if len(ans) > max(limit, 0):
        return "over-limit"
    if len(ans) < min(max(limit, 0), len(spec)):
        return "blocking-missing"
    return None


def minimise(back: "Backend", names: list[str], h: list[tuple], limit: int, verdict: str) -> list[tuple]:
    """greedy one-operation deletion on the real backend while the same verdict is reproduced"""
    def fails(hh: list[tuple]) -> bool:
        if not legal_lifecycle(hh):
            return False
        back.reset()
        ref = RefGraph(names)
        for op in hh:
            back.apply(op)
            ref.apply(op)
        return judge(back.query(limit), ref.blocking(), limit) == verdict

    cur = list(h)
    changed = True
    while changed and len(cur) > 1:
        changed = False
        for i in range(len(cur)):
            cand = cur[:i] + cur[i + 1:]
            if fails(cand):
                cur, changed = cand, True
                break
    return cur


def lifecycle_alphabet(names: list[str], small: bool) -> list[tuple]:
    ops: list[tuple] = []
    for w in names:
        for x in names:
            ops.append(("W", w, [x]))
    for w in names:
        for x, y in itertools.combinations(names, 2):
            ops.append(("W", w, [x, y]))
    for x in names:
        ops.append(("F", x, "success"))
        ops.append(("S", x, "pending"))
        if not small:
            ops.append(("S", x, "retry"))
            ops.append(("X", x))
    return ops


def legal_lifecycle(h: list[tuple]) -> bool:
    """release only through a final status, and a final status is never left"""
    fin: set[str] = set()
    for op in h:
        if op[0] in ("S", "F", "X") and op[1] in fin:
            return False
        if op[0] == "F":
            fin.add(op[1])
    return True


def random_history(ctx: Ctx, names: list[str], n: int, raw: bool) -> list[tuple]:
    h: list[tuple] = []
    fin: set[str] = set()
    for _ in range(n):
        r = ctx.rng.random()
        if r < 0.5:
            w = ctx.rng.choice(names)
            k = ctx.rng.choice([1, 1, 1, 2, 3, 0])
            ids = ctx.rng.sample(names, k)
            if ctx.rng.random() < 0.04:
                w = ctx.rng.choice([None, ""])
            h.append(("W", w, ids))
        elif r < 0.68:
            alive = [x for x in names if x not in fin]
            if not alive:
                continue
            x = ctx.rng.choice(alive)
            fin.add(x)
            h.append(("F", x, ctx.rng.choice(FINALS)))
        elif r < 0.9 or not raw:
            alive = [x for x in names if x not in fin]
            if not alive:
                continue
            if ctx.rng.random() < 0.2:
                h.append(("X", ctx.rng.choice(alive)))
            else:
                h.append(("S", ctx.rng.choice(alive), ctx.rng.choice(NONFINAL)))
        else:
            h.append(("R", ctx.rng.choice(names)))
    return h


def run_histories(ctx: Ctx, drv: LeanDriver, backs: dict[str, Backend], names: list[str], hists: list[list[tuple]],
                  lifecycle: bool, family: str, kinds: list[str]) -> None:
    """Runs every history on the chosen backends and on the model; compares; judges (lifecycle only)."""
    lines: list[str] = []
    plan: list[tuple[int, int, int]] = []  # (history index, op index, limit) per bc.get pair
    impl: dict[str, list[list[str]]] = {k: [] for k in kinds}
    for hi, h in enumerate(hists):
        ref = RefGraph(names) if lifecycle else None
        lines.append("bc.reset")
        for n in names:
            lines.append(f"bc.status {tok(n)} registered")
        for k in kinds:
            backs[k].reset()
        for oi, op in enumerate(h):
            if model_lines(op):
                lines.append(model_lines(op))
            for k in kinds:
                backs[k].apply(op)
            if ref:
                ref.apply(op)
            lims = [99, ctx.rng.choice(LIMITS)] if oi < len(h) - 1 else LIMITS
            for lim in lims:
                plan.append((hi, oi, lim))
                lines.append(f"bc.get mem {lim}")
                lines.append(f"bc.get sql {lim}")
                answers = {}
                for k in kinds:
                    a = backs[k].query(lim)
                    impl[k].append(a)
                    answers[k] = a
                    ctx.count()
                    if ref:
                        v = judge(a, ref.blocking(), lim)
                        sig = f"blocking[{k}]:{v}:{'limit<=0' if lim <= 0 else 'limit>0'}" if v else None
                        if v and not any(x["signature"] == sig for x in ctx.violations):
                            hm = minimise(backs[k], names, h[:oi + 1], lim, v)
                            backs[k].reset()
                            rm = RefGraph(names)
                            for op2 in hm:
                                backs[k].apply(op2)
                                rm.apply(op2)
                            am = backs[k].query(lim)
                            # minimisation disturbed the backend: bring it back to the state of this history
                            backs[k].reset()
                            for op2 in h[:oi + 1]:
                                backs[k].apply(op2)
                            ctx.report(sig,
                                       f"[{k}] after {hm}: get_blocking_invocations({lim}) returned {sorted(am)}; awaited-and-unfinished, "
                                       f"not waiting, runnable are {sorted(rm.blocking())} ({v}; minimised from {len(h[:oi + 1])} operations)",
                                       {"kind": "history", "backend": k, "names": names, "history": hm, "limit": lim})
                if ref and len(kinds) == 2 and lim == 99 and set(answers["mem"]) != set(answers["sqlite"]):
                    ctx.report("mem-vs-sqlite:blocking-set",
                               f"after {h[:oi + 1]} the in-memory control reports {sorted(answers['mem'])}, SQLite {sorted(answers['sqlite'])}",
                               {"kind": "history", "backend": "both", "names": names, "history": h[:oi + 1], "limit": lim})
        ctx.distinct((family, repr(h)))
    outs = drv.ask_many(lines)
    gets = [o for ln, o in zip(lines, outs) if ln.startswith("bc.get")]
    bad = [(ln, o) for ln, o in zip(lines, outs) if not ln.startswith("bc.get") and o != "ok"]
    nd = {k: 0 for k in kinds}
    first: dict[str, str] = {}
    for pi, (hi, oi, lim) in enumerate(plan):
        for k in kinds:
            m = gets[2 * pi + (0 if k == "mem" else 1)].split()
            mk, mall = int(m[0]), set(m[1:])
            a = impl[k][pi]
            aset = {tok(x) for x in a}
            ok = len(a) == mk and aset <= mall and len(aset) == len(a) and (mk < len(mall) or aset == mall)
            if not ok:
                nd[k] += 1
                first.setdefault(k, f"history {hists[hi][:oi + 1]} limit {lim}: impl={sorted(a)} model: {mk} of {sorted(mall)}")
    for k in kinds:
        ctx.obligation(f"correspondence A[{family}]: {len(hists)} histories on {k} == Lean {'MemBC' if k == 'mem' else 'SqlBC'}",
                       nd[k] == 0 and not bad, first.get(k, "") or (f"model rejected {bad[0]}" if bad else ""))
    ctx.notes[f"A_{family}"] = {"histories": len(hists), "queries": len(plan)}


def part_a(ctx: Ctx, drv: LeanDriver) -> None:
    names3 = ["a", "b", "c"]
    names5 = ["a", "b", "c", "d", "e"]
    backs3 = {k: Backend(k, ctx, names3, "u3") for k in ("mem", "sqlite")}
    backs5 = {k: Backend(k, ctx, names5, "u5") for k in ("mem", "sqlite")}
    alpha = lifecycle_alphabet(names3, small=ctx.quick)
    L = 2 if ctx.quick else 3
    ex = [list(h) for n in range(1, L + 1) for h in itertools.product(alpha, repeat=n) if legal_lifecycle(list(h))]
    if not ctx.quick and len(ex) > 25000:
        keep = [h for h in ex if len(h) < 3]
        rest = [h for h in ex if len(h) == 3]
        ctx.rng.shuffle(rest)
        ex = keep + rest[:24000]
        ctx.notes["A_exhaustive_len3_sampled"] = f"{min(24000, len(rest))} of {len(rest)}"
    if ctx.quick:
        alpha3 = lifecycle_alphabet(names3, small=False)
        extra = []
        while len(extra) < 1500:
            h = [ctx.rng.choice(alpha3) for _ in range(3)]
            if legal_lifecycle(h):
                extra.append(h)
        ex += extra
    run_histories(ctx, drv, backs3, names3, ex, True, "lifecycle-exhaustive", ["mem"])
    sub = ex[:: (6 if ctx.quick else 12)]
    run_histories(ctx, drv, backs3, names3, sub, True, "lifecycle-exhaustive-both", ["mem", "sqlite"])
    nr = 40 if ctx.quick else 600
    rnd = [random_history(ctx, names5, ctx.rng.randint(15, 40 if ctx.quick else 120), raw=False) for _ in range(nr)]
    run_histories(ctx, drv, backs5, names5, rnd, True, "lifecycle-random", ["mem", "sqlite"])
    # raw public API (release_waiters on ids that stay runnable): each backend against its own model only
    witness = [("W", "a", ["c"]), ("W", "b", ["a"]), ("R", "a"), ("W", "b", ["a"])]
    ralpha = [("W", w, [x]) for w in names3 for x in names3 if w != x] + [("R", x) for x in names3] + [("S", "a", "pending")]
    rawex = [list(h) for h in itertools.product(ralpha, repeat=3 if ctx.quick else 4)]
    if ctx.quick:
        rawex = rawex[::3]
    run_histories(ctx, drv, backs3, names3, rawex, False, "raw-api-exhaustive", ["mem"])
    run_histories(ctx, drv, backs3, names3, rawex[::10], False, "raw-api-exhaustive-both", ["mem", "sqlite"])
    raw = [witness] + [random_history(ctx, names5, ctx.rng.randint(10, 40 if ctx.quick else 100), raw=True)
                       for _ in range(nr // 2)]
    run_histories(ctx, drv, backs5, names5, raw, False, "raw-api", ["mem", "sqlite"])
    # the documented raw-API divergence, reproduced on the real code (not a C09 violation: see Props/C09.lean)
    for k in ("mem", "sqlite"):
        backs3[k].reset()
        for op in witness:
            backs3[k].apply(op)
    ctx.notes["raw_release_divergence"] = {"history": witness, "mem": sorted(backs3["mem"].query(99)),
                                            "sqlite": sorted(backs3["sqlite"].query(99))}
    for b in list(backs3.values()) + list(backs5.values()):
        flush(b.app)
    ctx.sample({"kind": "history", "ops": rnd[0][:8], "limits": LIMITS})


# ------------------------------------------------------------------------------------------------
# part B
# ------------------------------------------------------------------------------------------------

def tree_size(spec: list) -> int:
    return 1 + sum(tree_size(c) for kind, arg in spec for c in ([arg] if kind == "single" else arg))


def tree_depth(spec: list) -> int:
    return 1 + max([tree_depth(c) for kind, arg in spec for c in ([arg] if kind == "single" else arg)], default=0)


def to_prog(spec: list) -> str:
    """number the nodes in preorder and print the bodies for the Lean driver"""
    bodies: list[list[str]] = []

    def walk(sp: list) -> int:
        me = len(bodies)
        bodies.append([])
        acts: list[str] = []
        for kind, arg in sp:
            if kind == "single":
                c = walk(arg)
                acts += [f"L:{c}", f"W:{c}"]
            elif kind == "group":
                cs = [walk(c) for c in arg]
                if cs:
                    acts += ["L:" + ":".join(map(str, cs)), "W:" + ":".join(map(str, cs))]
            else:  # fanout: launched one by one, then awaited one by one
                cs = [walk(c) for c in arg]
                acts += [f"L:{c}" for c in cs] + [f"W:{c}" for c in cs]
        bodies[me] = acts
        return me

    walk(spec)
    return ";".join(",".join(b) if b else "-" for b in bodies)


def fixed_trees() -> list[list]:
    leaf: list = []
    return [
        leaf,
        [["single", leaf]],
        [["single", [["single", [["single", leaf]]]]]],
        [["group", [leaf, leaf, leaf]]],
        [["fanout", [leaf, leaf, leaf]]],
        [["group", [[["group", [leaf, leaf]]], [["single", leaf]]]]],
        [["single", [["group", [leaf, leaf]]]], ["fanout", [leaf, [["single", leaf]]]]],
        [["fanout", [[["group", [leaf, leaf]]], [["fanout", [leaf, leaf]]]]], ["single", leaf]],
        [["group", [[["single", [["single", leaf]]]], [["single", [["group", [leaf, leaf, leaf]]]]], leaf]]],
    ]


def random_tree(ctx: Ctx, depth: int) -> list:
    if depth <= 1:
        return []
    spec = []
    for _ in range(ctx.rng.choice([1, 1, 2])):
        kind = ctx.rng.choice(["single", "group", "fanout"])
        if kind == "single":
            spec.append([kind, random_tree(ctx, depth - 1)])
        else:
            spec.append([kind, [random_tree(ctx, depth - ctx.rng.choice([1, 1, 2])) for _ in range(ctx.rng.randint(1, 3))]])
    return spec


class RunnerRig:
    def __init__(self, kind: str, slots: int, ctx: Ctx | None, tmp: str, tag: str = ""):
        from pynenc.builder import PynencBuilder

        b = PynencBuilder().app_id(f"c09tr{kind}{slots}{tag}")
        b = b.memory() if kind == "mem" else b.sqlite(f"{tmp}/c09tr{kind}{slots}{tag}.db")
        b = b.thread_runner(min_threads=1, max_threads=slots)
        b = b.custom_config(logging_level="critical", print_arguments=False, runner_loop_sleep_time_sec=0.002,
                            invocation_wait_results_sleep_time_sec=0.002, cached_status_time=0.0)
        self.app = b.build()
        self.kind, self.slots = kind, slots
        self.task = self.app.task(T.tree)
        self.thread = threading.Thread(target=self._run, daemon=True)
        self.error: BaseException | None = None

    def _run(self) -> None:
        try:
            with warnings.catch_warnings():
                warnings.simplefilter("ignore")
                self.app.runner.run()
        except BaseException as e:  # noqa: BLE001
            self.error = e

    def start(self) -> None:
        self.thread.start()

    def stop(self) -> None:
        try:
            self.app.runner.stop_runner_loop()
        except Exception:
            pass
        self.thread.join(3)

    def run_tree(self, spec: list, timeout: float) -> dict:
        from pynenc.invocation.status import InvocationStatus as S

        inv = self.task(spec)
        t0 = time.time()
        st = None
        while time.time() - t0 < timeout:
            st = self.app.orchestrator.get_invocation_status(inv.invocation_id)
            if st.is_final() or self.error:
                break
            time.sleep(0.003)
        out = {"status": st.value if st else None, "secs": round(time.time() - t0, 3), "result": None, "blocking_left": None}
        if st == S.SUCCESS:
            out["result"] = self.app.state_backend.get_result(inv.invocation_id)
            out["blocking_left"] = len(list(self.app.orchestrator.get_blocking_invocations(1000)))
        if self.error:
            out["runner_error"] = repr(self.error)
        return out


def judge_poll(got: list[int], n: int, runnable: set[int], blocking: set[int], after: dict, left: list[int]) -> str | None:
    """the property's reading of one `get_invocations_to_run(n)`: at most n, only runnable ones, the blocking ones
    first, every claimed one PENDING, no runnable invocation lost from the queue, no slot left idle"""
    if len(set(got)) != len(got):
        return "duplicate"
    if len(got) > n:
        return "over-limit"
    if not set(got) <= runnable:
        return "not-runnable-claimed"
    if len(set(got) & blocking) != min(n, len(blocking)):
        return "blocking-not-first"
    if any(after[i] != "pending" for i in got):
        return "claimed-not-pending"
    if any(i not in left for i in runnable - set(got)):
        return "runnable-invocation-lost-from-queue"
    if len(got) < min(n, len(runnable)):
        return "slot-left-idle"
    return None


def part_b_poll(ctx: Ctx, drv: LeanDriver) -> None:
    """`get_invocations_to_run(n)` (blocking first, then the queue, non-runnable popped ids dropped) on both stacks,
    sequentially, against `TR.doPoll`; the property's own reading is judged on every real answer."""
    from pynenc.invocation.status import InvocationStatus as S

    nscen = 60 if ctx.quick else 600
    scen = []
    fixed = [  # (statuses, edges, n)
        ("rrr", [(0, 2)], 1), ("rrr", [(0, 2)], 2), ("rrr", [(0, 2)], 0), ("rrr", [(0, 1), (1, 2)], 1),
        ("rpr", [(1, 0), (1, 2)], 1), ("rrf", [(0, 2)], 2), ("rrrr", [(0, 3), (1, 2)], 1), ("rrrr", [(0, 3), (1, 2)], 3),
    ]
    for st, es, n in fixed:
        scen.append((st, es, n))
    while len(scen) < nscen:
        k = ctx.rng.randint(2, 5)
        st = "".join(ctx.rng.choice("rrrrpft") for _ in range(k))
        es = sorted({(ctx.rng.randrange(k), ctx.rng.randrange(k)) for _ in range(ctx.rng.choice([0, 1, 1, 2, 3]))})
        scen.append((st, es, ctx.rng.randint(0, 3)))
    inj = {"p": S.PENDING, "f": S.SUCCESS, "t": S.RETRY}
    for kind in ("mem", "sqlite"):
        app = make_app(kind, ctx.tmp, app_id=f"c09poll{kind}")
        task = app.task(T.add)
        o = app.orchestrator
        lines, reals = [], []
        for si, (st, es, n) in enumerate(scen if kind == "mem" or not ctx.quick else scen[:30]):
            ids = [task(1000 * si + i).invocation_id for i in range(len(st))]
            idx = {v: i for i, v in enumerate(ids)}
            for i, c in enumerate(st):
                if c in inj:
                    inject_status(app, ids[i], inj[c], "other" if c == "p" else None, 0)
            for w, x in es:
                o.waiting_for_results(ids[w], [ids[x]])
            # a wait declared on an invocation that has already finished is not recorded (repair 6a5f3fe): those declarations do not exist
            es = [(w, x) for w, x in es if st[x] != "f"]
            runnable = {i for i, c in enumerate(st) if c in "rt"}
            blocking = {x for _, x in es} - {w for w, _ in es}
            blocking &= runnable
            got = [idx.get(inv.invocation_id, -1) for inv in o.get_invocations_to_run(n, rctx("rP"))]
            after = {i: o.get_invocation_status(ids[i]).value for i in range(len(st))}
            left = []
            while (q := app.broker.retrieve_invocation()) is not None:
                left.append(idx.get(q, -1))
            for i in ids:
                o.release_waiters(i)
            ctx.count()
            ctx.distinct(("poll", kind, st, tuple(es), n))
            v = judge_poll(got, n, runnable, blocking, after, left)
            if v:
                ctx.report(f"poll[{kind}]:{v}",
                           f"[{kind}] get_invocations_to_run({n}) with statuses {st} (queue order = id order), waits {es} "
                           f"returned {got}, queue left {left} ({v})",
                           {"kind": "poll", "backend": kind, "statuses": st, "edges": es, "n": n})
            bs = [i for i in got if i in blocking]
            mst = st.replace("t", "r")
            lines.append(f"tr.poll {n} {mst} {':'.join(map(str, range(len(st))))} "
                         f"{','.join(f'{w}>{x}' for w, x in es) or '-'} {':'.join(map(str, bs)) or '-'}")
            reals.append(f"claimed={':'.join(map(str, got)) or '-'} queue={':'.join(map(str, left)) or '-'} "
                         f"blocking={':'.join(map(str, sorted(blocking))) or '-'}")
        flush(app)
        outs = drv.ask_many(lines)
        bad = [(ln, r, m) for ln, r, m in zip(lines, reals, outs) if r != m]
        ctx.obligation(f"correspondence B(poll): get_invocations_to_run on {kind} == TR.doPoll ({len(lines)} scenarios)",
                       not bad, str(bad[:2]))
    ctx.sample({"kind": "poll", "statuses": "rrr", "waits": [[0, 2]], "n": 1, "claimed": [2]})


def part_b(ctx: Ctx, drv: LeanDriver) -> None:
    trees = fixed_trees()
    nrand = 9 if ctx.quick else 60
    while len(trees) < len(fixed_trees()) + nrand:
        t = random_tree(ctx, ctx.rng.choice([3, 4]))
        if 2 <= tree_size(t) <= (14 if ctx.quick else 30):
            trees.append(t)
    # the model's verdict on every tree
    lines = []
    for t in trees:
        p = to_prog(t)
        lines += [f"tr.run 1 1 100000 {p}", f"tr.run 2 1 100000 {p}", f"tr.run 1 0 100000 {p}"]
    outs = drv.ask_many(lines)
    model_bad = []
    sensitive = 0
    for i, t in enumerate(trees):
        for j in (0, 1):
            o = outs[3 * i + j].split()
            if o[:2] != ["wf=true", "done"] or o[3] != f"final={tree_size(t)}":
                model_bad.append((t, outs[3 * i + j]))
        if outs[3 * i + 2].split()[1] == "stuck":
            sensitive += 1
    ctx.obligation(f"model B: the Lean scheduler completes all {len(trees)} generated trees (well-formed, 1 and 2 slots)",
                   not model_bad, str(model_bad[:2]))
    ctx.notes["B_trees"] = {"n": len(trees), "max_size": max(map(tree_size, trees)), "max_depth": max(map(tree_depth, trees)),
                            "deadlock_if_waiting_counted_busy(model,1 slot)": sensitive}
    old_sw = sys.getswitchinterval()
    sys.setswitchinterval(0.0005)
    timeout = 20.0 if ctx.quick else 40.0
    failed = False
    try:
        for kind in ("mem", "sqlite"):
            for slots in (1, 2):
                if failed:
                    break
                rig = RunnerRig(kind, slots, ctx, ctx.tmp)
                rig.start()
                nd = 0
                use = trees
                t_cfg = time.time()
                for t in use:
                    r = rig.run_tree(t, timeout)
                    ctx.count()
                    ctx.distinct(("tree", kind, slots, repr(t)))
                    want = tree_size(t)
                    if r["status"] != "success":
                        failed = True
                        ctx.report(f"tree-not-completed[{kind},slots={slots}]",
                                   f"[{kind}, {slots} slot(s)] the root of call tree {t} is {r['status']} after {r['secs']} s "
                                   f"(watchdog {timeout} s){' runner died: ' + r['runner_error'] if r.get('runner_error') else ''}",
                                   {"kind": "tree", "backend": kind, "slots": slots, "tree": t, "timeout": timeout})
                        break
                    if r["result"] != want:
                        ctx.report(f"tree-wrong-result[{kind},slots={slots}]",
                                   f"[{kind}, {slots} slot(s)] call tree {t} returned {r['result']}, expected {want}",
                                   {"kind": "tree", "backend": kind, "slots": slots, "tree": t, "timeout": timeout})
                    if r["blocking_left"]:
                        ctx.report(f"tree-leaves-blocking[{kind},slots={slots}]",
                                   f"[{kind}, {slots} slot(s)] after call tree {t} completed {r['blocking_left']} invocation(s) are still reported as blocking",
                                   {"kind": "tree", "backend": kind, "slots": slots, "tree": t, "timeout": timeout})
                    if r["result"] != want:
                        nd += 1
                rig.stop()
                ctx.obligation(f"correspondence B: real ThreadRunner[{kind}, {slots} slot(s)] completes {len(use)} trees with the model's node count",
                               nd == 0 and not failed, "see violation")
                ctx.notes[f"B_{kind}_{slots}"] = {"trees": len(use), "secs": round(time.time() - t_cfg, 1)}
    finally:
        sys.setswitchinterval(old_sw)
    ctx.sample({"kind": "tree", "spec": trees[6], "prog": to_prog(trees[6]), "size": tree_size(trees[6])})


# ------------------------------------------------------------------------------------------------
# part C: the callers of the wait graph (`DistributedInvocation.result`, group `.results`)
# ------------------------------------------------------------------------------------------------

def graph_edges(app) -> list[tuple[str, str]]:  # type: ignore[no-untyped-def]
    """the recorded wait graph (the property's state anchor), read from the store itself"""
    o = app.orchestrator
    if type(o).__name__ == "MemOrchestrator":
        return sorted((w, x) for w, xs in o.blocking_control.waiting_for.items() for x in xs)
    from pynenc.util.sqlite_utils import create_sqlite_connection

    with create_sqlite_connection(o.sqlite_db_path) as conn:
        return sorted((r[0], r[1]) for r in conn.execute(f"SELECT waiter_id, waited_id FROM {o.tables.BLOCKING_EDGES}").fetchall())


def result_api(ctx: Ctx) -> None:
    """A task body that reads sub-task results, executed in this thread with the OTHER actors' steps placed by the harness (the
    runner's wait hook finishes the awaited sub-task, or it has finished before, or it finishes in the window between the reader's
    status check and its announcement).  Judged by the property: while the reader waits the sub-task is reported as blocking; once
    a sub-task has finished nothing is recorded as waiting on it; and the reader, runnable again (RETRY) and awaited by its own
    parent, is reported as blocking."""
    from pynenc import context
    from pynenc.invocation.status import InvocationStatus as S

    cases = [(how, api, fresh) for how in ("finishes-while-waiting", "finished-before", "finishes-in-the-window", "mixed", "finishes-at-record", "finishes-after-final-check")
             for api in ("result", "results") for fresh in (False, True)]
    for kind in ("mem", "sqlite"):
        for ci, (how, api, fresh) in enumerate(cases):
            app = make_app(kind, ctx.tmp, app_id=f"c09api{kind}{ci}{ctx.rng.randrange(10**6)}")
            app.conf.cached_status_time = 0.0
            t = app.task(T.add)
            o = app.orchestrator
            name: dict[str, str] = {}

            def start(inv, who):  # type: ignore[no-untyped-def]
                o.set_invocation_status(inv.invocation_id, S.PENDING, rctx(who))
                o.set_invocation_status(inv.invocation_id, S.RUNNING, rctx(who))

            def finish(inv_id):  # type: ignore[no-untyped-def]
                if o.get_invocation_status(inv_id).is_final():
                    return
                inv = app.state_backend.get_invocation(inv_id)
                start(inv, "rC")
                o.set_invocation_result(inv, 7, rctx("rC"))

            context.set_current_app(app)
            grand = t(100, 0)
            start(grand, "rG")
            prev = context.swap_dist_invocation_context(app.app_id, grand)
            parent = t(200, 0)
            start(parent, "rP")
            context.swap_dist_invocation_context(app.app_id, parent)
            kids = [t(1, i) for i in range(3)]
            name.update({grand.invocation_id: "grand", parent.invocation_id: "parent"})
            name.update({k.invocation_id: f"kid{i}" for i, k in enumerate(kids)})
            seen_blocking: list[list[str]] = []
            problems: list[str] = []

            def wait_hook(parent_id, ids, args=None):  # type: ignore[no-untyped-def]
                # the reader is waiting now: what it waits for (and is runnable) must be reported as blocking
                pend = [i for i in ids if not o.get_invocation_status(i).is_final()]
                rep = set(o.get_blocking_invocations(10))
                seen_blocking.append(sorted(name.get(i, i) for i in rep))
                miss = [name[i] for i in pend if i not in rep]
                if miss:
                    problems.append(f"the reader waits for {miss} (registered, runnable) but they are not reported as blocking (reported {seen_blocking[-1]})")
                for i in pend[:1]:
                    finish(i)

            app.runner.waiting_for_results = wait_hook  # type: ignore[method-assign]
            real_announce = o.waiting_for_results

            def announce(caller, ids):  # type: ignore[no-untyped-def]
                if how in ("finishes-in-the-window", "mixed") and caller == parent.invocation_id:
                    finish(ids[-1])  # the sub-task's own runner completes it between the reader's check and this call
                return real_announce(caller, ids)

            o.waiting_for_results = announce  # type: ignore[method-assign]
            # ... and the same intruder INSIDE the announcement: right before the declaration is recorded / right after the look at the statuses
            bc = o.blocking_control
            real_record, real_fbs = bc.waiting_for_results, o.filter_by_status
            once = {"done": False}

            def record(caller, ids):  # type: ignore[no-untyped-def]
                if how == "finishes-at-record" and caller == parent.invocation_id and not once["done"]:
                    once["done"] = True
                    finish(ids[-1])
                return real_record(caller, ids)

            def fbs(ids, flt):  # type: ignore[no-untyped-def]
                r = real_fbs(ids, flt)
                if how == "finishes-after-final-check" and not once["done"] and ids:
                    once["done"] = True
                    finish(list(ids)[-1])
                return r

            bc.waiting_for_results = record  # type: ignore[method-assign]
            o.filter_by_status = fbs  # type: ignore[method-assign]
            if how in ("finished-before", "mixed"):
                finish(kids[0].invocation_id)
            if how == "finished-before":
                finish(kids[1].invocation_id)
                finish(kids[2].invocation_id)
            handles = [app.state_backend.get_invocation(k.invocation_id) for k in kids] if fresh else kids
            try:
                if api == "result":
                    got = [h.result for h in handles]
                else:
                    from pynenc.invocation.dist_invocation import DistributedInvocationGroup

                    got = list(DistributedInvocationGroup(t, handles).results)
            except Exception as e:  # noqa: BLE001
                got = [f"raised {type(e).__name__}: {e}"]
            finally:
                o.waiting_for_results = real_announce  # type: ignore[method-assign]
                bc.waiting_for_results = real_record  # type: ignore[method-assign]
                o.filter_by_status = real_fbs  # type: ignore[method-assign]
                context.swap_dist_invocation_context(app.app_id, prev)
            ctx.count()
            ctx.distinct(("result-api", kind, how, api, fresh))
            if sorted(map(str, got)) != ["7", "7", "7"]:
                problems.append(f"the results read are {got}, expected three times 7")
            stale = [(name.get(w, w), name.get(x, x)) for w, x in graph_edges(app) if o.get_invocation_status(x).is_final()]
            if stale:
                problems.append(f"all three sub-tasks have finished but the wait graph still records {stale} (waiter, awaited)")
            # the consequence: the reader fails with a retriable error and its own parent waits for it
            o.set_invocation_status(parent.invocation_id, S.RETRY, rctx("rP"))
            real_announce(grand.invocation_id, [parent.invocation_id])
            rep2 = sorted(name.get(i, i) for i in o.get_blocking_invocations(10))
            if rep2 != ["parent"]:
                problems.append(f"the reader is in RETRY (runnable), waits for nothing unfinished and is awaited by its parent, but the blocking invocations reported are {rep2}")
            for pr in problems[:1]:
                ctx.report(f"result-api[{kind}]:{how}:{api}",
                           f"[{kind}] a task reads the results of three sub-tasks through {'a group .results' if api == 'results' else '.result'} "
                           f"({'handles loaded from the store' if fresh else 'the handles the calls returned'}; {how}): " + "; ".join(problems),
                           {"kind": "result-api", "backend": kind, "how": how, "api": api, "fresh": fresh})
            flush(app)


def declared_wait_beside_a_poll(ctx: Ctx) -> None:
    """in-memory: a task thread declares its wait (`waiting_for_results`) while the runner loop asks what is blocking
    (`get_blocking_invocations`) - on a wait graph that exists and is EMPTY at that moment (everything declared so far has been
    released).  One thread is paused after each source line of the orchestrator's wait-graph code while the other runs to completion,
    both ways round.  Afterwards the declaration stands: the awaited invocation is reported."""
    from pynenc.invocation.status import InvocationStatus as S
    from pynenc.orchestrator.mem_orchestrator import MemBlockingControl, MemOrchestrator

    from harness.sched_line import LineSched
    from harness.sched_sql import PrefixChooser

    sched = LineSched(line_targets=[MemBlockingControl, MemOrchestrator.__dict__["blocking_control"], MemOrchestrator.waiting_for_results if "waiting_for_results" in MemOrchestrator.__dict__ else MemBlockingControl.waiting_for_results],
                      lock_modules=["pynenc.orchestrator.mem_orchestrator"], max_steps=20000).install()
    n = 0
    try:
        def run_one(chooser):
            app = make_app("mem", ctx.tmp, app_id=f"c09dw{ctx.rng.randrange(10**7)}")
            t = app.task(T.add)
            o = app.orchestrator
            p0, c0, p1, c1 = t(1, 0), t(2, 0), t(3, 0), t(4, 0)
            for p in (p0, p1):
                inject_status(app, p.invocation_id, S.RUNNING, "rA", 0)
            # warm-up: the graph has been used and is empty again
            o.waiting_for_results(p0.invocation_id, [c0.invocation_id])
            o.release_waiters(c0.invocation_id)
            out: dict = {}

            def declare() -> None:
                o.waiting_for_results(p1.invocation_id, [c1.invocation_id])

            def poll() -> None:
                out["during"] = list(o.get_blocking_invocations(10))

            run = sched.run([declare, poll], chooser)
            run.meta = (c1.invocation_id, list(o.get_blocking_invocations(10)), out)  # type: ignore[attr-defined]
            return run

        n0 = len([c for c in run_one(PrefixChooser([0] * 5000)).choices if c == 0])
        n1 = len([c for c in run_one(PrefixChooser([1] * 5000)).choices if c == 1])
        for plan in [[0] * k + [1] * 5000 for k in range(n0 + 1)] + [[1] * k + [0] * 5000 for k in range(n1 + 1)]:
            run = run_one(PrefixChooser(plan))
            n += 1
            ctx.count()
            ctx.distinct(("mem", "declared-wait-beside-a-poll", tuple(run.choices[:60])))
            c1_id, after, out = run.meta  # type: ignore[attr-defined]
            rep = {"kind": "declared-wait-beside-a-poll", "backend": "mem", "schedule": run.choices[:80]}
            if run.aborted or any(e is not None for e in run.errors):
                ctx.report("declared-wait-beside-a-poll:error[mem]", f"[mem] aborted={run.aborted} errors={run.errors}", rep)
            elif after != [c1_id]:
                ctx.report("declared-wait-lost[mem]", f"[mem] a task thread declares that it waits for C1 while the runner loop asks what is blocking (the wait graph existed and was empty): afterwards "
                                                       f"get_blocking_invocations(10) returns {['C1' if x == c1_id else x[:8] for x in after]} instead of ['C1'] - the declaration went into a graph nobody reads "
                                                       f"(schedule {run.choices[:40]})", rep)
    finally:
        sched.uninstall()
    ctx.notes["declared_wait_beside_a_poll_schedules"] = n


def slot_count_vs_new_waiter(ctx: Ctx) -> None:
    """the runner loop counts its free slots (`_reclaim_available_slots`) while a task thread enters its first wait
    (`_waiting_for_results` marks it as waiting): whenever the loop looks at the waiting marks - element by element, if it walks them -
    another thread may add one.  The count must come out (between the value before and after the new mark), the loop must not die:
    a dead loop joins threads that can never finish, and the awaited sub-task is never run."""
    import threading

    from pynenc.runner.thread_runner import ThreadInfo

    class Marks(set):
        """the waiting marks; a walk over them is interruptible between two elements, as any walk of a Python set is"""

        hook = None

        def __iter__(self):  # type: ignore[no-untyped-def]
            it = set.__iter__(self)
            for x in it:
                if Marks.hook is not None:
                    h, Marks.hook = Marks.hook, None
                    h()
                yield x

    for kind in ("mem", "sqlite"):
        app = make_app(kind, ctx.tmp, app_id=f"c09slots{kind}", runner_cls="ThreadRunner", min_parallel_slots=1, max_threads=1)
        t = app.task(T.add)
        runner = app.runner
        runner._on_start()
        stop = threading.Event()
        invs = [t(i, 0) for i in range(3)]
        ths = [threading.Thread(target=stop.wait, args=[20], daemon=True) for _ in invs]
        for th in ths:
            th.start()
        try:
            runner.threads = {inv.invocation_id: ThreadInfo(th, inv) for inv, th in zip(invs, ths)}
            runner.waiting_invocation_ids = Marks([invs[0].invocation_id, invs[1].invocation_id])
            Marks.hook = lambda: runner._waiting_for_results(invs[2].invocation_id, [invs[0].invocation_id])     # the third thread enters its first wait
            err, slots = None, None
            try:
                slots = runner._reclaim_available_slots()
            except BaseException as e:  # noqa: BLE001
                err = f"{type(e).__name__}: {e}"
            ctx.count()
            ctx.distinct((kind, "slot-count-vs-new-waiter"))
            lo, hi = runner.max_parallel_slots - 1, runner.max_parallel_slots
            if err is not None or slots not in (lo, hi):
                ctx.report(f"slot-count-breaks-on-new-waiter[{kind}]",
                           f"[{kind}] three task threads, two of them waiting; the third enters its first wait while the loop counts the free slots: "
                           + (f"the count raised {err} - the runner loop dies, nothing runs the awaited sub-tasks" if err else f"the count is {slots}, expected {lo} or {hi}"),
                           {"kind": "slot-count", "backend": kind})
        finally:
            Marks.hook = None
            stop.set()


def run(ctx: Ctx) -> None:
    def gen() -> dict[str, str]:
        g = tr.gen()
        g.update(trp.gen(ctx.tmp))
        return g

    lean_stage(ctx, gen, THEOREMS)
    drv = LeanDriver()
    ctx.cov["rule"] = (
        "A: distinct (family, history) pairs — every history contains at least one wait declaration or release and is "
        "queried after every operation with limits from {-1,0,1,2,3,99}; B: distinct (backend, slots, call tree) executions "
        "of the real ThreadRunner and distinct (backend, statuses, waits, n) poll scenarios")
    try:
        part_a(ctx, drv)
        part_b_poll(ctx, drv)
        result_api(ctx)
        slot_count_vs_new_waiter(ctx)
        declared_wait_beside_a_poll(ctx)
        part_b(ctx, drv)
    finally:
        drv.close()
    ctx.assumptions += [
        "statuses of the registered invocations are injected into the orchestrator's store (flagged injected); the final "
        "statuses go through set_invocation_status from an injected RUNNING record",
        "oracle A and the mem/SQLite equality are evaluated on lifecycle histories (release only through a final status); raw "
        "release_waiters on an id that stays runnable makes the two backends differ (proved: mem_sql_diverge_without_premise; a C16 matter)",
        "awaited ids are always registered invocations (an unknown id raises KeyError in memory and is dropped by SQLite's JOIN: C16)",
        "part B runs in real time with 2 ms polling and a watchdog; liveness in the model assumes the scheduler eventually takes an enabled step",
        "iteration order of the in-memory `_ready` set is unspecified: answers are compared as sets and by size",
        "call-tree tasks use the default (disabled) concurrency control and never retry; a node's body only waits for children it launched",
        "the model merges 'final status written' and 'thread joined' into one step and treats one poll as atomic (single runner)",
    ]
    if not ctx.quick:
        thorough_rebuild(ctx)


def replay(data: dict) -> int:
    import tempfile

    r = data.get("replay", data)
    tmp = tempfile.mkdtemp(prefix="verif-C09-replay-")
    if r.get("kind") == "tree":
        rig = RunnerRig(r["backend"], r["slots"], None, tmp, tag="rp")
        rig.start()
        out = rig.run_tree(r["tree"], float(r.get("timeout", 20)))
        print("tree", r["tree"], "->", out, "expected result", tree_size(r["tree"]))
        rig.stop()
        return 0 if out["status"] == "success" and out["result"] == tree_size(r["tree"]) else 1
    if r.get("kind") == "history":
        ctx = Ctx("C09", "quick", 0)
        rc = 0
        for k in (["mem", "sqlite"] if r["backend"] == "both" else [r["backend"]]):
            b = Backend(k, ctx, r["names"], "rp")
            ref = RefGraph(r["names"])
            for op in r["history"]:
                op = tuple(op)
                b.apply(op)
                ref.apply(op)
            a = b.query(r["limit"])
            v = judge(a, ref.blocking(), r["limit"])
            print(k, "get_blocking_invocations(", r["limit"], ") =", sorted(a), "reference blocking set =", sorted(ref.blocking()), "->", v or "ok")
            rc = rc or (1 if v else 0)
        ctx.cleanup()
        return rc
    if r.get("kind") == "poll":
        from pynenc.invocation.status import InvocationStatus as S

        app = make_app(r["backend"], tmp, app_id="c09pollrp")
        task = app.task(T.add)
        ids = [task(i).invocation_id for i in range(len(r["statuses"]))]
        inj = {"p": S.PENDING, "f": S.SUCCESS, "t": S.RETRY}
        for i, c in enumerate(r["statuses"]):
            if c in inj:
                inject_status(app, ids[i], inj[c], "other" if c == "p" else None, 0)
        for w, x in r["edges"]:
            app.orchestrator.waiting_for_results(ids[w], [ids[x]])
        st, es, n = r["statuses"], [tuple(e) for e in r["edges"]], r["n"]
        got = [ids.index(i.invocation_id) for i in app.orchestrator.get_invocations_to_run(n, rctx("rP"))]
        after = {i: app.orchestrator.get_invocation_status(ids[i]).value for i in range(len(st))}
        left = []
        while (q := app.broker.retrieve_invocation()) is not None:
            left.append(ids.index(q))
        runnable = {i for i, c in enumerate(st) if c in "rt"}
        blocking = ({x for _, x in es} - {w for w, _ in es}) & runnable
        v = judge_poll(got, n, runnable, blocking, after, left)
        print("get_invocations_to_run(", n, ") ->", got, "queue left", left, "blocking", sorted(blocking), "->", v or "ok")
        return 1 if v else 0
    print(data)
    return 0
