"""C10 — the recorded history of an invocation is exactly its sequence of status changes.

Lean: Props/C10.lean over Model/History.lean: conservation (stored + writer queue + not-yet-handed-over = transitions so far, at
      every moment of every interleaving), flushed history = transitions as a multiset per invocation, any time-ordered
      arrangement of it is the change sequence (a documented path by C01); tied to the code by the traced effect programs
      (every accepted transition is followed by exactly one history hand-over for that status).
Tie:  translator (effect programs, every run) + real lifecycles on both backends with the background history writers replaced
      by deferred writers that run arbitrarily late and in shuffled order: sequential lifecycles (success, failure, retries,
      concurrency-control reroute, kill-and-reroute, pending and running recovery) and scheduled concurrent pollers/workers
      (the C02 scenarios); accepted transitions are logged at the orchestrator's atomic transition.
Oracle (independent): after flushing, get_history(i) equals the logged transitions of i as a multiset of (status, requesting
      runner, time of change), every entry is stored under its own invocation, and ordered by the time of the change it is a
      path of the documented graph from REGISTERED to the current status.
"""
from __future__ import annotations

from collections import Counter
from typing import Any

from harness import tasks as T
from harness.apps import flush, inject_status, make_app, rctx, ts_us
from harness.common import Ctx, lean_stage, thorough_rebuild
from harness.sched_line import DeferredThreads
from harness.translate import programs as trp
from harness.translate import status as trs

THEOREMS = ["transition_followed_by_history", "conservation", "history_multiset_eq_transitions",
            "history_sorted_is_the_change_sequence", "stored_subset_log",
            # Props/C10Flush.lean: the flush waits for every registered writer (track before start, the list only grows)
            "inv_step", "flush_waits_for_every_writer", "pruning_lets_the_flush_return_early", "code_tracks_before_start_and_never_forgets"]


class Recorder:
    """logs every accepted transition at the orchestrator's atomic operations"""

    def __init__(self, app):
        self.log: list[tuple[str, str, str | None, int]] = []
        self.wrong: list[tuple] = []        # accepted requests answered with a record of another status
        o = app.orchestrator
        orig_t, orig_r = o._atomic_status_transition, o._register_new_invocations

        def trans(invocation_id, status, runner_id=None):
            rec = orig_t(invocation_id, status, runner_id)
            # the change that was REQUESTED and accepted (not whatever record comes back), at the time the store gave it
            self.log.append((invocation_id, status.value, runner_id, ts_us(rec.timestamp)))
            if rec.status != status:
                self.wrong.append((invocation_id, status.value, rec.status.value, runner_id))
            return rec

        def reg(invocations, runner_id=None):
            rec = orig_r(invocations, runner_id)
            for inv in invocations:
                self.log.append((inv.invocation_id, rec.status.value, runner_id, ts_us(rec.timestamp)))
            return rec

        o._atomic_status_transition = trans
        o._register_new_invocations = reg


def judge(ctx: Ctx, kind: str, app, recorder: Recorder, doc_edges: set, where: str, extra: dict | None = None, one_changer: bool = False) -> None:
    """`one_changer`: every change of the scenario was made by ONE thread, one after the other (only the background writers
    were re-ordered / late): then the list `get_history` hands out - which it documents as ordered by time - must itself be
    in the order of the changes, however late each writer ran"""
    per: dict[str, list] = {}
    for i, st, r, t in recorder.log:
        per.setdefault(i, []).append((st, r, t))
    for i, want, got_st, r in recorder.wrong:
        ctx.report(f"transition-returns-foreign-record[{kind}]", f"[{kind}] {where}: the accepted change to {want} requested by {r} was answered with a record in status {got_st} "
                                                                  f"(the history entry is written from that record)", {"backend": kind, "scenario": where, **(extra or {})})
    for i, changes in per.items():
        hist = app.state_backend.get_history(i)
        got = [(h.status_record.status.value, h.runner_context_id, ts_us(h.status_record.timestamp)) for h in hist]
        rep = {"backend": kind, "scenario": where, "changes": changes, "history": got, **(extra or {})}
        ctx.count()
        ctx.distinct((kind, where, tuple(s for s, _, _ in changes)))
        for h in hist:
            if h.invocation_id != i:
                ctx.report(f"history-under-wrong-invocation[{kind}]", f"[{kind}] {where}: an entry of invocation {h.invocation_id[:8]} is stored under {i[:8]}", rep)
        cg, cc = Counter(got), Counter(changes)
        if cg != cc:
            missing = list((cc - cg).elements())
            dup = list((cg - cc).elements())
            kind_ = "missing" if missing and not dup else ("extra" if dup and not missing else "mismatch")
            ctx.report(f"history-{kind_}[{kind}]:{where}",
                       f"[{kind}] {where}: after flushing, history of an invocation differs from its status changes: missing {[(s, r) for s, r, _ in missing]}, not-a-change/duplicated {[(s, r) for s, r, _ in dup]}",
                       rep)
            continue
        if one_changer and len({x[2] for x in got}) == len(got) and len({h.timestamp for h in hist}) == len(hist):
            by_change = [x[0] for x in sorted(got, key=lambda x: x[2])]
            if [x[0] for x in got] != by_change:
                ctx.report(f"history-order-depends-on-writers[{kind}]:{where}",
                           f"[{kind}] {where}: one thread made the changes {by_change} in this order; get_history (\"ordered by timestamp\") hands them out as {[x[0] for x in got]} - "
                           f"the order follows WHEN the background writers ran, not when the changes happened", rep)
        ordered = sorted(got, key=lambda x: x[2])
        prev = "START"
        ok = True
        for st, _, _ in ordered:
            if (prev, st.upper()) not in doc_edges:
                ok = False
            prev = st.upper()
        cur = app.orchestrator.get_invocation_status(i).value
        if not ok or not ordered or ordered[0][0] != "registered" or ordered[-1][0] != cur:
            ctx.report(f"history-not-a-path[{kind}]:{where}",
                       f"[{kind}] {where}: ordered by the time of the change the history is {[s for s, _, _ in ordered]} (current status {cur}): not a documented path from REGISTERED to the current status", rep)


def sequential(ctx: Ctx, kind: str, doc_edges: set) -> None:
    from pynenc import context, core_tasks
    from pynenc.conf.config_task import ConcurrencyControlType as C
    from pynenc.invocation.status import InvocationStatus as S

    defer = DeferredThreads().install()
    try:
        rounds = 4 if ctx.quick else 16
        for rnd in range(rounds):
            app = make_app(kind, ctx.tmp, app_id=f"c10{kind}{rnd}", max_pending_seconds=0.0, runner_considered_dead_after_minutes=0.0)
            rec = Recorder(app)
            ok_t = app.task(T.prog_body)
            rt = app.task(T.prog_retry, max_retries=2)
            cc_t = app.task(T.keyed, running_concurrency=C.TASK, reroute_on_concurrency_control=bool(rnd % 2))
            rA, rB = rctx("rA"), rctx("rB")

            def poll_run(c, n=5):
                for inv in list(app.orchestrator.get_invocations_to_run(n, c)):
                    try:
                        inv.run(c)
                    except BaseException:  # noqa: BLE001
                        pass

            ok_t("ok"), ok_t("fail"), rt("x")
            for _ in range(4):      # success, failure, retry x2 then failure
                poll_run(ctx.rng.choice([rA, rB]))
            # concurrency control: first claimed, second parked and re-routed, later run
            cc_t("a"), cc_t("b")
            claimed = list(app.orchestrator.get_invocations_to_run(2, rA))
            for inv in claimed:
                inv.run(rA)
            poll_run(rB)
            # kill and reroute a RUNNING invocation, then complete it elsewhere
            k = ok_t("ok")
            got = list(app.orchestrator.get_invocations_to_run(1, rA))
            if got:
                app.orchestrator.set_invocation_status(k.invocation_id, S.RUNNING, rA)
                app.runner._kill_and_reroute(k.invocation_id, rA)
                poll_run(rB)
            # pending recovery and running recovery (limits are 0: everything claimed is stale)
            p1, p2 = ok_t("ok"), ok_t("ok")
            got = list(app.orchestrator.get_invocations_to_run(2, rctx("rDead")))
            if got:
                app.orchestrator.set_invocation_status(got[0].invocation_id, S.RUNNING, rctx("rDead"))
            context.set_current_app(app)
            context.set_runner_context(app.app_id, rctx("recovery"))
            core_tasks.recover_pending_invocations()
            core_tasks.recover_running_invocations()
            poll_run(rB)
            # writers run arbitrarily late, in any order - and somebody (the monitor) READS the histories while a few writers are still
            # to come: whatever that reader sees, the histories read after the flush are complete
            ctx.rng.shuffle(defer.pending)
            late = [defer.pending.pop() for _ in range(min(len(defer.pending), ctx.rng.choice([1, 2, 3])))]
            # ... in particular the writers of the statuses a lifecycle can also bypass (PENDING -> REROUTED without KILLED or *_RECOVERY,
            # REGISTERED -> REROUTED without CONCURRENCY_CONTROLLED): without them the history still LOOKS like a complete path
            def _st(w):  # type: ignore[no-untyped-def]
                try:
                    return w.args[1].status_record.status.value
                except Exception:  # noqa: BLE001
                    return ""
            bypassable = [w for w in defer.pending if _st(w) in ("killed", "pending_recovery", "running_recovery", "concurrency_controlled")]
            for w in bypassable:
                defer.pending.remove(w)
            late += bypassable
            defer.flush()
            for i_ in {x[0] for x in rec.log}:
                try:
                    app.state_backend.get_history(i_)
                except BaseException:  # noqa: BLE001
                    pass
            for w_ in late:
                w_.run_now()
            defer.flush()
            flush(app)
            judge(ctx, kind, app, rec, doc_edges, "sequential-lifecycles", one_changer=True)
            ctx.sample({"backend": kind, "round": rnd, "transitions": len(rec.log), "invocations": len({x[0] for x in rec.log})}, cap=4)
    finally:
        defer.uninstall()


def concurrent(ctx: Ctx, kind: str, doc_edges: set) -> None:
    """C02's claim-and-run scenarios under the deterministic schedulers, history judged after a shuffled flush"""
    from harness.props import c02
    from harness.sched_sql import RandomChooser, explore

    w = c02.World(ctx, kind)
    total = 0
    try:
        for sc in [s for s in c02.poll_scenarios(ctx.quick) if s["run"]][: 1 if ctx.quick else 3]:
            def run_one(chooser, sc=sc):
                w.defer.pending.clear()
                w.app.purge()
                c02.BODY_LOG.clear()
                rec = Recorder(w.app)
                invs = [w.body_task(k).invocation_id for k in range(sc["n"])]
                for d in sc["dup"]:
                    w.app.broker.route_invocation(invs[d])

                def body(r: int):
                    def f() -> None:
                        c = rctx(f"r{r}")
                        for inv in list(w.app.orchestrator.get_invocations_to_run(sc["want"], c)):
                            inv.run(c)
                    return f

                run = w.sched.run([body(r) for r in range(sc["runners"])], chooser)
                ctx.rng.shuffle(w.defer.pending)
                w.defer.flush()
                flush(w.app)
                judge(ctx, kind, w.app, rec, doc_edges, f"scheduled:{sc['name']}", {"schedule": run.choices})
                # un-wrap for the next schedule
                del w.app.orchestrator._atomic_status_transition
                del w.app.orchestrator._register_new_invocations
                return run

            runs = explore(run_one, 2, 40 if ctx.quick else 400) if sc["runners"] == 2 else (run_one(RandomChooser(ctx.rng, 0.7)) for _ in range(20 if ctx.quick else 200))
            for _ in runs:
                total += 1
    finally:
        w.close()
    ctx.notes[f"scheduled_histories_{kind}"] = total


def batches(ctx: Ctx, kind: str, doc_edges: set) -> None:
    """batch registration (`parallelize`: one registration record for n invocations), each entry stored under its own
    invocation; then every member goes its own way"""
    defer = DeferredThreads().install()
    try:
        for rnd in range(2 if ctx.quick else 8):
            app = make_app(kind, ctx.tmp, app_id=f"c10b{kind}{rnd}")
            rec = Recorder(app)
            t = app.task(T.prog_body)
            n = ctx.rng.choice([2, 3, 5])
            group = t.parallelize([(ctx.rng.choice(["ok", "fail"]),) for _ in range(n)])
            ids = [i.invocation_id for i in group.invocations]
            t("ok")
            rA = rctx("rA")
            for inv in list(app.orchestrator.get_invocations_to_run(ctx.rng.randint(1, n), rA)):
                try:
                    inv.run(rA)
                except BaseException:  # noqa: BLE001
                    pass
            ctx.rng.shuffle(defer.pending)
            defer.flush()
            flush(app)
            judge(ctx, kind, app, rec, doc_edges, "batch-registration", {"batch": n})
            # the time-range scan (what the monitor's timeline reads) attributes one REGISTERED entry to every member
            import datetime as _dt
            lo, hi = _dt.datetime(2000, 1, 1, tzinfo=_dt.UTC), _dt.datetime(2100, 1, 1, tzinfo=_dt.UTC)
            seen = Counter()
            for chunk in app.state_backend.iter_history_in_timerange(lo, hi):
                for h in chunk:
                    if h.status_record.status.value == "registered":
                        seen[h.invocation_id] += 1
            for i in ids:
                if seen.get(i, 0) != 1:
                    ctx.report(f"history-scan-registered-count[{kind}]", f"[{kind}] batch of {n}: the time-range scan holds {seen.get(i, 0)} REGISTERED entries for a member of the batch (all: {sorted(seen.values())})",
                               {"backend": kind, "scenario": "batch-registration", "batch": n})
                    break
    finally:
        defer.uninstall()


def overlapping_writers(ctx: Ctx, kind: str, doc_edges: set) -> None:
    """the background history writers of ONE invocation run concurrently (in the product they are unsynchronised threads):
    every interleaving of the real `_add_histories` calls up to a pre-emption bound — source-line yield points in the
    in-memory backend, SQL-statement yield points on SQLite"""
    from pynenc.state_backend.mem_state_backend import MemStateBackend
    from harness.props.c02 import SQL_PATCH
    from harness.sched_line import LineSched
    from harness.sched_sql import SqlSched, explore

    defer = DeferredThreads().install()
    from pynenc.state_backend.base_state_backend import InvocationHistory

    # (a READER of the history - the monitor, a client - is one more actor: its lines, down to the sort key, are yield points too)
    sched = (LineSched(line_targets=[MemStateBackend._add_histories, MemStateBackend._get_history, InvocationHistory.timestamp],
                       deep_targets=[MemStateBackend._add_histories]) if kind == "mem" else SqlSched(patch=SQL_PATCH, max_steps=20000))
    sched.install()
    total = 0
    try:
        app = make_app(kind, ctx.tmp, app_id=f"c10w{kind}")
        t = app.task(T.prog_body)
        rA = rctx("rA")
        for nwriters in (2, 3):
            def run_one(chooser, nwriters=nwriters):
                defer.pending.clear()
                app.purge()
                rec = Recorder(app)
                t("ok")                                    # REGISTERED
                got = list(app.orchestrator.get_invocations_to_run(1, rA))     # PENDING
                if nwriters > 2:
                    got[0].run(rA)                         # RUNNING, SUCCESS
                writers = list(defer.pending)
                defer.pending.clear()
                ctx.rng.shuffle(writers)
                inv_id = got[0].invocation_id

                def reader() -> None:
                    for _ in range(2):
                        try:
                            app.state_backend.get_history(inv_id)
                        except BaseException:  # noqa: BLE001  (what the reader sees is not judged here; what is STORED afterwards is)
                            pass

                run = sched.run([w.run_now for w in writers[:3]] + [reader], chooser)
                for w in writers[3:]:
                    w.run_now()
                flush(app)
                judge(ctx, kind, app, rec, doc_edges, f"overlapping-writers:{len(writers)}", {"schedule": run.choices}, one_changer=True)
                del app.orchestrator._atomic_status_transition
                del app.orchestrator._register_new_invocations
                return run

            for _ in explore(run_one, 2, 40 if ctx.quick else 600):
                total += 1
    finally:
        sched.uninstall()
        defer.uninstall()
    ctx.notes[f"overlapping_writer_schedules_{kind}"] = total


def flush_waits_for_every_writer(ctx: Ctx, kind: str) -> None:
    """"once pending history writes have been flushed": two actors record a change of ONE invocation at the same time (the second
    anywhere between the source lines of the first's `add_history`), the writers they spawn are SLOW (held in `_add_histories`);
    `wait_for_all_async_operations` must not return before both entries are stored - whatever the interleaving of the two
    registrations of a writer."""
    import threading as _th

    from pynenc.invocation.status import InvocationStatus as S, InvocationStatusRecord
    from pynenc.state_backend.base_state_backend import BaseStateBackend
    from harness.sched_line import LineSched
    from harness.sched_sql import PrefixChooser

    sched = LineSched(line_targets=[BaseStateBackend], max_steps=4000)
    sched.install()
    n = 0
    try:
        app = make_app(kind, ctx.tmp, app_id=f"c10flush{kind}")
        sb = app.state_backend
        t = app.task(T.prog_body)
        real = sb._add_histories

        def run_one(chooser, order):
            app.purge()
            inv = t("ok").invocation_id
            flush(app)
            gate = _th.Event()

            def slow(ids, h):
                if h.status_record.status == S.PENDING:      # ONE slow writer; the other actor's writer finishes at once
                    gate.wait(10)
                return real(ids, h)

            sb._add_histories = slow  # type: ignore[method-assign]
            try:
                recs = [InvocationStatusRecord(S.PENDING, "rA"), InvocationStatusRecord(S.PENDING_RECOVERY, "rR")]
                bodies = [lambda: sb.add_history(inv, recs[0], rctx("rA")), lambda: sb.add_history(inv, recs[1], rctx("rR"))]
                run = sched.run(bodies if order == 0 else bodies[::-1], chooser)
                helper = _th.Thread(target=sb.wait_for_all_async_operations, daemon=True)
                helper.start()
                helper.join(0.04)
                early = not helper.is_alive()
                stored_at_return = [h.status_record.status.value for h in sb.get_history(inv)] if early else None
                gate.set()
                helper.join(10)
                flush(app)
            finally:
                gate.set()
                del sb._add_histories
            run.meta = (early, stored_at_return, inv)  # type: ignore[attr-defined]
            return run

        for order in (0, 1):
            steps = len(run_one(PrefixChooser([0] * 5000), order).choices)
            for k in range(steps + 1):
                run = run_one(PrefixChooser([0] * k + [1] * 5000), order)
                early, stored, inv = run.meta  # type: ignore[attr-defined]
                n += 1
                ctx.count()
                ctx.distinct((kind, "flush-waits", order, k))
                if early:
                    ctx.report(f"flush-returns-before-writer[{kind}]",
                               f"[{kind}] two actors record a change of one invocation (the second enters after step {k} of the first's add_history); the PENDING writer is still "
                               f"held, yet wait_for_all_async_operations() returned: the history read at that moment is {stored} (PENDING and PENDING_RECOVERY were recorded)",
                               {"backend": kind, "scenario": "flush-waits", "order": order, "second_enters_after_step": k, "schedule": run.choices})
                got = sorted(h.status_record.status.value for h in sb.get_history(inv))
                if got != ["pending", "pending_recovery", "registered"]:
                    ctx.report(f"history-mismatch[{kind}]:flush-waits", f"[{kind}] after both writers finished the history is {got}", {"backend": kind, "scenario": "flush-waits", "order": order, "k": k})
    finally:
        sched.uninstall()
    ctx.notes[f"flush_wait_schedules_{kind}"] = n


def fault_after_the_change(ctx: Ctx, kind: str, doc_edges: set) -> None:
    """something fails right AFTER a status change was committed (the trigger notification of `set_invocation_status` raises - a trigger
    store that is locked, a broken condition): the change happened, so it has its history entry, whatever becomes of the caller"""
    for at in ("pending", "running", "success", "failed"):
        app = make_app(kind, ctx.tmp, app_id=f"c10fault{kind}{at}")
        rec = Recorder(app)
        t = app.task(T.prog_body)
        rA = rctx("rA")
        real = app.trigger.report_tasks_status
        hit = []

        def report(ids, status=None, *a, **k):  # type: ignore[no-untyped-def]
            if status is not None and status.value == at and not hit:
                hit.append(1)
                raise RuntimeError("trigger store unavailable")
            return real(ids, status, *a, **k)

        app.trigger.report_tasks_status = report  # type: ignore[method-assign]
        try:
            t("fail" if at == "failed" else "ok")
            for _ in range(2):
                try:
                    for inv in list(app.orchestrator.get_invocations_to_run(1, rA)):
                        try:
                            inv.run(rA)
                        except BaseException:  # noqa: BLE001
                            pass
                except BaseException:  # noqa: BLE001
                    pass
        finally:
            del app.trigger.report_tasks_status
        flush(app)
        ctx.distinct((kind, "fault-after-change", at, bool(hit)))
        judge(ctx, kind, app, rec, doc_edges, f"fault-after-change:{at}", {"fault_at": at, "fault_hit": bool(hit)})
        del app.orchestrator._atomic_status_transition
        del app.orchestrator._register_new_invocations


def long_lifecycle(ctx: Ctx, kind: str, doc_edges: set) -> None:
    """a lifecycle with far more changes than usual: an invocation that concurrency control defers on EVERY poll while another one of its
    task keeps running (a re-route storm: CONCURRENCY_CONTROLLED, REROUTED, again and again), then runs.  Every one of the changes has its
    entry, the first (REGISTERED) included - however many there are."""
    from pynenc.conf.config_task import ConcurrencyControlType as C
    from pynenc.invocation.status import InvocationStatus as S

    defer = DeferredThreads().install()
    try:
        app = make_app(kind, ctx.tmp, app_id=f"c10long{kind}")
        rec = Recorder(app)
        t = app.task(T.keyed, running_concurrency=C.TASK, reroute_on_concurrency_control=True)
        a, b = t("a"), t("b")
        rA, rB = rctx("rA"), rctx("rB")
        got = list(app.orchestrator.get_invocations_to_run(1, rA))
        app.orchestrator.set_invocation_status(got[0].invocation_id, S.RUNNING, rA)
        polls = 520 if ctx.quick else 1100
        for k in range(polls):
            list(app.orchestrator.get_invocations_to_run(1, rB))       # the other one: deferred and re-routed
            if k % 64 == 0:
                defer.flush()
        other = got[0].invocation_id
        app.orchestrator.set_invocation_status(other, S.SUCCESS, rA)
        for inv in list(app.orchestrator.get_invocations_to_run(1, rB)):
            inv.run(rB)
        defer.flush()
        flush(app)
        judge(ctx, kind, app, rec, doc_edges, "long-lifecycle", one_changer=False)
        n = max((sum(1 for i, *_ in rec.log if i == inv_id) for inv_id in {i for i, *_ in rec.log}), default=0)
        ctx.notes[f"long_lifecycle_changes_{kind}"] = n
        _ = (a, b)
    finally:
        defer.uninstall()


def forked_process_names_itself(ctx: Ctx) -> None:
    """each entry names the runner that made the change - also when the change is made by a process FORKED from one that has already
    recorded changes (a worker of a process runner, a pre-forking server): outside a runner the "runner" is the process itself"""
    import json as _json
    import os as _os

    app = make_app("mem", ctx.tmp, app_id="c10fork")
    t = app.task(T.prog_body)
    first = t("ok")
    flush(app)
    mine = [h.runner_context_id for h in app.state_backend.get_history(first.invocation_id)]
    r, w = _os.pipe()
    pid = _os.fork()
    if pid == 0:
        try:
            _os.close(r)
            inv = t("ok")
            flush(app)
            ids = [h.runner_context_id for h in app.state_backend.get_history(inv.invocation_id)]
            rec = app.orchestrator.get_invocation_status_record(inv.invocation_id)
            _os.write(w, _json.dumps({"pid": _os.getpid(), "history": ids, "owner": rec.runner_id}).encode())
        finally:
            _os._exit(0)
    _os.close(w)
    data = b""
    while chunk := _os.read(r, 65536):
        data += chunk
    _os.close(r)
    _os.waitpid(pid, 0)
    ctx.count()
    ctx.distinct(("forked-process",))
    try:
        d = _json.loads(data.decode())
    except Exception:  # noqa: BLE001
        ctx.obligation("the forked-process probe of C10 ran", False, repr(data[:200]))
        return
    bad = [i for i in d["history"] if not str(i).endswith(f"-{d['pid']}")]
    if bad or not all(str(i).endswith(f"-{_os.getpid()}") for i in mine):
        ctx.report("history-names-another-process", f"a process forked from one that had already recorded a change (pid {_os.getpid()}, entries {mine}) registers an invocation of its own: "
                                                     f"its REGISTERED entry names {d['history']} (the forked process is pid {d['pid']})", {"scenario": "forked-process"})


def adjacent_transitions(ctx: Ctx, kind: str, doc_edges: set) -> None:
    """two accepted changes of ONE invocation by different runners back to back: the second request is issued (and retried)
    while the first is anywhere between its validation, its write and its return - the first thread paused after each of its
    scheduling steps, the second run to completion.  Each accepted change must get exactly its own history entry."""
    from pynenc.invocation.status import InvocationStatus as S
    from pynenc.orchestrator.mem_orchestrator import MemOrchestrator
    from harness.props.c02 import SQL_PATCH
    from harness.sched_line import LineSched
    from harness.sched_sql import PrefixChooser, SqlSched

    defer = DeferredThreads().install()
    sched = (LineSched(line_targets=[MemOrchestrator._atomic_status_transition, MemOrchestrator._interanl_atomic_status_transition],
                       lock_modules=["pynenc.orchestrator.mem_orchestrator"]) if kind == "mem" else SqlSched(patch=SQL_PATCH, max_steps=20000))
    sched.install()
    n = 0
    try:
        app = make_app(kind, ctx.tmp, app_id=f"c10adj{kind}")
        t = app.task(T.prog_body)
        pairs = [("retry-then-claim", (S.RUNNING, "rA"), (S.RETRY, "rA"), (S.PENDING, "rB")),
                 ("claim-then-recovery", (S.REGISTERED, None), (S.PENDING, "rA"), (S.PENDING_RECOVERY, "rR")),
                 ("start-then-kill", (S.PENDING, "rA"), (S.RUNNING, "rA"), (S.KILLED, "rA"))]
        for name, start, first, second in pairs:
            def run_one(chooser, start=start, first=first, second=second):
                defer.pending.clear()
                app.purge()
                inv = t("ok").invocation_id
                flush(app)
                defer.flush()
                inject_status(app, inv, start[0], start[1], 0)
                rec = Recorder(app)
                rec.log.append((inv, start[0].value, start[1], -1))      # (injected starting point, not judged as a change)

                def a() -> None:
                    app.orchestrator.set_invocation_status(inv, first[0], rctx(first[1]))

                def b() -> None:
                    for _ in range(3):          # refused until the first change is in: try again
                        try:
                            app.orchestrator.set_invocation_status(inv, second[0], rctx(second[1]))
                            return
                        except Exception:  # noqa: BLE001
                            pass

                run = sched.run([a, b], chooser)
                ctx.rng.shuffle(defer.pending)
                defer.flush()
                flush(app)
                run.meta = (inv, rec)  # type: ignore[attr-defined]
                del app.orchestrator._atomic_status_transition
                del app.orchestrator._register_new_invocations
                return run

            steps = len(run_one(PrefixChooser([0] * 5000)).choices)
            for k in range(steps + 1):
                run = run_one(PrefixChooser([0] * k + [1] * 5000))
                inv, rec = run.meta  # type: ignore[attr-defined]
                n += 1
                ctx.count()
                ctx.distinct((kind, "adjacent", name, k))
                rep = {"backend": kind, "scenario": f"adjacent:{name}", "second_request_after_step": k, "schedule": run.choices}
                for i, want, got_st, r in rec.wrong:
                    ctx.report(f"transition-returns-foreign-record[{kind}]", f"[{kind}] {name}: the accepted change to {want} requested by {r} was answered with a record in status {got_st}: "
                                                                              f"its history entry describes another runner's change (second request issued after step {k} of the first)", rep)
                changes = [(st, r) for (i, st, r, ts) in rec.log if ts >= 0]
                hist = sorted(app.state_backend.get_history(inv), key=lambda h: h.status_record.timestamp)
                got = [(h.status_record.status.value, h.runner_context_id) for h in hist if h.status_record.status.value != "registered" or start[0] != S.REGISTERED]
                got = [g for g in got if g[0] != "registered"]
                if Counter(got) != Counter(changes):
                    ctx.report(f"history-mismatch[{kind}]:adjacent:{name}", f"[{kind}] {name}: accepted changes {changes} but the history holds {got} (second request issued after step {k} of the first)", rep)
        # three actors on one invocation: the owner's RETRY and two competing claims, random schedules; the whole history must be
        # the accepted changes and a documented path (exactly one of the claims is accepted)
        from harness.sched_sql import RandomChooser
        for _ in range(25 if ctx.quick else 250):
            defer.pending.clear()
            app.purge()
            rec = Recorder(app)
            inv = t("ok").invocation_id
            app.orchestrator.set_invocation_status(inv, S.PENDING, rctx("rA"))
            app.orchestrator.set_invocation_status(inv, S.RUNNING, rctx("rA"))

            def owner() -> None:
                app.orchestrator.set_invocation_status(inv, S.RETRY, rctx("rA"))

            def claimer(r: str):
                def f() -> None:
                    for _ in range(3):
                        try:
                            app.orchestrator.set_invocation_status(inv, S.PENDING, rctx(r))
                            return
                        except Exception:  # noqa: BLE001
                            pass
                return f

            run = sched.run([owner, claimer("rB"), claimer("rC")], RandomChooser(ctx.rng, 0.6))
            ctx.rng.shuffle(defer.pending)
            defer.flush()
            flush(app)
            n += 1
            judge(ctx, kind, app, rec, doc_edges, "adjacent:retry-vs-two-claims", {"schedule": run.choices})
            del app.orchestrator._atomic_status_transition
            del app.orchestrator._register_new_invocations
    finally:
        sched.uninstall()
        defer.uninstall()
    ctx.notes[f"adjacent_transition_schedules_{kind}"] = n


def run(ctx: Ctx) -> None:
    def gen() -> dict[str, str]:
        g = trs.gen()
        g.update(trp.gen(ctx.tmp))
        from harness.translate import histwriter

        g.update(histwriter.gen())
        return g

    lean_stage(ctx, gen, THEOREMS)
    doc_edges = set(trs.doc_graph()[0])
    ctx.cov["rule"] = ("per backend: sequential lifecycle rounds (success / failure / retries / concurrency-control reroute / kill-and-reroute / pending and "
                       "running recovery) and scheduled concurrent poll-and-run scenarios; history writers deferred and flushed in shuffled order; "
                       "distinct = distinct (backend, scenario, status-change sequence of an invocation)")
    forked_process_names_itself(ctx)
    for kind in ("mem", "sqlite"):
        sequential(ctx, kind, doc_edges)
        batches(ctx, kind, doc_edges)
        overlapping_writers(ctx, kind, doc_edges)
        adjacent_transitions(ctx, kind, doc_edges)
        flush_waits_for_every_writer(ctx, kind)
        fault_after_the_change(ctx, kind, doc_edges)
        long_lifecycle(ctx, kind, doc_edges)
        concurrent(ctx, kind, doc_edges)
    ctx.obligation("flushed history == logged transitions (multiset, own invocation, documented path by time of change) on Mem and SQLite",
                   not any(v["signature"].startswith("history-") for v in ctx.violations), "see violations")
    ctx.assumptions += [
        "the time of a change is the record timestamp taken inside the atomic transition; two changes of one invocation never share a microsecond (real clock)",
        "SQLite keys history rows by (invocation, entry creation time, status): two entries with the same status created in the same microsecond would collapse — not constructible with the real clock",
    ]
    if not ctx.quick:
        thorough_rebuild(ctx)


def replay(data: dict) -> int:
    from harness.common import replay_by_rerun

    return replay_by_rerun("C10", run, data)
