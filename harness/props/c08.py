"""C08 — the broker delivers each routed message exactly once, first in first out.

Lean: Props/C08.lean over Model/Broker.lean — `mem_refines_queue`, `sql_refines_queue` (non-decreasing clock;
      `sql_fifo_needs_monotone_clock` shows the hypothesis is needed), and the history theorems quantified over every
      interleaving of atomic route / batch-route / retrieve / count / purge steps by any number of actors
      (`each_message_once`, `fifo`, `count_eq_routed_minus_retrieved`, `retrieve_returns_oldest_undelivered`,
      `empty_yields_none`, `concurrent_retrieve_partition`, `no_double_delivery`, `oblivious`).
Tie:  (1) sequential differential of MemBroker and SQLiteBroker (two broker objects on one file) against the Lean
          driver: exhaustive short operation sequences + seeded random long ones, repeated ids, batch routing, the
          empty id, a final drain that compares the whole queue content through public calls only;
      (2) SQLite: 2 real threads (exhaustive schedules, bounded pre-emptions) and 3 real threads (seeded random
          schedules), each with its own broker object and connections, under the statement-level cooperative
          scheduler of harness/sched_sql.py; every concurrent history must be linearizable w.r.t. the FIFO queue and
          the witness order is replayed on the Lean model.
Search: an oracle that knows nothing of the model keeps its own list of routed / delivered ids and judges every
      result of the real brokers (count, FIFO, exactly-once, None only when empty); for concurrent histories it checks
      delivered + remaining = routed as multisets and searches a linearization.  What it flags is a concrete operation
      sequence / thread schedule.
"""
from __future__ import annotations

import itertools
from collections import Counter
from typing import Any, Callable

from harness.apps import make_app
from harness.common import Ctx, LeanDriver, lean_stage, thorough_rebuild, tok
from harness.sched_sql import PrefixChooser, RandomChooser, SqlSched, explore

THEOREMS = [
    "mem_refines_queue", "sql_refines_queue", "sql_fifo_needs_monotone_clock", "broker_refines_queue",
    "each_message_once", "fifo", "count_eq_routed_minus_retrieved", "retrieve_returns_oldest_undelivered",
    "empty_yields_none", "concurrent_retrieve_partition", "no_double_delivery", "oblivious", "wf_empty",
    "trace_eq_zip", "routeMany_is_routes", "stmt_locked_exactly_once_fifo", "stmt_unlocked_double_delivery",
    "mem_each_message_once", "sql_each_message_once",
    # Props/C08Txn.lean: a refused COMMIT - a call that returns did its work once, a call that raises did nothing; the in-transaction retry duplicates
    "send_once_or_nothing", "retrieve_once_or_nothing", "retry_in_transaction_duplicates", "retry_in_transaction_copies", "code_is_straight_line",
]

Op = tuple  # ("route", id) | ("many", (ids…)) | ("retrieve",) | ("count",) | ("purge",)


# ------------------------------------------------------------------------------------------------
# running one operation on a real broker / writing it for the model
# ------------------------------------------------------------------------------------------------

def apply(b: Any, op: Op) -> str:
    """Canonical result of one public call: `ok`, id token / `-`, the count, or `err:<type>`."""
    try:
        k = op[0]
        if k == "route":
            r = b.route_invocation(op[1])
            return "ok" if r is None else f"ret:{type(r).__name__}"
        if k == "many":
            r = b.route_invocations(list(op[1]))
            return "ok" if r is None else f"ret:{type(r).__name__}"
        if k == "retrieve":
            r = b.retrieve_invocation()
            return tok(r) if (r is None or isinstance(r, str)) else f"ret:{type(r).__name__}"
        if k == "count":
            r = b.count_invocations()
            return str(r) if isinstance(r, int) and not isinstance(r, bool) else f"ret:{type(r).__name__}"
        if k == "purge":
            b.purge()
            return "ok"
        raise ValueError(k)
    except Exception as e:  # noqa: BLE001
        return f"err:{type(e).__name__}"


class ModelWriter:
    """Writes operations as driver lines; SQLite inserts get non-decreasing clock readings with ties."""

    def __init__(self, backend: str, rng):
        self.p = "bk.mem" if backend == "mem" else "bk.sql"
        self.sql = backend != "mem"
        self.rng = rng
        self.clk = 0

    def _t(self) -> int:
        self.clk += self.rng.choice((0, 0, 1, 3))
        return self.clk

    def line(self, op: Op) -> str:
        k = op[0]
        if k == "route":
            return f"{self.p}.route {self._t()} {tok(op[1])}" if self.sql else f"{self.p}.route {tok(op[1])}"
        if k == "many":
            if self.sql:
                return " ".join([f"{self.p}.routemany"] + [f"{self._t()} {tok(i)}" for i in op[1]])
            return " ".join([f"{self.p}.routemany"] + [tok(i) for i in op[1]])
        return f"{self.p}.{k}"


# ------------------------------------------------------------------------------------------------
# the oracle (independent of the Lean model)
# ------------------------------------------------------------------------------------------------

class Shadow:
    """What an outside observer knows: ids routed and number handed out since the last purge."""

    def __init__(self) -> None:
        self.routed: list[str] = []
        self.ndel = 0

    def judge(self, op: Op, out: str) -> tuple[str, str] | None:
        """Returns (signature-class, description) when `out` contradicts the property, else None."""
        k = op[0]
        if out.startswith(("err:", "ret:")):
            return ("exception" if out.startswith("err:") else "bad-return", f"{k} gave {out}")
        pending = self.routed[self.ndel:]
        if k == "route":
            self.routed.append(op[1])
        elif k == "many":
            self.routed.extend(op[1])
        elif k == "purge":
            self.routed, self.ndel = [], 0
        elif k == "count":
            want = len(self.routed) - self.ndel
            if out != str(want):
                return ("count", f"count_invocations() = {out}, but {len(self.routed)} routed - {self.ndel} retrieved = {want}")
        elif k == "retrieve":
            want = pending[0] if pending else None
            if out != tok(want):
                got = _untok(out)
                if got is None:
                    return ("none-on-nonempty", f"retrieve_invocation() = None with {len(pending)} message(s) queued (oldest {want!r})")
                if want is None:
                    return ("delivered-from-empty", f"retrieve_invocation() = {got!r} although every routed message was already handed out")
                if got in pending:
                    return ("fifo-order", f"retrieve_invocation() = {got!r}, but the oldest undelivered message is {want!r} (queue {pending[:6]})")
                return ("delivered-twice-or-invented", f"retrieve_invocation() = {got!r}, which is not queued (queue {pending[:6]})")
            if want is not None:
                self.ndel += 1
        return None


def _untok(t: str) -> str | None:
    if t == "-":
        return None
    if t == "e":
        return ""
    return bytes.fromhex(t[1:]).decode("utf-8")


# ------------------------------------------------------------------------------------------------
# sequential differential
# ------------------------------------------------------------------------------------------------

IDS = ["a", "b", "", "ünï-1", "a"]
ALPHA: list[Op] = [("route", "a"), ("route", "b"), ("many", ("a", "b", "a")), ("many", ()), ("retrieve",), ("count",), ("purge",)]


def short_sequences(max_len: int) -> list[list[Op]]:
    out: list[list[Op]] = []
    for n in range(1, max_len + 1):
        out += [list(s) for s in itertools.product(ALPHA, repeat=n)]
    return out


def random_sequence(rng, n: int, big: int) -> list[Op]:
    p_route = rng.choice((0.25, 0.45, 0.65))
    pool = IDS + [f"inv-{rng.randrange(10**6):06d}" for _ in range(5)]
    seq: list[Op] = []
    for _ in range(n):
        x = rng.random()
        if x < p_route:
            seq.append(("route", rng.choice(pool)))
        elif x < p_route + 0.12:
            m = rng.choice((0, 1, 2, 3, 5, 8, big if rng.random() < 0.1 else 4))
            seq.append(("many", tuple(rng.choice(pool) for _ in range(m))))
        elif x < 0.93:
            seq.append(("retrieve",))
        elif x < 0.985:
            seq.append(("count",))
        else:
            seq.append(("purge",))
    return seq


def run_sequences(ctx: Ctx, drv: LeanDriver, backend: str, brokers: list[Any], seqs: list[list[Op]], family: str) -> None:
    """Each sequence: purge, count, the ops, count, drain.  Real outputs are judged by the Shadow oracle and
    compared line by line with the Lean model."""
    lines: list[str] = []
    impl: list[str] = []
    where: list[int] = []
    mw = ModelWriter(backend, ctx.rng)
    nops = 0
    for si, seq in enumerate(seqs):
        sh = Shadow()
        full: list[Op] = [("purge",), ("count",), *seq, ("count",)]
        done: list[Op] = []
        bad = None
        k = 0
        draining = False
        while True:
            if k < len(full):
                op = full[k]
            else:
                draining = True
                op = ("retrieve",)
            b = brokers[(k + si) % len(brokers)]
            out = apply(b, op)
            done.append(op)
            lines.append(mw.line(op))
            impl.append(out)
            where.append(si)
            nops += 1
            v = sh.judge(op, out)
            if v and not bad:
                bad = v
                ctx.report(f"{backend}:{v[0]}", f"[{backend}] after {len(done) - 1} operations: {v[1]}",
                           {"kind": "sequential", "backend": backend, "ops": [list(o) for o in done]})
                break
            k += 1
            if draining and (out == "-" or k > len(full) + len(sh.routed) + 3):
                break
        ctx.distinct((backend, family, si if family != "exhaustive" else tuple(map(str, seq))))
    outs = drv.ask_many(lines)
    ctx.count(len(lines))
    nd = 0
    first = None
    for ln, i, m, si in zip(lines, impl, outs, where):
        if i != m:
            nd += 1
            first = first or f"sequence #{si} {[list(o) for o in seqs[si]][:8]}: at `{ln[:80]}` impl={i!r} model={m!r}"
    ctx.obligation(f"correspondence: {type(brokers[0]).__name__} == Lean {backend} model on {len(seqs)} {family} sequences ({nops} calls)",
                   nd == 0, f"{nd} differing results; first: {first}")
    ctx.notes[f"{backend}_{family}_sequences"] = len(seqs)
    ctx.notes[f"{backend}_{family}_calls"] = nops


# ------------------------------------------------------------------------------------------------
# concurrent histories on SQLite
# ------------------------------------------------------------------------------------------------

def expand(hist: list[tuple[int, Op, str, int, int]]) -> list[list[tuple[str, Any, str, int, int]]]:
    """Per-thread lists of atomic operations (a batch is its single routes, all within the call's interval)."""
    per: dict[int, list] = {}
    for tid, op, res, t0, t1 in hist:
        lst = per.setdefault(tid, [])
        if op[0] == "many":
            if not res == "ok":
                lst.append(("many", op[1], res, t0, t1))
            for i in op[1]:
                lst.append(("route", i, res, t0, t1))
        else:
            lst.append((op[0], op[1] if len(op) > 1 else None, res, t0, t1))
    return [per[t] for t in sorted(per)]


def linearize(init: list[str], threads: list[list[tuple]], remaining: list[str]) -> list[tuple[int, int]] | None:
    """Wing–Gong search: an order of all operations that respects program order and real-time order
    (a finished before b started ⇒ a before b), under which a FIFO queue starting at `init` gives exactly
    the observed results and ends as `remaining`.  Returns the order as (thread, index) pairs or None."""
    n = len(threads)
    seen: set = set()

    def rec(pos: tuple[int, ...], q: tuple[str, ...]) -> list | None:
        if all(pos[t] == len(threads[t]) for t in range(n)):
            return [] if list(q) == remaining else None
        key = (pos, q)
        if key in seen:
            return None
        seen.add(key)
        # an op may go next iff no other pending op finished before it started
        min_end = min(threads[t][pos[t]][4] for t in range(n) if pos[t] < len(threads[t]))
        for t in range(n):
            if pos[t] == len(threads[t]):
                continue
            kind, arg, res, t0, _t1 = threads[t][pos[t]]
            if t0 > min_end:
                continue
            if kind == "route":
                if res != "ok":
                    continue
                q2 = q + (arg,)
            elif kind == "retrieve":
                if q:
                    if res != tok(q[0]):
                        continue
                    q2 = q[1:]
                else:
                    if res != "-":
                        continue
                    q2 = q
            elif kind == "count":
                if res != str(len(q)):
                    continue
                q2 = q
            else:
                continue
            nxt = rec(pos[:t] + (pos[t] + 1,) + pos[t + 1:], q2)
            if nxt is not None:
                return [(t, pos[t])] + nxt
        return None

    return rec(tuple(0 for _ in threads), tuple(init))


class Conc:
    """One SQLite app, several broker objects on its file, the scheduler."""

    def __init__(self, ctx_tmp: str, app_id: str, nthreads: int):
        self.app = make_app("sqlite", ctx_tmp, app_id=app_id)
        main = self.app.broker
        self.main = main
        self.brokers = [type(main)(self.app) for _ in range(nthreads)]
        self.sched = SqlSched()

    def run(self, init: list[str], programs: list[list[Op]], chooser: Callable):
        self.main.purge()
        for i in init:
            self.main.route_invocation(i)
        hist: list[tuple[int, Op, str, int, int]] = []

        def body(tid: int):
            def f():
                for op in programs[tid]:
                    t0 = self.sched.now()
                    res = apply(self.brokers[tid], op)
                    hist.append((tid, op, res, t0, self.sched.now()))
            return f

        run = self.sched.run([body(t) for t in range(len(programs))], chooser)
        remaining = []
        while True:
            r = self.main.retrieve_invocation()
            if r is None or len(remaining) > 10_000:
                break
            remaining.append(r)
        return run, hist, remaining


def judge_history(init: list[str], programs: list[list[Op]], run, hist, remaining) -> tuple[str, str, list | None] | None:
    """(signature-class, description, None) for a violating history; (None…) never; witness order returned separately."""
    if run.aborted:
        return ("stuck", f"threads did not finish within the step bound (schedule {run.choices[:40]})", None)
    errs = [(tid, op, res) for tid, op, res, _, _ in hist if res.startswith(("err:", "ret:"))]
    thread_errs = [repr(e) for e in run.errors if e is not None]
    if errs or thread_errs:
        return ("error", f"operation failed: {errs[:3] or thread_errs[:3]}", None)
    routed = Counter(init)
    delivered: Counter = Counter()
    for _tid, op, res, _, _ in hist:
        if op[0] == "route":
            routed[op[1]] += 1
        elif op[0] == "many":
            routed.update(op[1])
        elif op[0] == "retrieve" and res != "-":
            delivered[_untok(res)] += 1
    rem = Counter(remaining)
    twice = {m: c for m, c in (delivered + rem).items() if c > routed.get(m, 0)}
    lost = {m: c for m, c in routed.items() if c > (delivered + rem).get(m, 0)}
    if twice:
        m = next(iter(twice))
        who = [tid for tid, op, res, _, _ in hist if op[0] == "retrieve" and res == tok(m)]
        return ("delivered-twice", f"message {m!r} routed {routed.get(m, 0)}x but handed out/left {twice[m]}x (retrieved by threads {who})", None)
    if lost:
        m = next(iter(lost))
        return ("lost", f"message {m!r} routed {routed[m]}x, but only {(delivered + rem).get(m, 0)}x delivered or still queued", None)
    return None


def lock_discipline(run, hist) -> list[str]:
    """The two facts the statement-level Lean model (`locked = true`) assumes, observed on the real run:
    L1 inside one retrieve_invocation call no query runs before a non-query statement of that call succeeded
       (the SELECT is under the write lock taken by the first statement);
    L2 between a thread's first successful non-query statement and the end of that transaction no other thread's
       non-query statement succeeds (SQLite's write lock is exclusive)."""
    bad: list[str] = []
    holder = None
    for tick, th, kind in run.events:
        if kind == "w":
            if holder is not None and holder != th:
                bad.append(f"L2: thread {th} wrote at tick {tick} inside the write transaction of thread {holder}")
            holder = th
        elif kind == "end" and holder == th:
            holder = None
    for tid, op, _res, t0, t1 in hist:
        if op[0] != "retrieve":
            continue
        kinds = [k for tick, th, k in run.events if th == tid and t0 <= tick < t1]
        if "q" in kinds and "w" not in kinds[: kinds.index("q")]:
            bad.append(f"L1: thread {tid} retrieve_invocation read the queue before taking the write lock (effects {kinds})")
    return bad


SCENARIOS_2: list[tuple[str, list[str], list[list[Op]]]] = [
    ("one-message-two-retrievers", ["m1"], [[("retrieve",)], [("retrieve",)]]),
    ("two-messages-three-retrievals", ["m1", "m2"], [[("retrieve",), ("retrieve",)], [("retrieve",)]]),
    ("retriever-vs-router-retriever", ["m1"], [[("retrieve",)], [("route", "m2"), ("retrieve",)]]),
    ("router-vs-retriever", [], [[("route", "a"), ("route", "b")], [("retrieve",), ("retrieve",)]]),
    ("repeated-id", ["a", "a"], [[("retrieve",), ("count",)], [("retrieve",)]]),
    ("batch-routers", [], [[("many", ("a", "b"))], [("many", ("c",)), ("retrieve",)]]),
    ("count-among-retrievers", ["m1", "m2", "m3"], [[("retrieve",), ("retrieve",)], [("retrieve",), ("count",)]]),
    ("two-routers-same-id", [], [[("route", "x"), ("retrieve",)], [("route", "x"), ("count",)]]),
]


def random_programs(rng, nthreads: int) -> tuple[list[str], list[list[Op]]]:
    init = [rng.choice(["m1", "m2", "m3", "a"]) for _ in range(rng.randrange(0, 4))]
    progs: list[list[Op]] = []
    for _ in range(nthreads):
        p: list[Op] = []
        for _ in range(rng.randint(1, 3)):
            x = rng.random()
            if x < 0.5:
                p.append(("retrieve",))
            elif x < 0.8:
                p.append(("route", rng.choice(["a", "b", "m1", "z"])))
            elif x < 0.9:
                p.append(("many", tuple(rng.choice(["a", "b"]) for _ in range(rng.randint(0, 2)))))
            else:
                p.append(("count",))
        progs.append(p)
    if not any(o[0] == "retrieve" for p in progs for o in p):
        progs[0].append(("retrieve",))
    return init, progs


def witness_lines(init: list[str], threads: list[list[tuple]], order: list[tuple[int, int]]) -> tuple[list[str], list[str]]:
    """The linearization as Lean driver lines (clock = position) and the observed results in that order."""
    lines = ["bk.sql.reset"] + [f"bk.sql.route {k} {tok(i)}" for k, i in enumerate(init)]
    want = ["ok"] * len(lines)
    clk = len(init)
    for t, k in order:
        kind, arg, res, _, _ = threads[t][k]
        clk += 1
        lines.append(f"bk.sql.route {clk} {tok(arg)}" if kind == "route" else f"bk.sql.{kind}")
        want.append(res)
    return lines, want


def adversarial_app_ids(ctx: Ctx) -> None:
    """the SQLite broker of applications whose id resembles SQLite's own names (the catalogue is queried by NAME with LIKE): the same
    fixed script against the FIFO list"""
    script: list = [("route", "a"), ("route", "b"), ("many", ["c", "d"]), ("retrieve",), ("count",), ("purge",), ("count",), ("retrieve",), ("route", "e"),
                    ("many", ["f", "g"]), ("retrieve",), ("count",), ("purge",), ("retrieve",), ("count",)]
    for app_id in ["sqlite3", "SQLiteDemo", "sqlitedb.v2", "sqlite", "SQLITE_X", "x_sqlite_y", "sqlite%", "sqlite_", "Sqlite-queue", "c08 plain"]:
        app = make_app("sqlite", ctx.tmp, app_id=app_id, db=f"{ctx.tmp}/c08adv{abs(hash(app_id)) % 10**8}.db")
        q: list = []
        for k, op in enumerate(script):
            got = apply(app.broker, op)
            if op[0] == "route":
                q.append(op[1]); want = "ok"
            elif op[0] == "many":
                q += list(op[1]); want = "ok"
            elif op[0] == "retrieve":
                want = tok(q.pop(0)) if q else tok(None)
            elif op[0] == "count":
                want = str(len(q))
            else:
                q = []; want = "ok"
            ctx.count()
            if got != want:
                ctx.report("sqlite:broker-differs-from-queue:app-id", f"[sqlite] application id {app_id!r}: operation #{k} {op} answered {got!r}, the FIFO queue says {want!r} "
                                                                        f"(script {script[: k + 1]})", {"kind": "app-id", "app_id": app_id, "upto": k})
                break
        ctx.distinct(("adversarial-app-id", app_id))


class ConcMem(Conc):
    """the in-memory broker shared by several threads of one process (two thread runners, a runner and the monitor), every source
    line of the broker a yield point"""

    def __init__(self, ctx_tmp: str, app_id: str, nthreads: int):
        from pynenc.broker.mem_broker import MemBroker
        from harness.sched_line import LineSched

        self.app = make_app("mem", ctx_tmp, app_id=app_id)
        self.main = self.app.broker
        self.brokers = [self.main] * nthreads
        self.sched = LineSched(line_targets=[MemBroker])


class ConcShared(Conc):
    """one SQLite app and ONE broker object shared by several threads of a process (two thread runners of an app, a runner and the
    monitor): whatever the object keeps between calls is shared by them"""

    def __init__(self, ctx_tmp: str, app_id: str, nthreads: int):
        self.app = make_app("sqlite", ctx_tmp, app_id=app_id)
        self.main = self.app.broker
        self.brokers = [self.main] * nthreads
        self.sched = SqlSched()


class ConcMemFresh(Conc):
    """a broker object NOBODY has used yet: its first operations come from several threads at once (a runner's loop and its workers right
    after start-up).  Every Python line executed below the broker's methods is a yield point - also inside whatever builds its containers
    lazily (a cached property, a default dict)"""

    def __init__(self, ctx_tmp: str, app_id: str, nthreads: int):
        from pynenc.broker.mem_broker import MemBroker
        from harness.sched_line import LineSched

        self.app = make_app("mem", ctx_tmp, app_id=app_id)
        self.nthreads = nthreads
        methods = [v for k, v in vars(MemBroker).items() if callable(v) and not k.startswith("__")]
        self.sched = LineSched(line_targets=[MemBroker], deep_targets=methods)

    def run(self, init: list[str], programs: list[list[Op]], chooser: Callable):
        self.main = type(self.app.broker)(self.app)          # fresh, untouched
        self.brokers = [self.main] * self.nthreads
        hist: list[tuple[int, Op, str, int, int]] = []

        def body(tid: int):
            def f():
                for op in programs[tid]:
                    t0 = self.sched.now()
                    res = apply(self.brokers[tid], op)
                    hist.append((tid, op, res, t0, self.sched.now()))
            return f

        run = self.sched.run([body(t) for t in range(len(programs))], chooser)
        remaining = []
        while True:
            r = self.main.retrieve_invocation()
            if r is None or len(remaining) > 10_000:
                break
            remaining.append(r)
        return run, hist, remaining


def concurrent_first_touch(ctx: Ctx) -> None:
    """exactly-once for the FIRST operations of an in-memory broker object made by two threads at once"""
    scen = [
        ("two-routers", [], [[("route", "n1")], [("route", "n2")]]),
        ("router-and-retriever", [], [[("route", "n1"), ("route", "n2")], [("retrieve",), ("count",)]]),
        ("batch-and-router", [], [[("many", ["n1", "n2"])], [("route", "n3")]]),
    ]
    c = ConcMemFresh(ctx.tmp, "c08fresh", 2)
    c.sched.install()
    n = 0
    try:
        for name, init, programs in scen:
            for run in explore(lambda ch: _run_keep(c, init, programs, ch), 2, 120 if ctx.quick else 1200):
                hist, remaining = run._c08  # type: ignore[attr-defined]
                n += 1
                ctx.count()
                ctx.distinct(("conc-mem-fresh", name, tuple(run.choices)))
                replay = {"kind": "concurrent-mem-first-touch", "scenario": name, "init": init, "programs": [[list(o) for o in p] for p in programs], "schedule": run.choices,
                          "history": [[t, list(o), r, a, b] for t, o, r, a, b in hist], "remaining": remaining}
                v = judge_history(init, programs, run, hist, remaining)
                if v:
                    ctx.report(f"mem-first-touch:{v[0]}", f"[mem, a broker object used for the first time by 2 threads at once, scenario {name}] {v[1]}; schedule {run.choices}", replay)
    finally:
        c.sched.uninstall()
    ctx.notes["concurrent_first_touch_schedules"] = n


def concurrent_shared_object(ctx: Ctx) -> None:
    """exactly-once / FIFO for threads that share one SQLite broker OBJECT: every interleaving of their SQL statements up to a
    pre-emption bound; conservation and a sequential FIFO witness"""
    scen = [
        ("two-retrievers", ["m1", "m2", "m3", "m4"], [[("retrieve",), ("retrieve",)], [("retrieve",)]]),
        ("retriever-and-router", ["m1", "m2"], [[("retrieve",), ("retrieve",)], [("route", "n1"), ("retrieve",)]]),
        ("count-vs-retrieve", ["m1", "m2"], [[("count",), ("retrieve",)], [("retrieve",), ("count",)]]),
    ]
    c = ConcShared(ctx.tmp, "c08shared", 2)
    c.sched.install()
    n = 0
    try:
        for name, init, programs in scen:
            for run in explore(lambda ch: _run_keep(c, init, programs, ch), 2, 60 if ctx.quick else 600):
                hist, remaining = run._c08  # type: ignore[attr-defined]
                n += 1
                ctx.count()
                ctx.distinct(("conc-shared", name, tuple(run.choices)))
                replay = {"kind": "concurrent-shared-object", "scenario": name, "init": init, "programs": [[list(o) for o in p] for p in programs], "schedule": run.choices,
                          "history": [[t, list(o), r, a, b] for t, o, r, a, b in hist], "remaining": remaining}
                v = judge_history(init, programs, run, hist, remaining)
                if v:
                    ctx.report(f"sqlite-shared-object:{v[0]}", f"[sqlite, one broker object, 2 threads, scenario {name}] {v[1]}; schedule {run.choices}", replay)
                    continue
                if linearize(init, expand(hist), remaining) is None:
                    ctx.report("sqlite-shared-object:not-linearizable", f"[sqlite, one broker object, 2 threads, scenario {name}] no sequential FIFO order explains the results "
                                                                        f"{[(t, o, r) for t, o, r, _, _ in hist]} + remaining {remaining}; schedule {run.choices}", replay)
    finally:
        c.sched.uninstall()
    ctx.notes["concurrent_shared_object_schedules"] = n


def concurrent_mem(ctx: Ctx) -> None:
    """exactly-once / FIFO under concurrent retrievers and routers of the IN-MEMORY broker: every interleaving of its source lines up
    to a pre-emption bound; judged by conservation and by the existence of a sequential FIFO order"""
    scen = [
        ("two-retrievers", ["m1", "m2", "m3", "m4"], [[("retrieve",)], [("retrieve",)]]),
        ("retrievers-and-router", ["m1", "m2"], [[("retrieve",), ("retrieve",)], [("route", "n1"), ("retrieve",)]]),
        ("retrieve-vs-batch", ["m1"], [[("retrieve",), ("retrieve",)], [("many", ["n1", "n2"])]]),
        ("count-vs-retrieve", ["m1", "m2", "m3"], [[("count",), ("retrieve",)], [("retrieve",), ("count",)]]),
    ]
    c = ConcMem(ctx.tmp, "c08cm", 2)
    c.sched.install()
    n = 0
    try:
        for name, init, programs in scen:
            for run in explore(lambda ch: _run_keep(c, init, programs, ch), 2 if ctx.quick else 3, 150 if ctx.quick else 1500):
                hist, remaining = run._c08  # type: ignore[attr-defined]
                n += 1
                ctx.count()
                ctx.distinct(("conc-mem", name, tuple(run.choices)))
                replay = {"kind": "concurrent-mem", "scenario": name, "init": init, "programs": [[list(o) for o in p] for p in programs], "schedule": run.choices,
                          "history": [[t, list(o), r, a, b] for t, o, r, a, b in hist], "remaining": remaining}
                v = judge_history(init, programs, run, hist, remaining)
                if v:
                    ctx.report(f"mem-concurrent:{v[0]}", f"[mem, 2 threads, scenario {name}] {v[1]}; schedule {run.choices}", replay)
                    continue
                if linearize(init, expand(hist), remaining) is None:
                    ctx.report("mem-concurrent:not-linearizable", f"[mem, 2 threads, scenario {name}] no sequential FIFO order explains the results "
                                                                  f"{[(t, o, r) for t, o, r, _, _ in hist]} + remaining {remaining}; schedule {run.choices}", replay)
    finally:
        c.sched.uninstall()
    ctx.notes["concurrent_mem_schedules"] = n


def concurrent_part(ctx: Ctx, drv: LeanDriver) -> None:
    bound = 2 if ctx.quick else 3
    wl: list[str] = []
    ww: list[str] = []
    stats = {"schedules2": 0, "schedules3": 0, "lock_waits": 0, "max_preemptions": 0, "histories_with_overlap": 0,
             "statements": 0, "deviated": 0, "gave_up": 0}
    undisciplined: list[str] = []

    def check(name: str, init, programs, run, hist, remaining) -> None:
        ctx.count()
        ctx.distinct(("conc", name, tuple(run.choices)))
        stats["lock_waits"] += run.lock_waits
        stats["max_preemptions"] = max(stats["max_preemptions"], run.preemptions())
        replay = {"kind": "concurrent", "scenario": name, "init": init, "programs": [[list(o) for o in p] for p in programs],
                  "schedule": run.choices, "history": [[t, list(o), r, a, b] for t, o, r, a, b in hist], "remaining": remaining,
                  "statements": [list(x) for x in run.trace][:80]}
        stats["statements"] += len(run.events)
        stats["deviated"] += int(run.deviated)
        stats["gave_up"] += run.gave_up
        ld = lock_discipline(run, hist)
        if ld and len(undisciplined) < 3:
            undisciplined.append(f"scenario {name}, schedule {run.choices}: {ld[0]}")
        v = judge_history(init, programs, run, hist, remaining)
        if v:
            ctx.report(f"sqlite-concurrent:{v[0]}", f"[sqlite, {len(programs)} threads, scenario {name}] {v[1]}; schedule {run.choices}", replay)
            return
        threads = expand(hist)
        if any(a[3] < b[4] and b[3] < a[4] for x, y in itertools.combinations(threads, 2) for a in x for b in y):
            stats["histories_with_overlap"] += 1
        order = linearize(init, threads, remaining)
        if order is None:
            ctx.report("sqlite-concurrent:not-linearizable",
                       f"[sqlite, {len(programs)} threads, scenario {name}] no sequential FIFO order explains the results "
                       f"{[(t, o, r) for t, o, r, _, _ in hist]} + remaining {remaining}; schedule {run.choices}", replay)
            return
        ls, wn = witness_lines(init, threads, order)
        wl.extend(ls)
        ww.extend(wn)

    # ---- two threads: every schedule with at most `bound` pre-emptions
    c2 = Conc(ctx.tmp, "c08c2", 2)
    scen = list(SCENARIOS_2)
    for k in range(4 if ctx.quick else 20):
        init, progs = random_programs(ctx.rng, 2)
        scen.append((f"random2-{k}", init, progs))
    per_scen = {}
    with c2.sched:
        for name, init, progs in scen:
            n = 0
            for run in explore(lambda ch: _run_keep(c2, init, progs, ch), bound, max_schedules=600 if ctx.quick else 6000):
                hist, remaining = run._c08  # type: ignore[attr-defined]
                check(name, init, progs, run, hist, remaining)
                n += 1
            per_scen[name] = n
            stats["schedules2"] += n
    # ---- three threads: seeded random schedules
    c3 = Conc(ctx.tmp, "c08c3", 3)
    with c3.sched:
        for k in range(100 if ctx.quick else 1500):
            init, progs = random_programs(ctx.rng, 3)
            if k % 5 == 0:
                init, progs = ["m1", "m2"], [[("retrieve",)], [("retrieve",)], [("retrieve",), ("count",)]]
            for _ in range(3):
                run = _run_keep(c3, init, progs, RandomChooser(ctx.rng, stay=ctx.rng.choice((0.3, 0.6, 0.8))))
                hist, remaining = run._c08  # type: ignore[attr-defined]
                check(f"random3-{k}", init, progs, run, hist, remaining)
                stats["schedules3"] += 1
    outs = drv.ask_many(wl) if wl else []
    nd = sum(1 for a, b in zip(outs, ww) if a != b)
    first = next(((l, w, o) for l, w, o in zip(wl, ww, outs) if w != o), None)
    ctx.count(len(wl))
    ctx.obligation(f"correspondence: every concurrent SQLite history ({stats['schedules2']} two-thread schedules with <= {bound} pre-emptions, "
                   f"{stats['schedules3']} three-thread schedules) is linearizable and its witness order replays on the Lean Sql model",
                   nd == 0 and not any(v["signature"].startswith("sqlite-concurrent") for v in ctx.violations),
                   f"{nd} differing results, first {first}")
    ctx.obligation("lock discipline assumed by stmt_locked_exactly_once_fifo holds on every explored run: retrieve_invocation reads the queue "
                   "only after its first statement took the write lock, and write transactions of different connections never overlap",
                   not undisciplined, "; ".join(undisciplined))
    ctx.obligation("scheduler exercised contention: some statement had to wait for the write lock and some operations overlapped",
                   stats["lock_waits"] > 0 and stats["histories_with_overlap"] > 0, str(stats))
    ctx.notes["concurrent"] = {**stats, "schedules_per_scenario": per_scen, "preemption_bound": bound}


def big_batches(ctx: Ctx) -> None:
    """route_invocations with batches of round and off-by-one sizes (whatever chunking an implementation uses internally):
    every routed id is deliverable exactly once, in order, behind what was already waiting"""
    sizes = [100, 128, 255, 256, 499, 500, 501, 512, 999, 1000, 1001, 1024] if ctx.quick else \
        [64, 100, 128, 200, 250, 255, 256, 257, 499, 500, 501, 512, 750, 999, 1000, 1001, 1024, 1500, 2000, 2048, 4096, 5000]
    for kind in ("mem", "sqlite"):
        app = make_app(kind, ctx.tmp, app_id=f"c08big{kind}")
        b = app.broker
        # backlogs beyond every power of two up to 2^17 (a bounded container evicts silently): in memory always, SQLite up to 2^16 + 7 in the thorough tier
        huge = [(1 << 16) + 7, (1 << 17) + 3] if kind == "mem" else ([] if ctx.quick else [(1 << 16) + 7])
        for n in sizes + huge:
            b.purge()
            b.route_invocation("waiting-first")
            ids = [f"m{j % max(n - 3, 1)}" if j % 97 == 0 else f"i{j}" for j in range(n)]     # a few repeated ids
            b.route_invocations(list(ids))
            cnt = b.count_invocations()
            got = []
            while (x := b.retrieve_invocation()) is not None and len(got) <= 2 * n + 5:
                got.append(x)
            ctx.count()
            ctx.distinct((kind, "big-batch", n))
            if cnt != n + 1 or got != ["waiting-first"] + ids:
                extra = len(got) - (n + 1)
                ctx.report(f"{kind}:batch-of-{'round' if n % 50 == 0 or n & (n - 1) == 0 else 'n'}-size",
                           f"[{kind}] route_invocations of {n} ids behind one waiting message: count_invocations() = {cnt} (expected {n + 1}), {len(got)} messages delivered "
                           f"({'+' if extra >= 0 else ''}{extra}), order {'kept' if got[: n + 1] == ['waiting-first'] + ids else 'NOT kept'}",
                           {"kind": "big-batch", "backend": kind, "size": n})


def interrupted_operations(ctx: Ctx) -> None:
    """a KeyboardInterrupt / SystemExit (what the runners' SIGTERM and SIGINT handlers raise in the main thread) lands right
    after the k-th SQL statement of a broker operation, for every k: the call does not return, so it must not have happened -
    an interrupted retrieve leaves its message in the queue, an interrupted route adds nothing"""
    from pynenc.util.sqlite_utils import SQLiteConnection

    app = make_app("sqlite", ctx.tmp, app_id="c08intr")
    b = app.broker
    real_execute = SQLiteConnection.execute
    state = {"k": -1, "n": 0, "exc": KeyboardInterrupt}

    def execute(conn, sql, parameters=(), /):  # type: ignore[no-untyped-def]
        r = real_execute(conn, sql, parameters)
        state["n"] += 1
        if state["n"] == state["k"]:
            raise state["exc"]("signal")
        return r

    def contents() -> list[str]:
        out = []
        while (x := b.retrieve_invocation()) is not None:
            out.append(x)
        b.route_invocations(list(out))
        return out

    SQLiteConnection.execute = execute  # type: ignore[method-assign]
    try:
        for opname, op in (("retrieve_invocation", lambda: b.retrieve_invocation()), ("route_invocation", lambda: b.route_invocation("new")),
                           ("route_invocations", lambda: b.route_invocations(["n1", "n2", "n3"])), ("count_invocations", lambda: b.count_invocations())):
            for exc in (KeyboardInterrupt, SystemExit):
                for k in range(1, 12):
                    state["k"] = -1
                    b.purge()
                    b.route_invocations(["a", "b", "c"])
                    state.update(k=k, n=0, exc=exc)
                    raised = False
                    try:
                        op()
                    except BaseException as e:  # noqa: BLE001
                        raised = isinstance(e, exc)
                    nstat = state["n"]
                    state["k"] = -1
                    after = contents()
                    ctx.count()
                    if not raised:
                        break           # the operation has fewer than k statements
                    ctx.distinct(("interrupt", opname, exc.__name__, k))
                    # a batch is a sequence of single routes: an interrupted batch has routed a prefix of it, each id once
                    ok = after == ["a", "b", "c"] or (opname == "route_invocations" and after in (["a", "b", "c", "n1"], ["a", "b", "c", "n1", "n2"], ["a", "b", "c", "n1", "n2", "n3"]))
                    if not ok:
                        ctx.report(f"sqlite:interrupted-{opname}",
                                   f"[sqlite] {exc.__name__} raised right after SQL statement {k} of {opname}() (the call did not return): the queue went from ['a','b','c'] to {after} - "
                                   f"{'a message was consumed without being delivered' if len(after) < 3 else 'messages appeared although the call failed'}",
                                   {"kind": "interrupt", "backend": "sqlite", "operation": opname, "exception": exc.__name__, "after_statement": k, "statements_seen": nstat})
    finally:
        SQLiteConnection.execute = real_execute  # type: ignore[method-assign]
    # a COMMIT that SQLite refuses (SQLITE_BUSY: "database is locked" - a reader of another process holds its lock past the busy timeout):
    # nothing is committed, the statement's transaction stays open.  A call that raises must have added / consumed nothing; a call that
    # RETURNS must have done its work exactly once.
    import sqlite3

    cstate = {"k": -1, "n": 0}

    def commit(conn):  # type: ignore[no-untyped-def]   (the wrapper delegates `commit` to the sqlite3 connection through __getattr__)
        cstate["n"] += 1
        if cstate["n"] == cstate["k"]:
            raise sqlite3.OperationalError("database is locked")
        return conn._conn.commit()

    SQLiteConnection.commit = commit  # type: ignore[method-assign]
    try:
        for opname, op, adds in (("route_invocation", lambda: b.route_invocation("new"), ["new"]), ("route_invocations", lambda: b.route_invocations(["n1", "n2", "n3"]), ["n1", "n2", "n3"]),
                                 ("retrieve_invocation", lambda: b.retrieve_invocation(), None)):
            for k in range(1, 6):
                cstate["k"] = -1
                b.purge()
                b.route_invocations(["a", "b", "c"])
                cstate.update(k=k, n=0)
                raised, ret = None, None
                try:
                    ret = op()
                except BaseException as e:  # noqa: BLE001
                    raised = f"{type(e).__name__}: {e}"
                ncommits = cstate["n"]
                cstate["k"] = -1
                after = contents()
                ctx.count()
                if ncommits < k:
                    break
                ctx.distinct(("commit-refused", opname, k, bool(raised)))
                if adds is not None:
                    prefixes = [["a", "b", "c"] + adds[:j] for j in range(len(adds) + 1)]
                    ok = (after in prefixes[:-1] or (after == prefixes[-1] and len(adds) > 1)) if raised else after == prefixes[-1]
                else:
                    ok = after == ["a", "b", "c"] if raised else (ret == "a" and after == ["b", "c"])
                if not ok:
                    ctx.report(f"sqlite:commit-refused-{opname}",
                               f"[sqlite] COMMIT number {k} of {opname}() is refused once with 'database is locked'; the call {'raised ' + raised if raised else 'returned ' + repr(ret)} and the queue "
                               f"went from ['a','b','c'] to {after}: {'a message is queued more than once / out of nowhere' if len(after) > 3 else 'a message was consumed without being delivered'}",
                               {"kind": "commit-refused", "backend": "sqlite", "operation": opname, "commit": k})
    finally:
        del SQLiteConnection.commit


def _run_keep(c: Conc, init, progs, chooser):
    run, hist, remaining = c.run(init, progs, chooser)
    run._c08 = (hist, remaining)  # type: ignore[attr-defined]
    return run


# ------------------------------------------------------------------------------------------------
# entry points
# ------------------------------------------------------------------------------------------------

def run(ctx: Ctx) -> None:
    from harness.translate import brokersend

    lean_stage(ctx, brokersend.gen, THEOREMS)
    drv = LeanDriver()
    ctx.cov["rule"] = ("sequential: every sequence over {route a, route b, batch [a,b,a], batch [], retrieve, count, purge} up to the "
                       "tier's length, plus seeded random long sequences (repeated ids, empty id, batches), each followed by a full drain; "
                       "distinct = distinct (backend, sequence). concurrent: distinct (scenario, schedule) pairs, schedule = thread "
                       "chosen before every SQL statement")
    try:
        mem_app = make_app("mem", ctx.tmp, app_id="c08mem")
        sq_app = make_app("sqlite", ctx.tmp, app_id="c08sql")
        mem = [mem_app.broker]
        sq = [sq_app.broker, type(sq_app.broker)(sq_app)]
        # a never-used broker is empty
        for name, bs in (("mem", mem), ("sqlite", sq)):
            for op, want in ((("retrieve",), "-"), (("count",), "0")):
                out = apply(bs[0], op)
                ctx.count()
                if out != want:
                    ctx.report(f"{name}:fresh", f"[{name}] a broker nothing was routed to answers {op[0]} with {out}",
                               {"kind": "sequential", "backend": name, "ops": [list(op)]})
        run_sequences(ctx, drv, "mem", mem, short_sequences(5 if ctx.quick else 6), "exhaustive")
        run_sequences(ctx, drv, "sqlite", sq, short_sequences(4 if ctx.quick else 5), "exhaustive")
        nrand = 40 if ctx.quick else 400
        big = 60 if ctx.quick else 600
        rnd = [random_sequence(ctx.rng, ctx.rng.randint(40, 160 if ctx.quick else 500), big) for _ in range(nrand)]
        run_sequences(ctx, drv, "mem", mem, rnd, "random")
        run_sequences(ctx, drv, "sqlite", sq, rnd, "random")
        ctx.sample({"kind": "sequential", "ops": [list(o) for o in rnd[0][:10]]})
        big_batches(ctx)
        interrupted_operations(ctx)
        concurrent_part(ctx, drv)
        concurrent_mem(ctx)
        concurrent_first_touch(ctx)
        concurrent_shared_object(ctx)
        adversarial_app_ids(ctx)
        ctx.sample({"kind": "concurrent", "scenario": SCENARIOS_2[0][0], "init": SCENARIOS_2[0][1], "programs": SCENARIOS_2[0][2]})
    finally:
        drv.close()
    ctx.cov["exhaustive"] = True
    ctx.assumptions += [
        "SQLite model: the clock read by julianday('now') never decreases between INSERT statements (hypothesis of sql_refines_queue; "
        "sql_fifo_needs_monotone_clock shows FIFO fails without it); ties within one millisecond are broken by rowid because the "
        "ORDER BY is served by the index on created_at — SQLite behaviour, sampled by the differential, not proved",
        "atomicity of one deque method under the GIL and of one BEGIN IMMEDIATE transaction under SQLite's write lock is modelled as one "
        "atomic step; the tie for it is the bounded statement-level schedule exploration (partial: supports the model, proves nothing about SQLite)",
        "a route_invocations batch is a loop of single routes in both brokers: in concurrent histories it is linearized as its single routes",
        "MemBroker is exercised sequentially only (the property quantifies schedules over the SQLite broker)",
    ]
    if not ctx.quick:
        thorough_rebuild(ctx)


def replay(data: dict) -> int:
    import tempfile

    r = data["replay"]
    tmp = tempfile.mkdtemp(prefix="verif-C08-replay-")
    if r["kind"] == "sequential":
        app = make_app("mem" if r["backend"] == "mem" else "sqlite", tmp, app_id="c08replay")
        b = app.broker
        sh = Shadow()
        rc = 0
        for op in r["ops"]:
            op = tuple(tuple(x) if isinstance(x, list) else x for x in op)
            out = apply(b, op)
            v = sh.judge(op, out)
            print(op, "->", out, ("   <-- " + v[1]) if v else "")
            if v:
                rc = 1
        return rc
    progs = [[tuple(tuple(x) if isinstance(x, list) else x for x in o) for o in p] for p in r["programs"]]
    c = Conc(tmp, "c08replay", len(progs))
    with c.sched:
        run, hist, remaining = c.run(r["init"], progs, PrefixChooser(r["schedule"]))
    for st in run.trace:
        print("step %3d  thread %d  %-12s %s" % st)
    for h in hist:
        print("thread %d %s -> %s   [%d,%d]" % (h[0], h[1], h[2], h[3], h[4]))
    print("remaining:", remaining)
    v = judge_history(r["init"], progs, run, hist, remaining)
    if not v and linearize(r["init"], expand(hist), remaining) is None:
        v = ("not-linearizable", "no sequential FIFO order explains these results", None)
    print("verdict:", v[1] if v else "consistent with a FIFO queue")
    return 1 if v else 0
