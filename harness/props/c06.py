"""C06 — running concurrency control: never two RUNNING invocations with the same key.

Lean: Props/C06.lean — with an atomic check-and-claim (one poller at a time) at most one invocation per key is PENDING or
      RUNNING in every reachable state (all keys/ids/runners/histories); different keys are independent; what happens to a
      blocked candidate; and the REFUTATIONS of the full statement for the real step granularity (two pollers: check-then-act)
      and of "without the poll failing" for a blocked RETRY candidate — both are known findings of the current tree.
Tie:  the real orchestrators (Mem and SQLite) driven sequentially by one runner: submissions by single call and by
      batch/parallelize (equal and different keys, every mode x key-argument choice x reroute option), polls
      (`get_invocations_to_run`), real `DistributedInvocation.run` in threads whose bodies hold RUNNING until released,
      retries; mirrored on the Lean driver (`cc.route`, `cc.batch.*`, `cc.poll`, `cc.start`, `o.set`).
Oracle (independent): census of RUNNING invocations per concurrency key after every step (≤ 1); a blocked candidate ends
      CONCURRENCY_CONTROLLED_FINAL or re-queued per option; the poll does not raise; different keys never block one another.
Known-finding probes: (c) blocked RETRY candidate makes the poll raise and strands the invocation; (b) two pollers under the
      line/statement scheduler both claim same-key invocations.
"""
from __future__ import annotations

import threading
import time as _time
from typing import Any

from harness import tasks as T
from harness.apps import VirtualClock, flush, make_app, rctx
from harness.common import Ctx, LeanDriver, lean_stage, thorough_rebuild, tok
from harness.translate import status as tr

THEOREMS = [
    "oneActive_step", "no_two_running_partial", "different_keys_independent", "full_statement_refuted",
    "two_pollers_break_it", "blocked_outcome", "blocked_retry_raises", "poll_raises_on_blocked_retry",
    "pollB_nil", "awaited_same_key_claimed_once",
]

CONFIGS = [
    # running mode, key arguments, reroute option
    ("task", (), True), ("arguments", (), True), ("keys", ("k",), True), ("keys", ("k",), False), ("task", (), False),
    ("disabled", (), True), ("keys", ("k", "v"), True),
]
# (running mode, key arguments, reroute option, registration mode): both controls on, at different scopes
CONFIGS_REG = [("keys", ("k",), True, "task"), ("arguments", (), False, "task"), ("task", (), True, "keys"), ("keys", ("k", "v"), True, "arguments")]


def kv(d: dict[str, str]) -> str:
    return " ".join(f"{tok(k)} {tok(v)}" for k, v in d.items())


def untoks(line: str) -> list[str]:
    if line.strip() in ("[]", ""):
        return []
    return ["" if t == "e" else bytes.fromhex(t[1:]).decode() for t in line.split()]


class World:
    def __init__(self, ctx: Ctx, kind: str, ci: int, mode: str, keys: tuple, rer: bool, drv: LeanDriver, clock: VirtualClock, retries: int = 0,
                 reg: str = "disabled", noargs: bool = False):
        from pynenc.conf.config_task import ConcurrencyControlType as C

        self.ctx, self.kind, self.mode, self.keys, self.rer, self.drv, self.clock = ctx, kind, mode, keys, rer, drv, clock
        self.reg = reg
        self.app = make_app(kind, ctx.tmp, app_id=f"c06{kind}{ci}{ctx.rng.randrange(10**6)}")
        opts: dict[str, Any] = {"running_concurrency": C(mode), "reroute_on_concurrency_control": rer, "max_retries": retries}
        if reg != "disabled":
            opts["registration_concurrency"] = C(reg)
        if keys:
            opts["key_arguments"] = keys
        self.noargs = noargs
        self.task = self.app.task(T.cc_noargs if noargs else T.cc_body, **opts)
        self.o = self.app.orchestrator
        self.tname = self.task.task_id.key
        drv.ask("o.reset")
        drv.ask(f"cc.conf {tok(self.tname)} {reg} {mode} 0 {'1' if rer else '0'} " + " ".join(tok(k) for k in keys))
        self.invs: dict[str, dict] = {}
        self.threads: dict[str, threading.Thread] = {}
        self.nd = 0

    # -- helpers -----------------------------------------------------------------------------------
    def runkey(self, a: dict[str, str]):
        if self.mode == "disabled":
            return None
        if self.mode == "task":
            return ()
        if self.mode == "arguments":
            return tuple(sorted(a.items()))
        return tuple((k, a[k]) for k in self.keys)

    def queue(self) -> list[str]:
        b = self.app.broker
        out = []
        while (i := b.retrieve_invocation()) is not None:
            out.append(i)
        for i in out:
            b.route_invocation(i)
        return out

    def sync_queue(self, where: str) -> None:
        q = self.queue()
        mq = untoks(self.drv.ask("o.queue"))
        if sorted(q) != sorted(mq):
            self.mismatch(f"queue after {where}", q, mq)
        self.drv.ask("o.queue.set " + " ".join(tok(i) for i in q))

    def mismatch(self, what: str, impl: Any, model: Any) -> None:
        self.nd += 1
        if self.nd <= 3:
            self.ctx.obligation(f"correspondence {what} [{self.kind}] mode={self.mode} keys={self.keys} reroute={self.rer}", False, f"impl {impl!r} model {model!r}")

    def statuses(self) -> dict[str, str]:
        return {i: self.o.get_invocation_status(i).value for i in self.invs}

    def check_statuses(self, where: str) -> None:
        impl = self.statuses()
        m = self.drv.ask("o.statuses")
        model = {}
        for part in m.split():
            a, b = part.split("=")
            model[untoks(a)[0]] = b.split("/")[0]
        if impl != {k: v for k, v in model.items() if k in impl}:
            diff = {k: (impl[k], model.get(k)) for k in impl if impl[k] != model.get(k)}
            self.mismatch(f"statuses after {where}", diff, "")
        # ---- oracle: census of RUNNING per key ----------------------------------------------------
        per: dict = {}
        for i, st in impl.items():
            if st == "running":
                per.setdefault(self.runkey(self.invs[i]["args"]), []).append(i)
        for k_, ids in per.items():
            if k_ is not None and len(ids) > 1:
                paths = sorted({self.invs[i]["path"] for i in ids})
                self.ctx.report(f"two-running-same-key[{self.kind}]:{'+'.join(paths)}",
                                f"[{self.kind}] {len(ids)} invocations with concurrency key {k_} are RUNNING at once (mode {self.mode}, keys {self.keys}, submitted via {paths}) after {where}",
                                {"backend": self.kind, "mode": self.mode, "keys": self.keys, "paths": paths, "where": where})

    # -- operations ----------------------------------------------------------------------------------
    def submit_single(self, a: dict[str, str]) -> None:
        from pynenc.call import Call

        call = Call(self.task, self.task.args(**a))
        ser = dict(call.serialized_arguments)
        inv = self.task(**a)
        rec = self.o.get_invocation_status_record(inv.invocation_id)
        if inv.invocation_id not in self.invs:      # (registration concurrency hands back the REGISTERED invocation of the key)
            self.invs[inv.invocation_id] = {"args": ser, "path": "single", "raw": dict(a)}
        self.drv.ask(f"cc.route {tok(self.tname)} {tok(call.call_id.key)} {tok(inv.invocation_id)} {tok(rec.runner_id)} {self.clock.us} {kv(ser)}")

    def submit_child(self, parent_id: str, a: dict[str, str]) -> None:
        """the same submission made from INSIDE a running invocation (a task body that calls the task, e.g. with its own arguments):
        who submits does not enter the concurrency key - the child competes with its parent like anybody else"""
        from pynenc import context

        parent = self.app.state_backend.get_invocation(parent_id)
        prev = context.swap_dist_invocation_context(self.app.app_id, parent)
        try:
            before = set(self.invs)
            self.submit_single(a)
            for i in set(self.invs) - before:
                self.invs[i]["path"] = "child-of-running"
        finally:
            context.swap_dist_invocation_context(self.app.app_id, prev)

    def submit_batch(self, arglist: list[dict[str, str]]) -> None:
        group = self.task.parallelize([dict(a) for a in arglist])
        invs = list(group.invocations)
        if not invs:
            return
        rec = self.o.get_invocation_status_record(invs[0].invocation_id)
        self.drv.ask(f"cc.batch.begin {tok(self.tname)} {tok(rec.runner_id)} {self.clock.us}")
        for inv in invs:
            ser = dict(inv.call.serialized_arguments)
            self.invs[inv.invocation_id] = {"args": ser, "path": "batch"}
            self.drv.ask(f"cc.batch.add {tok(inv.invocation_id)} {tok(inv.call.call_id.key)} {kv(ser)}")
        self.drv.ask("cc.batch.end")

    def poll(self, n: int, runner: str) -> list:
        before = self.statuses()
        qbefore = self.queue()
        # what the wait graph reports as blocking (C09 decides WHICH ids these are; here they are the first candidates of the poll)
        bs = [i for i in self.o.get_blocking_invocations(n)]
        self.nblocking = getattr(self, "nblocking", 0) + len(bs)
        try:
            got = list(self.o.get_invocations_to_run(n, rctx(runner)))
            impl = "ok " + (" ".join(tok(i.invocation_id) for i in got) or "[]")
        except BaseException as e:  # noqa: BLE001
            got = []
            impl = f"raised:{type(e).__name__}"
        m = self.drv.ask(f"cc.pollb {n} {tok(runner)} {self.clock.us}" + "".join(" " + tok(i) for i in bs))
        if impl.split(":")[0].split()[0] != m.split()[0] or (impl.startswith("ok") and impl != m):
            self.mismatch("poll", impl, m)
        after = self.statuses()
        rep = {"backend": self.kind, "mode": self.mode, "keys": self.keys, "reroute": self.rer}
        if impl.startswith("raised"):
            blocked_from = sorted({before[i] for i in before if before[i] != after[i] or True} & {"retry", "rerouted"})
            sig = "poll-raises-on-blocked-retry" if any(before[i] == "retry" for i in before) else ("poll-raises-on-blocked-rerouted-final" if not self.rer else "poll-raises")
            self.ctx.report(f"{sig}[{self.kind}]", f"[{self.kind}] get_invocations_to_run raised {impl.split(':')[1]} while a blocked candidate was in {blocked_from} (mode {self.mode}, reroute option {self.rer}); the popped invocation is no longer queued",
                            rep)
        # independent simulation of who may be blocked: only an invocation whose key is held by a PENDING/RUNNING one
        if impl.startswith("ok") and self.mode != "disabled":
            held = {self.runkey(self.invs[i]["args"]) for i, st in before.items() if st in ("pending", "running")}
            need = n
            for i in bs + [q for q in qbefore if q not in bs]:
                if need <= 0:
                    break
                if i not in before or before[i] not in ("registered", "rerouted", "retry") or after[i] == before[i] and i in [g.invocation_id for g in got]:
                    continue
                k_ = self.runkey(self.invs[i]["args"])
                was_blocked = after[i] in ("concurrency_controlled_final", "rerouted", "concurrency_controlled") and i not in [g.invocation_id for g in got] and before[i] != after[i] or (before[i] == "rerouted" and after[i] == "rerouted" and i not in [g.invocation_id for g in got] and False)
                if i in [g.invocation_id for g in got]:
                    if k_ in held:
                        self.ctx.report(f"claimed-despite-held-key[{self.kind}]", f"[{self.kind}] poll claimed an invocation whose key {k_} was already PENDING/RUNNING (mode {self.mode})", rep)
                    held.add(k_)
                    need -= 1
                elif was_blocked and k_ not in held:
                    self.ctx.report(f"blocked-by-different-key[{self.kind}]", f"[{self.kind}] poll parked/ended an invocation with key {k_} although no invocation with that key was PENDING or RUNNING (mode {self.mode}, keys {self.keys}): different keys must not block one another", rep)
        # no slot left idle: with n slots, as many invocations are handed out as there are candidates whose key is free (awaited ones first)
        if impl.startswith("ok"):
            held2 = {self.runkey(self.invs[i]["args"]) for i, st in before.items() if st in ("pending", "running")} if self.mode != "disabled" else set()
            could = 0
            for i in bs + [q for q in qbefore if q not in bs]:
                if could >= n:
                    break
                if i in before and before[i] in ("registered", "rerouted", "retry"):
                    k2 = self.runkey(self.invs[i]["args"]) if self.mode != "disabled" else ("free", i)
                    if k2 not in held2:
                        could += 1
                        if self.mode != "disabled":
                            held2.add(k2)
            if len(got) < could:
                self.ctx.report(f"slot-left-idle[{self.kind}]", f"[{self.kind}] get_invocations_to_run({n}) handed out {len(got)} invocation(s) although {could} candidates with a free key were available "
                                                               f"(awaited first: {len(bs)} reported as blocking; mode {self.mode}, keys {self.keys}): a slot stays idle and an awaited sub-task may never start", rep)
        # blocked outcomes
        for i in before:
            if before[i] in ("registered", "rerouted", "retry") and after[i] != before[i]:
                if after[i] not in ("pending", "concurrency_controlled_final", "rerouted", "concurrency_controlled"):
                    self.ctx.report(f"blocked-outcome[{self.kind}]", f"[{self.kind}] candidate went {before[i]} -> {after[i]} in a poll", rep)
                if after[i] == "concurrency_controlled":
                    self.ctx.report(f"parked-not-requeued[{self.kind}]", f"[{self.kind}] blocked candidate left CONCURRENCY_CONTROLLED (not re-routed) after the poll", rep)
                if after[i] == "concurrency_controlled_final" and self.rer:
                    self.ctx.report(f"final-despite-reroute-option[{self.kind}]", f"[{self.kind}] blocked candidate ended CONCURRENCY_CONTROLLED_FINAL although the task asks for re-routing", rep)
        self.sync_queue("poll")
        return got

    def start(self, inv, runner: str) -> None:
        i = inv.invocation_id
        T.CC_GATES[i] = threading.Event()
        th = threading.Thread(target=inv.run, args=[rctx(runner)], daemon=True)
        th.start()
        t0 = _time.time()
        while _time.time() - t0 < 10:
            st = self.o.get_invocation_status(i).value
            if st == "running" or not th.is_alive():
                break
            _time.sleep(0.001)
        self.threads[i] = th
        st = self.o.get_invocation_status(i).value
        m = self.drv.ask(f"cc.start {tok(i)} {tok(runner)} {self.clock.us}")
        if (st == "running") != (m == "true"):
            self.mismatch("worker start", st, m)
        self.sync_queue("start")

    def finish(self, i: str, runner: str, retry: bool = False) -> None:
        if retry:
            T.CC_FAIL[i] = "retry"
        T.CC_GATES[i].set()
        self.threads[i].join(10)
        st = self.o.get_invocation_status(i).value
        self.drv.ask(f"o.set {tok(i)} {st} {tok(runner)} {self.clock.us}")
        if st == "retry":
            self.drv.ask(f"o.retries.incr {tok(i)}")
            self.drv.ask(f"o.push {tok(i)}")
        self.sync_queue("finish")

    def close(self) -> None:
        for i, th in self.threads.items():
            if th.is_alive():
                T.CC_GATES[i].set()
                th.join(5)
        flush(self.app)


def draw_args(rng) -> dict[str, str]:
    """all three arguments are drawn from ONE small pool, so the same values occur under different argument names
    (permuted / repeated values): a lookup that does not tie each value to its own argument name over-matches"""
    pool = ["a", "b", "d"]
    return {"k": rng.choice(pool), "v": rng.choice(pool), "w": rng.choice(["e", "a"])}


def scenario_random(w: World, nsteps: int) -> None:
    rng = w.ctx.rng
    running: dict[str, str] = {}
    claimed: list = []
    for step in range(nsteps):
        w.clock.advance(1000)
        if rng.random() < 0.06:
            # a long pause: claims grow old (older than `max_pending_seconds`) - they still hold their key until somebody RECOVERS them
            w.clock.advance(3_600_000_000)
        r = rng.random()
        if r < 0.06 and running:
            # a running invocation submits a call of its own task - with its OWN arguments more often than not
            p = rng.choice(list(running))
            own = {} if w.noargs else (dict(w.invs[p].get("raw") or {}) or draw_args(rng))
            w.submit_child(p, own if rng.random() < 0.7 else ({} if w.noargs else draw_args(rng)))
            w.check_statuses("submission from inside a running invocation")
        elif r < 0.30:
            w.submit_single({} if w.noargs else draw_args(rng))
            w.check_statuses("single submission")
        elif r < 0.42 and (w.reg != "disabled" or w.noargs):
            w.submit_single({} if w.noargs else draw_args(rng))         # the batch path refuses tasks with registration concurrency
            w.check_statuses("single submission")
        elif r < 0.42:
            same = draw_args(rng)
            w.submit_batch([dict(same) if rng.random() < 0.6 else draw_args(rng) for _ in range(rng.randint(2, 3))])
            w.check_statuses("batch submission")
        elif r < 0.50 and running:
            # a running invocation declares that it waits for some of the open ones: they become the FIRST candidates of the next polls
            st = w.statuses()
            open_ = [i for i, v in st.items() if v in ("registered", "rerouted", "retry")]
            if open_:
                w.o.waiting_for_results(rng.choice(list(running)), rng.sample(open_, min(len(open_), rng.randint(1, 3))))
        elif r < 0.65:
            got = w.poll(rng.randint(1, 3), "rA")
            claimed += got
            w.check_statuses("poll")
        elif r < 0.85 and claimed:
            inv = claimed.pop(0)
            w.start(inv, "rA")
            if w.o.get_invocation_status(inv.invocation_id).value == "running":
                running[inv.invocation_id] = "rA"
            w.check_statuses("worker start")
        elif running:
            i = rng.choice(list(running))
            del running[i]
            w.finish(i, "rA")
            w.check_statuses("finish")
        w.ctx.count()
        w.ctx.distinct((w.kind, w.mode, w.keys, w.rer, step % 11, len(running), len(claimed)))
    # drain: everything claimed gets started and finished
    for inv in claimed:
        w.start(inv, "rA")
        if w.o.get_invocation_status(inv.invocation_id).value == "running":
            running[inv.invocation_id] = "rA"
        w.check_statuses("drain start")
    for i in list(running):
        w.finish(i, "rA")


def scenario_batch_same_key(w: World) -> None:
    """three equal calls submitted as one batch, one poll, every claimed one started"""
    w.submit_batch([{"k": "a", "v": "d", "w": "e"}] * 3)
    got = w.poll(3, "rA")
    for inv in got:
        w.start(inv, "rA")
    w.check_statuses("batch of three equal calls, poll 3, start all")
    for inv in got:
        if w.o.get_invocation_status(inv.invocation_id).value == "running":
            w.finish(inv.invocation_id, "rA")


def scenario_retry_blocked(w: World) -> None:
    """i1 RUNNING; i2 retried (RETRY, re-queued); the next poll pops i2 while i1 still runs"""
    w.submit_single({"k": "a", "v": "d", "w": "e"})
    w.submit_single({"k": "a", "v": "d", "w": "e"})
    i1, i2 = list(w.invs)[:2]
    got = w.poll(1, "rA")            # claims i1, (i2 not popped)
    if not got:
        return
    w.start(got[0], "rA")
    w.finish(got[0].invocation_id, "rA", retry=True)   # i1 -> RETRY, re-queued behind i2
    got2 = w.poll(1, "rA")           # claims i2 (i1 is RETRY: not active)
    if got2:
        w.start(got2[0], "rA")       # i2 RUNNING
    w.poll(1, "rA")                  # pops i1 (RETRY) while i2 RUNNING -> blocked RETRY candidate
    w.check_statuses("poll with a blocked RETRY candidate")
    for inv in got2:
        if w.o.get_invocation_status(inv.invocation_id).value == "running":
            w.finish(inv.invocation_id, "rA")


def two_paths_probe(ctx: Ctx) -> None:
    """the SAME call submitted once directly and once through the batch path (`parallelize` with the big argument as a common
    argument), the argument long enough to be externalised and listed in `disable_cache_args`: the concurrency key is built from
    the serialized arguments, so both submissions must carry the same ones - the second is blocked while the first runs"""
    from pynenc.conf.config_task import ConcurrencyControlType as C

    big = "B" * 96
    for kind in ("mem", "sqlite"):
        for mode, dis in ((C.ARGUMENTS, ("v",)), (C.KEYS, ("v",)), (C.ARGUMENTS, ())):
            for order in ("single-first", "batch-first"):
                app = make_app(kind, ctx.tmp, app_id=f"c06paths{kind}{ctx.rng.randrange(10**6)}", min_size_to_cache=16)
                opts: dict[str, Any] = {"running_concurrency": mode, "reroute_on_concurrency_control": False, "disable_cache_args": dis}
                if mode == C.KEYS:
                    opts["key_arguments"] = ("k", "v")
                task = app.task(T.cc_body, **opts)
                o = app.orchestrator

                def submit(path: str):
                    if path == "single":
                        return task("a", big, "e")
                    # (two members: a single-member list does not take the batch path)
                    return list(task.parallelize([{"k": "a", "w": "e"}, {"k": "zz", "w": "e"}], common_args={"v": big}).invocations)[0]

                first = submit("single" if order == "single-first" else "batch")
                got = list(o.get_invocations_to_run(1, rctx("rA")))
                th = None
                if got:
                    T.CC_GATES[got[0].invocation_id] = threading.Event()
                    th = threading.Thread(target=got[0].run, args=[rctx("rA")], daemon=True)
                    th.start()
                    t0 = _time.time()
                    while _time.time() - t0 < 10 and o.get_invocation_status(first.invocation_id).value != "running":
                        _time.sleep(0.001)
                second = submit("batch" if order == "single-first" else "single")
                got2 = [i.invocation_id for i in o.get_invocations_to_run(1, rctx("rB"))]
                st1, st2 = o.get_invocation_status(first.invocation_id).value, o.get_invocation_status(second.invocation_id).value
                ctx.count()
                ctx.distinct((kind, "two-paths", mode.value, dis, order))
                if st1 == "running" and (second.invocation_id in got2 or st2 in ("pending", "running")):
                    ctx.report(f"two-running-same-key[{kind}]:single+batch-common-args",
                               f"[{kind}] the same call ({mode.value} concurrency, disable_cache_args={dis}, a 96-character argument, min_size_to_cache 16) submitted {order}: the direct call and the "
                               f"batch call with the argument as a common argument are {st1} and {st2} at once; serialized arguments "
                               f"{ {k: v[:40] for k, v in first.call.serialized_arguments.items()} } vs { {k: v[:40] for k, v in second.call.serialized_arguments.items()} }",
                               {"backend": kind, "scenario": "two-paths", "mode": mode.value, "disable_cache_args": list(dis), "order": order})
                if th is not None:
                    T.CC_GATES[got[0].invocation_id].set()
                    th.join(5)
                flush(app)


def awaited_same_key_probe(ctx: Ctx) -> None:
    """the OTHER claim path: invocations a running parent waits for are claimed first (`get_blocking_invocations_to_run`).  Two of
    them share a concurrency key: ONE poll of ONE runner must not hand out both (the second is blocked like any other)"""
    from pynenc.conf.config_task import ConcurrencyControlType as C

    for kind in ("mem", "sqlite"):
        for mode, rer in ((C.KEYS, False), (C.KEYS, True), (C.ARGUMENTS, False), (C.TASK, True)):
            app = make_app(kind, ctx.tmp, app_id=f"c06await{kind}{ctx.rng.randrange(10**6)}")
            opts: dict[str, Any] = {"running_concurrency": mode, "reroute_on_concurrency_control": rer}
            if mode == C.KEYS:
                opts["key_arguments"] = ("k",)
            child = app.task(T.cc_body, **opts)
            parent_t = app.task(T.add)
            o = app.orchestrator
            parent = parent_t(1, 2)
            o.set_invocation_status(parent.invocation_id, trs_status("pending"), rctx("rP"))
            o.set_invocation_status(parent.invocation_id, trs_status("running"), rctx("rP"))
            kids = [child("a", "d", "e"), child("a", "d", "e") if mode != C.KEYS else child("a", "x", "e"), child("zz", "d", "e")]
            if len({k.invocation_id for k in kids}) < 3:
                continue
            o.waiting_for_results(parent.invocation_id, [k.invocation_id for k in kids])
            got = [i.invocation_id for i in o.get_invocations_to_run(4, rctx("rA"))]
            st = {k.invocation_id: o.get_invocation_status(k.invocation_id).value for k in kids}
            ctx.count()
            ctx.distinct((kind, "awaited-same-key", mode.value, rer))
            same = [kids[0].invocation_id, kids[1].invocation_id]
            held = [i for i in same if st[i] in ("pending", "running")]
            if len(held) > 1:
                ctx.report(f"one-poll-claims-two-same-key[{kind}]:awaited", f"[{kind}] a running parent waits for two invocations with the same concurrency key ({mode.value}) and a third one: ONE poll of "
                                                                          f"one runner handed out {len(got)} invocations and left BOTH same-key ones {[st[i] for i in same]} (third: {st[kids[2].invocation_id]})",
                           {"backend": kind, "scenario": "awaited-same-key", "mode": mode.value, "reroute": rer})
            flush(app)


def two_tasks_probe(ctx: Ctx) -> None:
    """concurrency control is per TASK: an invocation of another task that happens to carry the same argument names and values -
    RUNNING or PENDING - must not block this task's invocation"""
    from pynenc.conf.config_task import ConcurrencyControlType as C

    for kind in ("mem", "sqlite"):
        for mode in (C.KEYS, C.ARGUMENTS, C.TASK):
            for hold in ("pending", "running"):
                app = make_app(kind, ctx.tmp, app_id=f"c06two{kind}{mode.value}{hold}{ctx.rng.randrange(10**6)}")
                opts: dict[str, Any] = {"running_concurrency": mode}
                if mode == C.KEYS:
                    opts["key_arguments"] = ("k",)
                tx = app.task(T.cc_body, **opts)
                ty = app.task(T.keyed, **opts)
                o = app.orchestrator
                y = ty("a", "d", "e")
                list(o.get_invocations_to_run(1, rctx("rB")))
                if hold == "running":
                    o.set_invocation_status(y.invocation_id, trs_status("running"), rctx("rB"))
                x = tx("a", "d", "e")
                got = [g.invocation_id for g in o.get_invocations_to_run(2, rctx("rA"))]
                st = o.get_invocation_status(x.invocation_id).value
                ctx.count()
                ctx.distinct((kind, "two-tasks", mode.value, hold))
                if x.invocation_id not in got or st != "pending":
                    ctx.report(f"blocked-by-another-task[{kind}]", f"[{kind}] an invocation of ANOTHER task with the same arguments is {hold}; this task's invocation (mode {mode.value}) was polled: "
                                                                  f"handed out {x.invocation_id in got}, status {st} - tasks must not block one another",
                               {"backend": kind, "scenario": "two-tasks", "mode": mode.value, "other_is": hold})
                flush(app)


def child_of_running_probe(ctx: Ctx) -> None:
    """who SUBMITS an invocation does not enter its concurrency key: a running invocation that calls its own task with its own key
    (a body that fans out, a retry written by hand) gets a child that competes with it like any other invocation - the child is not
    started while the parent runs"""
    from pynenc import context
    from pynenc.conf.config_task import ConcurrencyControlType as C

    for kind in ("mem", "sqlite"):
        for mode in (C.KEYS, C.ARGUMENTS, C.TASK):
            app = make_app(kind, ctx.tmp, app_id=f"c06child{kind}{mode.value}{ctx.rng.randrange(10**6)}")
            opts: dict[str, Any] = {"running_concurrency": mode}
            if mode == C.KEYS:
                opts["key_arguments"] = ("k",)
            t = app.task(T.cc_body, **opts)
            o = app.orchestrator
            parent = t("a", "d", "e")
            got = list(o.get_invocations_to_run(1, rctx("rA")))
            o.set_invocation_status(parent.invocation_id, trs_status("running"), rctx("rA"))
            prev = context.swap_dist_invocation_context(app.app_id, got[0])
            try:
                child = t("a", "d", "e")
                other = t("b", "d", "e")          # control: another key (KEYS / ARGUMENTS) may run
            finally:
                context.swap_dist_invocation_context(app.app_id, prev)
            handed = [g.invocation_id for g in o.get_invocations_to_run(2, rctx("rB"))]
            authorised = o.is_authorize_to_run_by_concurrency_control(child) if hasattr(o, "is_authorize_to_run_by_concurrency_control") else None
            st = o.get_invocation_status(child.invocation_id).value
            ctx.count()
            ctx.distinct((kind, "child-of-running", mode.value))
            rep = {"backend": kind, "scenario": "child-of-running", "mode": mode.value}
            if child.invocation_id in handed or st in ("pending", "running") or authorised:
                ctx.report(f"child-runs-beside-its-parent[{kind}]", f"[{kind}] a RUNNING invocation (mode {mode.value}) submits an invocation of its own task with its own key; another runner polls: "
                                                                   f"the child was handed out: {child.invocation_id in handed}, its status {st}, run-time authorisation {authorised} - two invocations of one key would run at once", rep)
            if mode != C.TASK and other.invocation_id not in handed:
                ctx.report(f"child-with-another-key-blocked[{kind}]", f"[{kind}] a child with ANOTHER key (mode {mode.value}) was not handed out: {handed}", rep)
            flush(app)


def purge_vs_submission_probe(ctx: Ctx) -> None:
    """the housekeeping of a runner purges a finished invocation (its index entries go) while a client submits a NEW invocation with
    the same argument values (its index entries come): the purge thread is paused after each source line of the in-memory
    orchestrator while the submission runs to completion, and the other way round.  Afterwards the new invocation is indexed: once it
    is claimed, a third one with its key is blocked."""
    from pynenc.conf.config_task import ConcurrencyControlType as C
    from pynenc.orchestrator.mem_orchestrator import MemOrchestrator

    from harness.sched_line import LineSched
    from harness.sched_sql import PrefixChooser

    sched = LineSched(line_targets=[MemOrchestrator], lock_modules=["pynenc.orchestrator.mem_orchestrator"], max_steps=20000).install()
    n = 0
    try:
        def run_one(chooser):
            app = make_app("mem", ctx.tmp, app_id=f"c06purge{ctx.rng.randrange(10**7)}", auto_final_invocation_purge_hours=0.0)
            t = app.task(T.cc_body, running_concurrency=C.KEYS, key_arguments=("k",))
            o = app.orchestrator
            inv1 = t("a", "d", "e")
            list(o.get_invocations_to_run(1, rctx("rA")))
            o.set_invocation_status(inv1.invocation_id, trs_status("running"), rctx("rA"))
            o.set_invocation_status(inv1.invocation_id, trs_status("success"), rctx("rA"))
            made: dict = {}
            run = sched.run([lambda: o.auto_purge(), lambda: made.setdefault("inv2", t("a", "x", "e"))], chooser)
            inv2 = made.get("inv2")
            got = [g.invocation_id for g in o.get_invocations_to_run(1, rctx("rB"))]
            inv3 = t("a", "y", "e")
            got3 = [g.invocation_id for g in o.get_invocations_to_run(1, rctx("rC"))]
            st = {k: (o.get_invocation_status(v.invocation_id).value if v is not None else None) for k, v in (("inv2", inv2), ("inv3", inv3))}
            run.meta = (st, got, got3)  # type: ignore[attr-defined]
            return run

        for first in (0, 1):
            steps = len(run_one(PrefixChooser([first] * 20000)).choices)
            stride = 1 if steps <= 120 or not ctx.quick else steps // 120 + 1
            for k in range(0, steps + 1, stride):
                run = run_one(PrefixChooser([first] * k + [1 - first] * 20000))
                n += 1
                ctx.count()
                ctx.distinct(("purge-vs-submission", first, k))
                st, got, got3 = run.meta  # type: ignore[attr-defined]
                if run.aborted or any(e is not None for e in run.errors) or (st["inv2"] == "pending" and st["inv3"] in ("pending", "running")):
                    ctx.report("index-entry-lost-to-concurrent-purge[mem]",
                               f"[mem] auto_purge of a finished invocation with key a and the submission of a new one with the same key at the same time (thread {first} paused after "
                               f"{k} source lines): afterwards the new invocation is {st['inv2']} and a THIRD one with the key is {st['inv3']} (errors {run.errors})",
                               {"backend": "mem", "scenario": "purge-vs-submission", "paused_thread": first, "after_steps": k})
                    return
    finally:
        sched.uninstall()
        ctx.notes["purge_vs_submission_schedules"] = n


def lookup_fault_probe(ctx: Ctx) -> None:
    """the database refuses the LOOKUP that concurrency control relies on ("database is locked") while status writes still go through:
    "could not look" is not "nobody holds the key".  Whatever the poll and the worker start do then - raise, skip, park - a second
    invocation of the key does not become PENDING / RUNNING."""
    import sqlite3

    from pynenc.conf.config_task import ConcurrencyControlType as C
    from pynenc.util.sqlite_utils import SQLiteConnection

    for mode in (C.KEYS, C.TASK):
        app = make_app("sqlite", ctx.tmp, app_id=f"c06lookup{mode.value}{ctx.rng.randrange(10**6)}")
        opts: dict[str, Any] = {"running_concurrency": mode}
        if mode == C.KEYS:
            opts["key_arguments"] = ("k",)
        t = app.task(T.cc_body, **opts)
        o = app.orchestrator
        inv1 = t("a", "d", "e")
        list(o.get_invocations_to_run(1, rctx("rA")))
        o.set_invocation_status(inv1.invocation_id, trs_status("running"), rctx("rA"))
        inv2 = t("a", "x", "e")
        real_execute = SQLiteConnection.execute
        state = {"armed": True, "hits": 0}

        def execute(conn, sql, parameters=(), /):  # type: ignore[no-untyped-def]
            head = " ".join(str(sql).split())[:60].upper()
            if state["armed"] and head.startswith("SELECT I.INVOCATION_ID FROM"):      # the existing-invocations lookup
                state["hits"] += 1
                raise sqlite3.OperationalError("database is locked")
            return real_execute(conn, sql, parameters)

        SQLiteConnection.execute = execute  # type: ignore[method-assign]
        got, raised = [], None
        try:
            try:
                got = list(o.get_invocations_to_run(2, rctx("rB")))
            except BaseException as e:  # noqa: BLE001
                raised = type(e).__name__
            for g in got:
                T.CC_GATES[g.invocation_id] = threading.Event()
                th = threading.Thread(target=g.run, args=[rctx("rB")], daemon=True)
                th.start()
                t0 = _time.time()
                while _time.time() - t0 < 3 and th.is_alive() and o.get_invocation_status(g.invocation_id).value != "running":
                    _time.sleep(0.002)
        finally:
            state["armed"] = False
            SQLiteConnection.execute = real_execute  # type: ignore[method-assign]
        st2 = o.get_invocation_status(inv2.invocation_id).value
        st1 = o.get_invocation_status(inv1.invocation_id).value
        ctx.count()
        ctx.distinct(("lookup-fault", mode.value, state["hits"] > 0))
        for g in got:
            gate = T.CC_GATES.get(g.invocation_id)
            if gate:
                gate.set()
        if st1 == "running" and st2 in ("pending", "running"):
            ctx.report("claimed-while-lookup-failed[sqlite]", f"[sqlite] an invocation holds the key RUNNING; the concurrency-control lookups of the next poll fail with 'database is locked' "
                                                              f"({state['hits']} refused; the poll {'raised ' + raised if raised else 'returned ' + str(len(got)) + ' invocation(s)'}): the second "
                                                              f"invocation of the key is {st2} (mode {mode.value})", {"backend": "sqlite", "scenario": "lookup-fault", "mode": mode.value})
        flush(app)


def second_process_probe(ctx: Ctx) -> None:
    """the holder of a key and the poller are DIFFERENT processes on one SQLite file (what a deployment looks like): a fresh interpreter
    with its own hash salt submits an invocation with the key this process holds RUNNING, polls and starts what it is handed.  Short
    keys, long keys (a few hundred characters, still inline) and a second non-key argument."""
    import json
    import os
    import subprocess
    import sys
    from concurrent.futures import ThreadPoolExecutor

    from pynenc.conf.config_task import ConcurrencyControlType as C

    envv = dict(os.environ)
    envv["PYTHONPATH"] = os.pathsep.join(p for p in sys.path if p)
    cases = [("keys", ["k"], ["a", "d", "e"]), ("keys", ["k"], ["K" * 226, "d", "e"]), ("arguments", [], ["a" * 300, "b" * 140, "e"]),
             ("keys", ["k", "v"], ["k" * 129, "v" * 1000, "e"]), ("task", [], ["a", "d", "e"])]
    if ctx.quick:
        cases = cases[:3]

    def one(n: int, mode: str, keys: list, args: list) -> dict:
        app_id = f"c06proc{n}x{ctx.rng.randrange(10**6)}"
        db = os.path.join(ctx.tmp, app_id + ".db")
        app = make_app("sqlite", ctx.tmp, app_id, db=db)
        opts: dict[str, Any] = {"running_concurrency": C(mode), "reroute_on_concurrency_control": False}
        if keys:
            opts["key_arguments"] = tuple(keys)
        t = app.task(T.cc_body, **opts)
        held = t(*args)
        o = app.orchestrator
        got = list(o.get_invocations_to_run(1, rctx("rA")))
        o.set_invocation_status(held.invocation_id, trs_status("running"), rctx("rA"))
        envc = dict(envv, PYTHONHASHSEED=str(11 + n))
        p = subprocess.run([sys.executable, "-m", "harness.c06_child", json.dumps({"db": db, "tmp": ctx.tmp, "app_id": app_id, "mode": mode, "keys": keys, "reroute": False, "args": args})],
                           capture_output=True, text=True, env=envc, timeout=120)
        lines = [ln for ln in p.stdout.strip().splitlines() if ln.startswith("{")]
        d = json.loads(lines[-1]) if lines else {"crashed": (p.stderr or p.stdout)[-300:]}
        d["held"] = held.invocation_id
        d["got"] = len(got)
        return d

    with ThreadPoolExecutor(max_workers=5) as ex:
        futs = [(c, ex.submit(one, n, *c)) for n, c in enumerate(cases)]
        res = [(c, f.result()) for c, f in futs]
    for (mode, keys, args), d in res:
        ctx.count()
        ctx.distinct(("second-process", mode, tuple(keys), tuple(len(a) for a in args)))
        rep = {"scenario": "second-process", "mode": mode, "keys": keys, "arg_lengths": [len(a) for a in args]}
        if "crashed" in d:
            ctx.obligation("the second-process probe of C06 ran", False, str(d)[:300])
            continue
        st = d["statuses"]
        running = [i for i, v in st.items() if v == "running"]
        if len(running) > 1 or st.get(d["submitted"]) in ("pending", "running"):
            ctx.report("two-running-same-key[sqlite]:second-process",
                       f"[sqlite] this process holds an invocation RUNNING (mode {mode}, key arguments {keys}, argument lengths {[len(a) for a in args]}); another process submitted the same "
                       f"key, polled and started what it got: the second invocation is {st.get(d['submitted'])}, {len(running)} invocations RUNNING", rep)


def trs_status(name: str):  # type: ignore[no-untyped-def]
    from pynenc.invocation.status import InvocationStatus

    return InvocationStatus(name)


def two_pollers_probe(ctx: Ctx) -> None:
    """known-finding probe (b): two pollers, two same-key invocations, in-memory line-level schedules"""
    from pynenc.broker.mem_broker import MemBroker
    from pynenc.conf.config_task import ConcurrencyControlType as C
    from pynenc.orchestrator.mem_orchestrator import MemOrchestrator

    from harness.sched_line import DeferredThreads, LineSched
    from harness.sched_sql import explore

    app = make_app("mem", ctx.tmp, app_id="c06probe")
    task = app.task(T.keyed, running_concurrency=C.TASK)
    defer = DeferredThreads().install()
    sched = LineSched(line_targets=[MemOrchestrator._atomic_status_transition, MemOrchestrator.get_existing_invocations, MemBroker.retrieve_invocation],
                      lock_modules=["pynenc.orchestrator.mem_orchestrator"]).install()
    found = None
    n = 0
    try:
        def run_one(chooser):
            defer.flush()
            app.purge()
            ids = [task("a").invocation_id, task("b").invocation_id]
            got: dict[int, list] = {0: [], 1: []}

            def body(r):
                def f():
                    got[r] = [i.invocation_id for i in app.orchestrator.get_invocations_to_run(1, rctx(f"r{r}"))]
                return f
            run = sched.run([body(0), body(1)], chooser)
            run.meta = (ids, got, {i: app.orchestrator.get_invocation_status(i).value for i in ids})  # type: ignore[attr-defined]
            return run

        for run in explore(run_one, 2, 80 if ctx.quick else 400):
            n += 1
            ids, got, st = run.meta  # type: ignore[attr-defined]
            if all(v == "pending" for v in st.values()):
                found = (run.choices, got)
                break
    finally:
        sched.uninstall()
        defer.uninstall()
    ctx.notes["two_pollers_schedules"] = n
    if found:
        ctx.report("two-pollers-check-then-act[mem]", f"[mem] two pollers each passed the candidate check before either claimed: two invocations of a TASK-concurrency task are both PENDING (schedule {found[0]})",
                   {"schedule": found[0], "got": found[1]})


def run(ctx: Ctx) -> None:
    lean_stage(ctx, tr.gen, THEOREMS)
    ctx.cov["rule"] = ("per (backend, running mode, key arguments, reroute option): seeded sequences of single and batch submissions (equal and "
                       "different keys), polls of 1-3, real worker starts holding RUNNING, finishes, plus scripted scenarios (batch of equal calls, "
                       "blocked RETRY candidate) and a two-poller scheduled probe; distinct = distinct (config, step shape) observations")
    drv = LeanDriver()
    clock = VirtualClock().install()
    nd = 0
    try:
        for ci, (mode, keys, rer) in enumerate(CONFIGS if not ctx.quick else CONFIGS[:5]):
            for kind in ("mem", "sqlite"):
                w = World(ctx, kind, ci, mode, keys, rer, drv, clock)
                try:
                    scenario_random(w, 60 if ctx.quick else 300)
                finally:
                    w.close()
                nd += w.nd
                ctx.notes["blocking_candidates_in_polls"] = ctx.notes.get("blocking_candidates_in_polls", 0) + getattr(w, "nblocking", 0)
                if mode != "disabled":
                    w2 = World(ctx, kind, ci, mode, keys, rer, drv, clock)
                    try:
                        scenario_batch_same_key(w2)
                    finally:
                        w2.close()
                    nd += w2.nd
                    if mode == "task":
                        w3 = World(ctx, kind, ci, mode, keys, rer, drv, clock, retries=3)
                        try:
                            scenario_retry_blocked(w3)
                        finally:
                            w3.close()
                        nd += w3.nd
                ctx.sample({"backend": kind, "mode": mode, "keys": keys, "reroute": rer, "invocations": len(w.invs)})
        for ci, (mode, keys, rer, reg) in enumerate(CONFIGS_REG if not ctx.quick else CONFIGS_REG[:2]):
            for kind in ("mem", "sqlite"):
                w = World(ctx, kind, 100 + ci, mode, keys, rer, drv, clock, reg=reg)
                try:
                    scenario_random(w, 50 if ctx.quick else 300)
                finally:
                    w.close()
                nd += w.nd
                ctx.sample({"backend": kind, "mode": mode, "keys": keys, "reroute": rer, "registration": reg, "invocations": len(w.invs)})
        # a task WITHOUT parameters under ARGUMENTS / KEYS control: its key dictionary is empty, every invocation has the same key
        for ci, (mode, keys, rer) in enumerate([("arguments", (), True), ("arguments", (), False)]):
            for kind in ("mem", "sqlite"):
                w = World(ctx, kind, 200 + ci, mode, keys, rer, drv, clock, noargs=True)
                try:
                    scenario_random(w, 40 if ctx.quick else 200)
                finally:
                    w.close()
                nd += w.nd
                ctx.sample({"backend": kind, "mode": mode, "no_parameters": True, "reroute": rer, "invocations": len(w.invs)})
        ctx.obligation("correspondence: submissions, polls, worker starts, finishes on Mem and SQLite == CC model", nd == 0, f"{nd} disagreements")
        two_paths_probe(ctx)
        awaited_same_key_probe(ctx)
        second_process_probe(ctx)
        two_tasks_probe(ctx)
        child_of_running_probe(ctx)
        lookup_fault_probe(ctx)
        purge_vs_submission_probe(ctx)
        two_pollers_probe(ctx)
    finally:
        clock.uninstall()
        drv.close()
    ctx.assumptions += [
        "the positive theorem covers one poller at a time (atomic check-and-claim); the two-poller interleaving is a known finding, refuted in Lean and reproduced by the probe",
        "worker starts run the real DistributedInvocation.run in a thread whose body blocks on a gate (real time, sub-second)",
    ]
    if not ctx.quick:
        thorough_rebuild(ctx)


def replay(data: dict) -> int:
    from harness.common import replay_by_rerun

    return replay_by_rerun("C06", run, data)
