"""C05 — a final status always comes with the matching result or exception.

Lean: Props/C05.lean — `final_has_outcome` / `get_final_result_spec` are invariants of every interleaving of workers,
      readers and other status traffic (Model/Outcome.lean) because the outcome is stored before the final status is
      requested; that order is read off the REAL code on every run (Gen/Programs.lean, traced effects) and compared in
      `worker_program_order`.
Tie:  translator (effect programs, every run) + scheduled reader-vs-worker runs of the real code on both backends
      (in-memory: source-line yield points in the result/exception store and the status transition; SQLite: every SQL
      statement): a reader polls `status` then `get_final_result()` at every yield point.
Oracle (independent): whenever a reader sees SUCCESS the result is readable and equals what the body returned; FAILED ⇒
      `get_final_result` raises an exception of the same type and args as the body raised; non-final ⇒ never a value.
      Value path: generated values / exceptions (sizes straddling the externalisation threshold) for every serializer x
      backend x threshold through a real execution and a client-side read.
"""
from __future__ import annotations

from typing import Any, Callable

from harness import tasks as T
from harness.apps import flush, make_app, rctx, inject_status
from harness.common import Ctx, lean_stage, thorough_rebuild
from harness.sched_line import DeferredThreads, LineSched
from harness.sched_sql import RandomChooser, SqlSched, explore
from harness.translate import programs as trp
from harness.translate import status as trs

THEOREMS = ["worker_program_order", "outInv_step", "outInv_init", "final_has_outcome", "get_final_result_spec"]

SQL_PATCH = [
    ("pynenc.util.sqlite_utils", "create_sqlite_connection"),
    ("pynenc.broker.sqlite_broker", "sqlite_conn"),
    ("pynenc.orchestrator.sqlite_orchestrator", "sqlite_conn"),
    ("pynenc.state_backend.sqlite_state_backend", "sqlite_conn"),
    ("pynenc.trigger.sqlite_trigger", "sqlite_conn"),
]


def same_exc(a: BaseException, b: BaseException) -> bool:
    return type(a).__name__ == type(b).__name__ and tuple(a.args) == tuple(b.args)


def gen_values(rng, threshold: int) -> list[Any]:
    big = "x" * (threshold + 7)
    edge = "y" * max(threshold - 3, 1)
    vals: list[Any] = [None, 0, -1, 2**40, 1.5, True, "", "héllo ✓", big, edge, [1, [2, [3, "z"]]], {"a": {"b": [1, 2, {"c": None}]}, "k": big},
                       [big, big], {"n": 1, "l": [True, False, None]}]
    for _ in range(6):
        vals.append([rng.randint(-5, 5) for _ in range(rng.randint(0, 6))])
        vals.append({f"k{j}": "v" * rng.randint(0, threshold + 3) for j in range(rng.randint(1, 3))})
    return vals


def gen_excs() -> list[tuple[str, tuple]]:
    return [("ValueError", ("bad", 3)), ("KeyError", ("k",)), ("RuntimeError", ()), ("ProgError", ("boom", 7)),
            ("RetryError", ("try later",)), ("ZeroDivisionError", ("division by zero",)), ("TypeError", ("x", "y", 1)),
            # application errors defined INSIDE another class (their qualified name has a dot)
            ("Nested:QuotaExceeded", ("acme", 7)), ("Nested:TryLater", ("busy",))]


def forget_local_copies(app) -> None:  # type: ignore[no-untyped-def]
    """the client that reads an outcome is not the process that produced it: it has no locally cached copy of the externalised
    object (the in-process LRU of the client data store would hand back the very object the worker stored)"""
    cache = getattr(app.client_data_store, "_deserialized_cache", None)
    if cache is not None:
        cache.clear()


def value_path(ctx: Ctx) -> None:
    """every serializer x backend x threshold: run the real body, read the outcome as a client does"""
    from pynenc.exceptions import InvocationError
    from pynenc.invocation.status import InvocationStatus as S

    sers = ["JsonSerializer", "PickleSerializer", "JsonPickleSerializer"]
    thresholds = [64, 1024]        # everything externalised / small outcomes inline
    nd = 0
    for kind in ("mem", "sqlite"):
        for ser in sers:
            for th in thresholds:
                app = make_app(kind, ctx.tmp, app_id=f"c05v{kind}{ser}{th}", serializer_cls=ser, min_size_to_cache=th)
                echo = app.task(T.c05_echo)
                raiser = app.task(T.c05_raise, max_retries=0)
                c = rctx("rV")
                for v in gen_values(ctx.rng, th):
                    inv = echo(v)
                    # non-final: never a value
                    try:
                        got = inv.get_final_result()
                        ctx.report(f"value-before-final[{kind}]", f"[{kind}/{ser}] get_final_result returned {got!r} while the invocation was {inv.status.value}", {"backend": kind, "serializer": ser})
                    except InvocationError:
                        pass
                    inject_status(app, inv.invocation_id, S.PENDING, "rV", 0)
                    app.state_backend.get_invocation(inv.invocation_id).run(c)
                    ctx.count()
                    st = inv.status
                    if st != S.SUCCESS:
                        ctx.report(f"body-returned-not-success[{kind}]:{ser}", f"[{kind}/{ser}] body returned {type(v).__name__} but status is {st.value}", {"backend": kind, "serializer": ser, "value": repr(v)[:80]})
                        continue
                    forget_local_copies(app)
                    try:
                        got = inv.result
                    except BaseException as e:  # noqa: BLE001
                        ctx.report(f"success-without-result[{kind}]:{ser}", f"[{kind}/{ser}] SUCCESS observed but reading the result raised {type(e).__name__}: {e}", {"backend": kind, "serializer": ser, "value": repr(v)[:80]})
                        continue
                    ctx.distinct((kind, ser, th, type(v).__name__, len(repr(v)) > th))
                    if got != v or type(got) is not type(v):
                        ctx.report(f"result-differs[{kind}]:{ser}", f"[{kind}/{ser}, threshold {th}] result read back {repr(got)[:60]} != returned {repr(v)[:60]}", {"backend": kind, "serializer": ser, "value": repr(v)[:80]})
                # last: a PynencError subclass defined only when its body runs, after other failures have been read back
                for name, args in gen_excs() + [(f"Late:{kind}{ser}{th}", ("tenant-7", 3))]:
                    inv = raiser(name, list(args))
                    inject_status(app, inv.invocation_id, S.PENDING, "rV", 0)
                    try:
                        app.state_backend.get_invocation(inv.invocation_id).run(c)
                    except BaseException:  # noqa: BLE001
                        pass
                    ctx.count()
                    if inv.status != S.FAILED:
                        ctx.report(f"body-raised-not-failed[{kind}]:{ser}", f"[{kind}/{ser}] body raised {name}{args} but status is {inv.status.value}", {"backend": kind, "serializer": ser, "exc": name})
                        continue
                    forget_local_copies(app)
                    try:
                        got = inv.result
                        ctx.report(f"failed-returned-value[{kind}]:{ser}", f"[{kind}/{ser}] FAILED invocation returned {got!r} instead of raising", {"backend": kind, "serializer": ser, "exc": name})
                    except BaseException as e:  # noqa: BLE001
                        ctx.distinct((kind, ser, name))
                        want = T.c05_make_exc(name, list(args))
                        if not same_exc(e, want):
                            ctx.report(f"exception-differs[{kind}]:{ser}:{name}", f"[{kind}/{ser}] body raised {name}{tuple(args)}, client got {type(e).__name__}{tuple(e.args)}", {"backend": kind, "serializer": ser, "exc": name, "args": list(args)})
                flush(app)
    ctx.obligation("value path: every generated result / exception read back equal, for every serializer x backend x threshold",
                   not any(v["signature"].split("[")[0] in ("result-differs", "exception-differs", "success-without-result", "failed-returned-value", "value-before-final") for v in ctx.violations), "see violations")


def fault_and_alias(ctx: Ctx) -> None:
    """(a) a storage fault while the outcome is being stored must not publish a final status without its outcome;
    (b) a body that mutates a large argument in place and returns it / returns one growing object twice: a reader in ANOTHER
    process image (a second app object on the same SQLite file, with its own caches) must read what the body returned"""
    from pynenc.app import Pynenc
    from pynenc.invocation.status import InvocationStatus as S

    sers = ["JsonSerializer", "PickleSerializer", "JsonPickleSerializer"]
    for kind in ("mem", "sqlite"):
        for ser in sers:
            app = make_app(kind, ctx.tmp, app_id=f"c05f{kind}{ser}", serializer_cls=ser, min_size_to_cache=64)
            raiser = app.task(T.c05_raise, max_retries=0)
            echo = app.task(T.c05_echo)
            c = rctx("rF")
            sb = app.state_backend
            for what, attr, mk in (("exception", "_set_exception", lambda: raiser("ValueError", ["bad value", 2])),
                                   ("result", "_set_result", lambda: echo({"v": "r" * 100}))):
                inv = mk()
                inject_status(app, inv.invocation_id, S.PENDING, "rF", 0)
                orig = getattr(sb, attr)
                state = {"n": 0}

                def flaky(*a, _orig=orig, _st=state, **k):
                    _st["n"] += 1
                    if _st["n"] == 1:
                        raise OSError("injected storage fault")
                    return _orig(*a, **k)

                setattr(sb, attr, flaky)
                try:
                    app.state_backend.get_invocation(inv.invocation_id).run(c)
                except BaseException:  # noqa: BLE001
                    pass
                finally:
                    setattr(sb, attr, orig)
                ctx.count()
                st = inv.status
                ctx.distinct((kind, ser, "store-fault", what, st.value))
                if st.is_final():
                    try:
                        got = inv.get_final_result()
                        ok = st == S.SUCCESS
                    except KeyError as e:
                        ok = False
                        got = e
                    except BaseException as e:  # noqa: BLE001
                        ok = st == S.FAILED and not isinstance(e, KeyError)
                        got = e
                    if not ok:
                        ctx.report(f"final-without-outcome-after-store-fault[{kind}]:{what}",
                                   f"[{kind}/{ser}] storing the {what} failed once (storage fault) and the invocation was published {st.value}; asking for the result gives {type(got).__name__}: {str(got)[:80]}",
                                   {"backend": kind, "serializer": ser, "fault": attr})
            flush(app)
    # (b) second process image on the same SQLite file
    for ser in sers:
        db = f"{ctx.tmp}/c05alias{ser}.db"
        worker_app = make_app("sqlite", ctx.tmp, app_id=f"c05a{ser}", db=db, serializer_cls=ser, min_size_to_cache=64)
        mut = worker_app.task(T.c05_mutate)
        grow = worker_app.task(T.c05_growing)
        T.C05_GROWING.clear()
        c = rctx("rA")
        rows = [ctx.rng.randint(0, 10**6) for _ in range(120)]
        expect_mut = sorted(rows) + [len(rows)]
        jobs = [(mut(list(rows)), expect_mut)]
        g1 = grow(60)
        jobs.append((g1, list(range(60))))
        for inv, _ in jobs:
            inject_status(worker_app, inv.invocation_id, S.PENDING, "rA", 0)
            worker_app.state_backend.get_invocation(inv.invocation_id).run(c)
        g2 = grow(41)
        inject_status(worker_app, g2.invocation_id, S.PENDING, "rA", 0)
        worker_app.state_backend.get_invocation(g2.invocation_id).run(c)
        jobs.append((g2, list(range(101))))
        flush(worker_app)
        Pynenc._clear_instances()
        reader_app = make_app("sqlite", ctx.tmp, app_id=f"c05a{ser}", db=db, serializer_cls=ser, min_size_to_cache=64)
        reader_app.task(T.c05_mutate), reader_app.task(T.c05_growing)
        for inv, want in jobs:
            got = reader_app.state_backend.get_result(inv.invocation_id)
            ctx.count()
            ctx.distinct(("sqlite", ser, "second-image", len(want)))
            if got != want:
                ctx.report(f"result-differs-in-second-process:{ser}",
                           f"[sqlite/{ser}] status SUCCESS but a reader with its own caches reads {len(got) if hasattr(got, '__len__') else got!r} entries / different content; the body returned {len(want)} entries (in-place mutation / reused object)",
                           {"serializer": ser, "got_head": repr(got)[:80], "want_head": repr(want)[:80]})


def scheduled(ctx: Ctx, kind: str) -> None:
    from pynenc.exceptions import InvocationError
    from pynenc.invocation.status import InvocationStatus as S
    from pynenc.orchestrator.mem_orchestrator import MemOrchestrator
    from pynenc.state_backend.mem_state_backend import MemStateBackend

    app = make_app(kind, ctx.tmp, app_id=f"c05s{kind}")
    echo = app.task(T.c05_echo)
    raiser = app.task(T.c05_raise, max_retries=0)
    defer = DeferredThreads().install()
    if kind == "mem":
        sched: SqlSched = LineSched(line_targets=[MemStateBackend._set_result, MemStateBackend._get_result, MemStateBackend._set_exception,
                                                  MemStateBackend._get_exception, MemOrchestrator._atomic_status_transition,
                                                  MemOrchestrator.get_invocation_status_record, MemOrchestrator._interanl_atomic_status_transition],
                                    lock_modules=["pynenc.orchestrator.mem_orchestrator"])
    else:
        sched = SqlSched(patch=SQL_PATCH, max_steps=20000)
    sched.install()
    total = 0
    try:
        for outcome in ("ok", "fail"):
            value = {"payload": "p" * 80, "n": [1, 2, 3]}

            def run_one(chooser, outcome=outcome):
                defer.flush()
                app.purge()
                inv = echo(value) if outcome == "ok" else raiser("ValueError", ["bad", 3])
                inject_status(app, inv.invocation_id, S.PENDING, "rW", 0)
                worker_inv = app.state_backend.get_invocation(inv.invocation_id)
                obs: list = []

                def worker() -> None:
                    try:
                        worker_inv.run(rctx("rW"))
                    except BaseException:  # noqa: BLE001
                        pass

                def reader() -> None:
                    for _ in range(5):
                        st = inv.status
                        try:
                            got = inv.get_final_result()
                            obs.append((st.value, "value", got, inv.status.value))
                        except InvocationError:
                            obs.append((st.value, "not-final", None, None))
                        except BaseException as e:  # noqa: BLE001
                            obs.append((st.value, "raised", e, inv.status.value))

                run = sched.run([worker, reader], chooser)
                run.meta = obs  # type: ignore[attr-defined]
                return run

            runs = explore(run_one, 2 if ctx.quick else 3, 100 if ctx.quick else 1200)
            for run in runs:
                total += 1
                ctx.count()
                ctx.distinct((kind, outcome, tuple(run.choices)))
                rep = {"backend": kind, "outcome": outcome, "schedule": run.choices}
                if run.aborted or any(run.errors):
                    ctx.report(f"reader-run-error[{kind}]", f"[{kind}] scheduled run aborted={run.aborted} errors={run.errors}", rep)
                    continue
                for st, k_, got, st_after in run.meta:  # type: ignore[attr-defined]
                    # the status may change between the reader's two calls; a value / exception proves the status
                    # was final when get_final_result looked, and finals are absorbing: it must still be final after
                    final = st in ("success", "failed", "concurrency_controlled_final") or (k_ == "value" and st_after == "success") or (k_ == "raised" and st_after == "failed")
                    if k_ == "value" and got != value:
                        ctx.report(f"wrong-value-observed[{kind}]", f"[{kind}] get_final_result returned {repr(got)[:80]}, the body returned {repr(value)[:80]} (schedule {run.choices})", rep)
                    if st == "success" and not (k_ == "value" and got == value):
                        ctx.report(f"success-observed-without-result[{kind}]", f"[{kind}] reader saw SUCCESS, then get_final_result gave {k_} {repr(got)[:80]} (schedule {run.choices})", rep)
                    if st == "failed" and not (k_ == "raised" and same_exc(got, ValueError("bad", 3))):
                        ctx.report(f"failed-observed-without-exception[{kind}]", f"[{kind}] reader saw FAILED, then get_final_result gave {k_} {repr(got)[:80]} (schedule {run.choices})", rep)
                    if not final and k_ == "value":
                        ctx.report(f"value-for-non-final[{kind}]", f"[{kind}] reader saw {st} and get_final_result returned a value (schedule {run.choices})", rep)
                    if not final and k_ == "raised" and not isinstance(got, (KeyError,)) and st not in ("running", "pending"):
                        pass
        ctx.notes[f"reader_schedules_{kind}"] = total
    finally:
        sched.uninstall()
        defer.uninstall()
    ctx.obligation(f"scheduled reader vs worker on {kind}: every observation consistent with final_has_outcome ({total} schedules)",
                   not any(v["signature"].startswith(("success-observed-without-result", "failed-observed-without-exception", "value-for-non-final", "reader-run-error")) for v in ctx.violations),
                   "see violations")


def late_writer(ctx: Ctx) -> None:
    """a stale runner finishes AFTER the invocation was recovered and completed elsewhere, with the opposite outcome: its final
    status is refused (it is not the owner) - and the outcome that belongs to the published status is still there"""
    from pynenc.invocation.status import InvocationStatus as S

    for kind in ("mem", "sqlite"):
        for ser in ("JsonSerializer", "PickleSerializer"):
            for winner in ("success", "failed"):
                app = make_app(kind, ctx.tmp, app_id=f"c05late{kind}{ser}{winner}", serializer_cls=ser, min_size_to_cache=64)
                echo = app.task(T.c05_echo)
                o = app.orchestrator
                a, b, r = rctx("rA"), rctx("rB"), rctx("rRecovery")
                inv = echo("x" * 80 if ctx.rng.random() < 0.5 else {"v": 1})
                i = inv.invocation_id
                o.set_invocation_status(i, S.PENDING, a)
                o.set_invocation_status(i, S.RUNNING, a)                       # A is slow ...
                o.set_invocation_status(i, S.RUNNING_RECOVERY, r)
                o.reroute_invocations({i}, r)
                got = list(o.get_invocations_to_run(1, b))                     # ... B takes over
                if not got:
                    continue
                o.set_invocation_status(i, S.RUNNING, b)
                if winner == "success":
                    o.set_invocation_result(got[0], "value-of-B", b)
                else:
                    o.set_invocation_exception(got[0], ValueError("failure-of-B", 7), b)
                late = None
                try:                                                           # A finishes late, the other way round
                    if winner == "success":
                        o.set_invocation_exception(inv, KeyError("late-failure-of-A"), a)
                    else:
                        o.set_invocation_result(inv, "late-value-of-A", a)
                    late = "accepted"
                except BaseException as e:  # noqa: BLE001
                    late = type(e).__name__
                flush(app)
                forget_local_copies(app)
                ctx.count()
                ctx.distinct((kind, ser, "late-writer", winner))
                st = o.get_invocation_status(i)
                rep = {"scenario": "late-writer", "backend": kind, "serializer": ser, "published": winner, "late_attempt": late}
                reader = app.state_backend.get_invocation(i)
                try:
                    val = reader.get_final_result()
                    outcome = ("value", val)
                except BaseException as e:  # noqa: BLE001
                    outcome = ("raised", type(e).__name__, tuple(getattr(e, "args", ())))
                want = ("value", "value-of-B") if winner == "success" else ("raised", "ValueError", ("failure-of-B", 7))
                if st.value != winner or outcome != want:
                    ctx.report(f"outcome-lost-to-late-writer[{kind}]:{winner}", f"[{kind}/{ser}] runner B published {winner}; the stale runner A then tried to finish the other way ({late}): a reader now "
                                                                              f"sees status {st.value} and {outcome} instead of {want}", rep)


def store_emptied_by_another_instance(ctx: Ctx) -> None:
    """a long-lived worker has produced (and still holds in its local cache) a large value; another instance of the application empties
    the shared argument/result store (`purge`, a maintenance job); the worker then finishes a NEW invocation with equal content: the
    SUCCESS it publishes must come with a result that any other instance can read"""
    import copy as _copy

    from pynenc.app import Pynenc
    from pynenc.invocation.status import InvocationStatus as S

    def another(app):  # type: ignore[no-untyped-def]
        Pynenc._clear_instances()
        a2 = Pynenc(config_values=_copy.deepcopy(app.config_values))
        Pynenc._clear_instances()
        return a2

    for ser in ("JsonSerializer", "PickleSerializer", "JsonPickleSerializer"):
        for what in ("client_data_store", "app"):
            worker = make_app("sqlite", ctx.tmp, app_id=f"c05purged{ser}{what}", serializer_cls=ser, min_size_to_cache=64)
            echo = worker.task(T.c05_echo)
            o = worker.orchestrator
            big = {"rows": ["r" * 40] * 20}
            rA = rctx("rA")
            outs = []
            for rnd in (1, 2):
                inv = echo(rnd)
                got = list(o.get_invocations_to_run(1, rA))
                o.set_invocation_status(inv.invocation_id, S.RUNNING, rA)
                o.set_invocation_result(got[0], _copy.deepcopy(big), rA)
                flush(worker)
                reader = another(worker)
                reader.task(T.c05_echo)
                try:
                    st = reader.orchestrator.get_invocation_status(inv.invocation_id).value
                    val = reader.state_backend.get_invocation(inv.invocation_id).get_final_result()
                    outs.append((st, "value" if val == big else f"other value {str(val)[:60]}"))
                except BaseException as e:  # noqa: BLE001
                    outs.append((reader.orchestrator.get_invocation_status(inv.invocation_id).value, f"raised {type(e).__name__}: {str(e)[:80]}"))
                if rnd == 1:
                    op = another(worker)                       # the operator's instance
                    (op.client_data_store.purge() if what == "client_data_store" else op.purge())
            ctx.count()
            ctx.distinct(("sqlite", ser, "store-emptied-by-another-instance", what))
            if outs[1] != ("success", "value"):
                ctx.report(f"success-without-readable-result[sqlite]:after-foreign-purge",
                           f"[sqlite/{ser}] a worker finished two invocations with equal large results; between them another instance ran {what}.purge(): another instance reads "
                           f"round 1 as {outs[0]} and round 2 as {outs[1]} - SUCCESS is published but the result is not there",
                           {"scenario": "store-emptied-by-another-instance", "backend": "sqlite", "serializer": ser, "purged": what})


def run(ctx: Ctx) -> None:
    def gen() -> dict[str, str]:
        g = trs.gen()
        g.update(trp.gen(ctx.tmp))
        return g

    lean_stage(ctx, gen, THEOREMS)
    ctx.cov["rule"] = ("value path: (backend, serializer, threshold, value-type/size class) and (backend, serializer, exception) cases; schedules: "
                       "reader vs worker enumerated depth-first with a pre-emption bound per (backend, outcome); distinct = distinct cases / schedules")
    value_path(ctx)
    fault_and_alias(ctx)
    late_writer(ctx)
    store_emptied_by_another_instance(ctx)
    for kind in ("mem", "sqlite"):
        scheduled(ctx, kind)
    ctx.sample({"effect_programs": {k: v for k, v in trp.extract(ctx.tmp).items() if k.startswith("run")}})
    ctx.assumptions += [
        "pickle / jsonpickle round-trips are third-party black boxes: sampled, not proved (C15 carries the JSON proof)",
        "reader observations are taken at the scheduler's yield points (every SQL statement / every line of the result store and status transition)",
    ]
    if not ctx.quick:
        thorough_rebuild(ctx)


def replay(data: dict) -> int:
    from harness.common import replay_by_rerun

    return replay_by_rerun("C05", run, data)
