"""C02 — an invocation is held by at most one runner at a time, under any interleaving.

Lean: Props/C02.lean — graph level over the regenerated status table (a claim is only possible from an available,
un-held status; a second claim from the same state is refused; between two claims there is a release, for every
request sequence) and system level (Model/Claims.lean: any number of workers/runners + arbitrary environment
interleaved at atomic-transition granularity: never two un-killed workers in one body).
      Props/C02Excl.lean — the in-memory lock table at the level of its steps (lookup, acquire, read, write, leave; any number of
      threads): mutual exclusion, nothing stale is replaced, no lost update; `Gen/Exclusion.lean` (translate/exclusion.py) ties the
      shape of `_get_invocation_lock` / `_atomic_status_transition` to it.
Tie:  the theorems hold *given* that a status transition and a queue pop are atomic steps.  That is explored on the
      real code with real threads under deterministic schedulers: SQLite at SQL-statement granularity, in-memory at
      source-line granularity with a cooperative lock shim.
      (a) linearizability: 2-3 threads issue status requests on one invocation; the outcomes and the final record
          must equal those of SOME sequential order run on the Lean model (`orch.set`);
      (b) concurrent pollers (get_invocations_to_run) over queues with duplicate ids and a blocking-priority entry;
      (c) pollers that also run what they claimed (body entries/exits recorded).
Search/oracle (independent of the model): no invocation handed to two runners without a release, the record's owner is
      the runner that got it, at most one PENDING history entry per claim, body executions of one invocation never
      overlap unless KILLED/RUNNING_RECOVERY lies between, the poll never raises.
"""
from __future__ import annotations

import itertools
from typing import Any, Callable

from harness import tasks as T
from harness.apps import flush, inject_status, make_app, rctx
from harness.common import Ctx, LeanDriver, lean_stage, thorough_rebuild, tok
from harness.sched_line import DeferredThreads, LineSched
from harness.sched_sql import PrefixChooser, RandomChooser, SqlSched, explore
from harness.translate import status as tr

THEOREMS = [
    "claim_only_from_available", "second_claim_refused", "claim_preceded_by_release", "claim_claim_has_release",
    "only_owner_moves", "running_exits", "bodyInv_step", "bodyInv_init", "no_double_body",
    "reregistration_changes_nothing", "registration_creates_registered",
    # Props/C02Excl.lean: the in-memory lock table (shape regenerated from mem_orchestrator.py by translate/exclusion.py)
    "inv_step", "mutual_exclusion", "write_replaces_what_was_read", "no_lost_update", "check_then_create_lets_two_in",
    "condition_with_recheck_excludes", "condition_without_recheck_lets_two_in", "code_is_lookup_enter_read_decide_write_leave",
]

SQL_PATCH = [
    ("pynenc.util.sqlite_utils", "create_sqlite_connection"),
    ("pynenc.broker.sqlite_broker", "sqlite_conn"),
    ("pynenc.orchestrator.sqlite_orchestrator", "sqlite_conn"),
    ("pynenc.state_backend.sqlite_state_backend", "sqlite_conn"),
    ("pynenc.trigger.sqlite_trigger", "sqlite_conn"),
]

BODY_LOG: list = []


def _classify(e: BaseException | None) -> str:
    from pynenc.exceptions import InvocationStatusOwnershipError, InvocationStatusTransitionError

    if e is None:
        return "ok"
    if isinstance(e, InvocationStatusTransitionError):
        return "err transition"
    if isinstance(e, InvocationStatusOwnershipError):
        return "err ownership"
    if isinstance(e, KeyError):
        return "err keyerror"
    return f"err other:{type(e).__name__}:{str(e)[:80]}"


class World:
    """One backend under one scheduler."""

    def __init__(self, ctx: Ctx, kind: str):
        from pynenc.broker.mem_broker import MemBroker
        from pynenc.orchestrator.base_orchestrator import BaseOrchestrator
        from pynenc.orchestrator.mem_orchestrator import MemBlockingControl, MemOrchestrator

        self.kind = kind
        self.ctx = ctx
        self.defer = DeferredThreads().install()
        if kind == "mem":
            # the functions that make up the exclusive read-validate-write, found by name so that a rewrite of the exclusion
            # (another lock table, a condition variable, a context manager) is followed rather than breaking the harness
            import re as _re
            excl = [v for k, v in vars(MemOrchestrator).items() if _re.search(r"lock|transition|exclusive|critical", k) and (callable(v) or isinstance(v, (staticmethod, classmethod)))]
            targets = excl + [
                MemOrchestrator.get_invocation_status_record,
                MemOrchestrator.get_existing_invocations, MemOrchestrator.increment_invocation_retries,
                MemBroker.retrieve_invocation, MemBroker.route_invocation,
                MemBlockingControl.get_blocking_invocations,
                T.c02_body,
            ]
            # every Python line executed under the lock-table lookup is a yield point, also inside the container
            # implementation (a dict's setdefault is one C call; a Python-level container is not)
            deep = [v for k, v in vars(MemOrchestrator).items() if k == "_get_invocation_lock"]
            self.sched: SqlSched = LineSched(line_targets=targets, lock_modules=["pynenc.orchestrator.mem_orchestrator"], deep_targets=deep)
            # installed BEFORE the app's components are built: locks and conditions created in their constructors are cooperative too
            self.sched.install()
            self.app = make_app(kind, ctx.tmp, app_id=f"c02{kind}")
        else:
            self.app = make_app(kind, ctx.tmp, app_id=f"c02{kind}")
            self.sched = SqlSched(patch=SQL_PATCH, max_steps=20000)
            self.sched.install()
        self.task = self.app.task(T.add)
        self.body_task = self.app.task(T.c02_body)

    def close(self) -> None:
        self.sched.uninstall()
        self.defer.uninstall()

    def reset(self) -> None:
        self.defer.flush()
        self.app.purge()
        BODY_LOG.clear()

    def status(self, i: str):
        try:
            r = self.app.orchestrator.get_invocation_status_record(i)
        except KeyError:
            return ("<no record>", None)
        return (r.status.value, r.runner_id)

    def history(self, i: str) -> list[tuple[str, str | None]]:
        self.defer.flush()
        flush(self.app)
        hs = self.app.state_backend.get_history(i)
        hs = sorted(hs, key=lambda h: h.status_record.timestamp)
        return [(h.status_record.status.value, h.status_record.runner_id) for h in hs]


# ------------------------------------------------------------------------------------------------
# (a) linearizability of concurrent status requests on one invocation
# ------------------------------------------------------------------------------------------------

def lin_scenarios(S) -> list[tuple[str, tuple, list[list[tuple]]]]:
    """(name, (start status, owner), per-thread request lists)"""
    return [
        ("two-claims", (S.REGISTERED, None), [[(S.PENDING, "rA")], [(S.PENDING, "rB")]]),
        ("claim-vs-cc", (S.REGISTERED, None), [[(S.PENDING, "rA")], [(S.CONCURRENCY_CONTROLLED, "rB")]]),
        ("run-vs-recovery", (S.PENDING, "rA"), [[(S.RUNNING, "rA")], [(S.PENDING_RECOVERY, "rB"), (S.REROUTED, "rB")]]),
        ("finish-vs-kill", (S.RUNNING, "rA"), [[(S.SUCCESS, "rA")], [(S.KILLED, "rA"), (S.REROUTED, "rA")]]),
        ("retry-then-two-claims", (S.RUNNING, "rA"), [[(S.RETRY, "rA"), (S.PENDING, "rA")], [(S.PENDING, "rB")]]),
        ("three-claims", (S.REROUTED, None), [[(S.PENDING, "rA")], [(S.PENDING, "rB")], [(S.PENDING, "rC")]]),
        # a stale owner against a runner it does not own the invocation from any more / never did
        ("foreign-kill", (S.RUNNING, "rB"), [[(S.KILLED, "rA"), (S.REROUTED, "rA")], [(S.SUCCESS, "rB")]]),
        # ABA: while the owner's request is between its read and its write, the invocation is recovered and claimed by
        # another runner and comes back to the SAME status under a new owner (directed schedules, see run_lin)
        ("finish-vs-recover-and-reclaim", (S.RUNNING, "rA"),
         [[(S.SUCCESS, "rA")], [(S.RUNNING_RECOVERY, "rR"), (S.REROUTED, "rR"), (S.PENDING, "rB"), (S.RUNNING, "rB")]]),
        ("start-vs-recover-and-reclaim", (S.PENDING, "rA"),
         [[(S.RUNNING, "rA")], [(S.PENDING_RECOVERY, "rR"), (S.REROUTED, "rR"), (S.PENDING, "rB")]]),
    ]


DIRECTED = {"finish-vs-recover-and-reclaim", "start-vs-recover-and-reclaim"}


def check_linearizable(drv: LeanDriver, start, threads_ops, results, final) -> tuple[bool, Any]:
    """Is there an interleaving of the per-thread request lists whose sequential execution on the Lean model gives
    exactly these per-request outcomes and this final record?"""
    idx = [(t, k) for t, ops in enumerate(threads_ops) for k in range(len(ops))]
    seen = set()
    for perm in itertools.permutations(idx):
        if any(perm.index((t, k)) > perm.index((t, k + 1)) for t, ops in enumerate(threads_ops) for k in range(len(ops) - 1)):
            continue
        key = tuple(perm)
        if key in seen:
            continue
        seen.add(key)
        lines = ["orch.reset", f"orch.register {tok('i')} {tok(None)} 0", f"orch.inject {tok('i')} {start[0].value} {tok(start[1])} 0"]
        for (t, k) in perm:
            st, rid = threads_ops[t][k]
            lines.append(f"orch.set {tok('i')} {st.value} {tok(rid)} 1")
        lines.append(f"orch.get {tok('i')}")
        outs = drv.ask_many(lines)[3:]
        model_res = {pk: (o.split()[0] if o.startswith("ok") else o) for pk, o in zip(perm, outs[:-1])}
        mfinal = tuple(outs[-1].split()[:2])
        if all(model_res[pk] == results[pk] for pk in idx) and mfinal == (final[0], tok(final[1])):
            return True, perm
    return False, None


def run_lin(ctx: Ctx, w: World, drv: LeanDriver) -> None:
    from pynenc.invocation.status import InvocationStatus as S

    total = bad = 0
    for name, start, tops in lin_scenarios(S):
        def run_one(chooser, name=name, start=start, tops=tops):
            w.reset()
            inv = w.task(1).invocation_id
            inject_status(w.app, inv, start[0], start[1], 0)
            out: dict = {}

            def body(t: int) -> Callable[[], None]:
                def f() -> None:
                    for k, (st, rid) in enumerate(tops[t]):
                        try:
                            w.app.orchestrator.set_invocation_status(inv, st, rctx(rid))
                            out[(t, k)] = "ok"
                        except BaseException as e:  # noqa: BLE001
                            out[(t, k)] = _classify(e)
                return f

            run = w.sched.run([body(t) for t in range(len(tops))], chooser)
            run.meta = (inv, out, w.status(inv), w.history(inv))  # type: ignore[attr-defined]
            return run

        bound = 2 if ctx.quick else 3
        cap = 150 if ctx.quick else 1500
        if name in DIRECTED:
            # one thread is paused after each of its k scheduling steps while the other runs to completion, both ways round
            def directed(run_one=run_one):
                n0 = len(run_one(PrefixChooser([0] * 5000)).choices)
                for k in range(n0 + 1):
                    yield run_one(PrefixChooser([0] * k + [1] * 5000))
                n1 = len(run_one(PrefixChooser([1] * 5000)).choices)
                for k in range(0, n1 + 1, 1 if not ctx.quick else max(1, n1 // 12)):
                    yield run_one(PrefixChooser([1] * k + [0] * 5000))
            runs = directed()
        else:
            runs = explore(run_one, bound, cap) if len(tops) == 2 else (run_one(RandomChooser(ctx.rng, 0.6)) for _ in range(40 if ctx.quick else 300))
        for run in runs:
            total += 1
            ctx.count()
            inv, out, final, hist = run.meta  # type: ignore[attr-defined]
            ctx.distinct((w.kind, name, tuple(run.choices)))
            if any(e is not None for e in run.errors) or run.aborted:
                ctx.report(f"lin-error[{w.kind}]:{name}", f"[{w.kind}] scenario {name}: thread raised {run.errors} / aborted={run.aborted}",
                           {"scenario": name, "backend": w.kind, "schedule": run.choices})
                continue
            ok, perm = check_linearizable(drv, start, tops, out, final)
            n_ok = sum(1 for v in out.values() if v == "ok")
            n_hist = len(hist) - 1  # minus REGISTERED
            if not ok:
                bad += 1
                ctx.report(f"not-linearizable[{w.kind}]:{name}",
                           f"[{w.kind}] concurrent status requests {[[(s.value, r) for s, r in ops] for ops in tops]} from {start[0].value}/{start[1]} gave outcomes {sorted(out.items())} and final record {final}: no sequential order of the atomic transition explains this (schedule {run.choices})",
                           {"scenario": name, "backend": w.kind, "schedule": run.choices, "outcomes": sorted(out.items()), "final": final, "trace": run.trace[-40:]})
            elif n_hist != n_ok:
                ctx.report(f"history-count[{w.kind}]:{name}", f"[{w.kind}] {n_ok} accepted transitions but {n_hist} history entries: {hist}",
                           {"scenario": name, "backend": w.kind, "schedule": run.choices})
    ctx.obligation(f"correspondence (a): concurrent set_invocation_status on {w.kind} linearizable to Orch.setStatus ({total} schedules)", bad == 0,
                   f"{bad} non-linearizable histories")
    ctx.notes[f"lin_schedules_{w.kind}"] = total


def claim_with_a_failed_lock(ctx: Ctx, w: World, drv: LeanDriver) -> None:
    """SQLite: the write lock of a request cannot be had (`BEGIN IMMEDIATE` answers "database is locked" after pynenc's own retries -
    another process holds the database for long).  Whatever the request does about it, the requests of the two runners must still be
    explained by one sequential order; a request that FAILED with the lock error counts as not made."""
    from pynenc.invocation.status import InvocationStatus as S

    total = bad = 0
    start = (S.REGISTERED, None)
    tops = [[(S.PENDING, "rA")], [(S.PENDING, "rB")]]

    def run_one(chooser):
        w.reset()
        inv = w.task(1).invocation_id
        inject_status(w.app, inv, start[0], start[1], 0)
        out: dict = {}
        fired = {"n": 0}

        def fault(idx: int, sql: str) -> bool:
            if idx == 0 and fired["n"] == 0 and sql.lstrip().upper().startswith("BEGIN"):
                fired["n"] += 1
                return True
            return False

        def body(t: int) -> Callable[[], None]:
            def f() -> None:
                for k, (st, rid) in enumerate(tops[t]):
                    try:
                        w.app.orchestrator.set_invocation_status(inv, st, rctx(rid))
                        out[(t, k)] = "ok"
                    except BaseException as e:  # noqa: BLE001
                        out[(t, k)] = _classify(e)
            return f

        w.sched.lock_fault = fault  # type: ignore[attr-defined]
        try:
            run = w.sched.run([body(0), body(1)], chooser)
        finally:
            w.sched.lock_fault = None  # type: ignore[attr-defined]
        run.meta = (inv, out, w.status(inv), w.history(inv), fired["n"])  # type: ignore[attr-defined]
        return run

    def directed():
        n0 = len(run_one(PrefixChooser([0] * 5000)).choices)
        for k in range(n0 + 1):
            yield run_one(PrefixChooser([0] * k + [1] * 5000))
        n1 = len(run_one(PrefixChooser([1] * 5000)).choices)
        for k in range(0, n1 + 1):
            yield run_one(PrefixChooser([1] * k + [0] * 5000))

    for run in directed():
        total += 1
        ctx.count()
        inv, out, final, hist, fired = run.meta  # type: ignore[attr-defined]
        ctx.distinct((w.kind, "claim-with-a-failed-lock", tuple(run.choices)))
        rep = {"scenario": "claim-with-a-failed-lock", "backend": w.kind, "schedule": run.choices, "outcomes": sorted(out.items()), "final": final, "lock_faults": fired}
        if run.aborted or any(e is not None for e in run.errors):
            ctx.report(f"lin-error[{w.kind}]:claim-with-a-failed-lock", f"[{w.kind}] thread raised {run.errors} / aborted={run.aborted}", rep)
            continue
        # requests that failed with the lock error were not made
        made = [[op for k, op in enumerate(ops) if not out.get((t, k), "").startswith("err other:OperationalError")] for t, ops in enumerate(tops)]
        res = {}
        for t, ops in enumerate(tops):
            j = 0
            for k, _ in enumerate(ops):
                if not out.get((t, k), "").startswith("err other:OperationalError"):
                    res[(t, j)] = out[(t, k)]
                    j += 1
        ok, _perm = check_linearizable(drv, start, made, res, final)
        n_ok = sum(1 for v in out.values() if v == "ok")
        if not ok or len(hist) - 1 != n_ok:
            bad += 1
            ctx.report(f"not-linearizable[{w.kind}]:claim-with-a-failed-lock",
                       f"[{w.kind}] runners rA and rB claim one invocation; rA's BEGIN IMMEDIATE fails with 'database is locked' ({fired} fault): outcomes {sorted(out.items())}, final record "
                       f"{final}, history {hist} - no sequential order of the requests that were made explains this (schedule {run.choices})", rep)
    ctx.obligation(f"correspondence (a'): a request whose write lock cannot be had is made atomically or not at all ({total} schedules, {w.kind})", bad == 0, f"{bad} non-linearizable histories")
    ctx.notes[f"failed_lock_schedules_{w.kind}"] = total


def independent_invocations(ctx: Ctx, w: World) -> None:
    """requests on DIFFERENT invocations at the same time (a runner moving X while another claims Y and a client registers Z): each
    request is alone on its invocation, so each must simply take effect - one thread paused after each of its scheduling steps while
    the other runs to completion, both ways round"""
    from pynenc.invocation.status import InvocationStatus as S

    total = 0

    def run_one(chooser):
        w.reset()
        x, y = w.task(1).invocation_id, w.task(2).invocation_id
        made: dict = {}
        out: dict = {}

        def t0() -> None:
            for k, st in enumerate((S.PENDING, S.RUNNING)):
                try:
                    w.app.orchestrator.set_invocation_status(x, st, rctx("rA"))
                    out[(0, k)] = "ok"
                except BaseException as e:  # noqa: BLE001
                    out[(0, k)] = _classify(e)

        def t1() -> None:
            try:
                made["z"] = w.task(3).invocation_id
                out[(1, 0)] = "ok"
            except BaseException as e:  # noqa: BLE001
                out[(1, 0)] = _classify(e)
            try:
                w.app.orchestrator.set_invocation_status(y, S.PENDING, rctx("rB"))
                out[(1, 1)] = "ok"
            except BaseException as e:  # noqa: BLE001
                out[(1, 1)] = _classify(e)

        run = w.sched.run([t0, t1], chooser)
        z = made.get("z")
        final = {"x": w.status(x), "y": w.status(y), "z": w.status(z) if z else None}
        run.meta = (out, final)  # type: ignore[attr-defined]
        return run

    def directed():
        n0 = len(run_one(PrefixChooser([0] * 5000)).choices)
        for k in range(n0 + 1):
            yield run_one(PrefixChooser([0] * k + [1] * 5000))
        n1 = len(run_one(PrefixChooser([1] * 5000)).choices)
        for k in range(0, n1 + 1):
            yield run_one(PrefixChooser([1] * k + [0] * 5000))

    want = {"x": ("running", "rA"), "y": ("pending", "rB")}
    for run in directed():
        total += 1
        ctx.count()
        ctx.distinct((w.kind, "independent-invocations", tuple(run.choices)))
        out, final = run.meta  # type: ignore[attr-defined]
        rep = {"scenario": "independent-invocations", "backend": w.kind, "schedule": run.choices, "outcomes": sorted(out.items()), "final": final}
        if any(e is not None for e in run.errors) or run.aborted:
            ctx.report(f"lin-error[{w.kind}]:independent-invocations", f"[{w.kind}] thread raised {run.errors} / aborted={run.aborted}", rep)
            continue
        bad = [k for k in ("x", "y") if final[k] != want[k]] + ([] if final["z"] and final["z"][0] == "registered" else ["z"]) + [str(k) for k, v in sorted(out.items()) if v != "ok"]
        if bad:
            ctx.report(f"requests-on-different-invocations-interfere[{w.kind}]",
                       f"[{w.kind}] runner rA moves X to PENDING and RUNNING while a client registers Z and runner rB claims Y: outcomes {sorted(out.items())}, final records "
                       f"X={final['x']} Y={final['y']} Z={final['z']} (expected X running/rA, Y pending/rB, Z registered; schedule {run.choices[:40]})", rep)
    ctx.notes[f"independent_invocation_schedules_{w.kind}"] = total


def claims_and_a_bystander(ctx: Ctx, w: World) -> None:
    """two runners claim X while a third thread completes a transition of ANOTHER invocation Y: the first claimer is paused after each of
    its scheduling steps, the second then runs until it has to wait, the bystander runs to completion (whatever it signals reaches the
    waiting claimer), then the rest.  Exactly one claim of X may succeed; Y's transition takes effect."""
    from pynenc.invocation.status import InvocationStatus as S

    total = 0

    def run_one(k: int):
        w.reset()
        x, y = w.task(1).invocation_id, w.task(2).invocation_id
        out: dict = {}

        def claim(t: int, rid: str) -> Callable[[], None]:
            def f() -> None:
                try:
                    w.app.orchestrator.set_invocation_status(x, S.PENDING, rctx(rid))
                    out[t] = "ok"
                except BaseException as e:  # noqa: BLE001
                    out[t] = _classify(e)
            return f

        def bystander() -> None:
            for st in (S.PENDING, S.RUNNING):
                try:
                    w.app.orchestrator.set_invocation_status(y, st, rctx("rC"))
                    out[(2, st.value)] = "ok"
                except BaseException as e:  # noqa: BLE001
                    out[(2, st.value)] = _classify(e)

        def chooser(step: int, runnable: list[int], current: int | None) -> int:
            if step < k and 0 in runnable:
                return 0
            for c in (1, 2, 0):
                if c in runnable:
                    return c
            return runnable[0]

        run = w.sched.run([claim(0, "rA"), claim(1, "rB"), bystander], chooser)
        run.meta = (out, w.status(x), w.status(y), w.history(x))  # type: ignore[attr-defined]
        return run

    n0 = len([c for c in run_one(10 ** 6).choices if c == 0])
    for k in range(n0 + 1):
        run = run_one(k)
        total += 1
        ctx.count()
        ctx.distinct((w.kind, "claims-and-a-bystander", k))
        out, fx, fy, hx = run.meta  # type: ignore[attr-defined]
        rep = {"scenario": "claims-and-a-bystander", "backend": w.kind, "pause_first_claimer_after": k, "schedule": run.choices, "outcomes": sorted(map(str, out.items())), "x": fx, "y": fy}
        if any(e is not None for e in run.errors) or run.aborted:
            ctx.report(f"lin-error[{w.kind}]:claims-and-a-bystander", f"[{w.kind}] thread raised {run.errors} / aborted={run.aborted}", rep)
            continue
        winners = [r for t, r in ((0, "rA"), (1, "rB")) if out.get(t) == "ok"]
        npend = sum(1 for s, _ in hx if s == "pending")
        if len(winners) != 1 or fx != ("pending", winners[0]) or npend != 1:
            ctx.report(f"double-claim-with-bystander[{w.kind}]",
                       f"[{w.kind}] runners rA and rB claim X while a third thread moves another invocation Y to PENDING and RUNNING (rA paused after {k} of its steps, rB then run until it "
                       f"waits, the third thread to completion): claims accepted for {winners}, X's record {fx}, history {hx} - exactly one claim may succeed", rep)
        if fy != ("running", "rC"):
            ctx.report(f"bystander-transition-lost[{w.kind}]", f"[{w.kind}] Y ended {fy} instead of running/rC (outcomes {sorted(map(str, out.items()))})", rep)
    ctx.notes[f"bystander_schedules_{w.kind}"] = total


# ------------------------------------------------------------------------------------------------
# (b),(c) concurrent pollers / workers
# ------------------------------------------------------------------------------------------------

def poll_scenarios(quick: bool) -> list[dict]:
    sc = [
        dict(name="one-msg-two-pollers", n=1, dup=[], blocking=[], runners=2, want=1, run=False),
        dict(name="dup-in-queue", n=1, dup=[0], blocking=[], runners=2, want=2, run=False),
        dict(name="blocking-entry", n=2, dup=[], blocking=[1], runners=2, want=2, run=False),
        dict(name="claim-and-run", n=1, dup=[0], blocking=[], runners=2, want=1, run=True),
    ]
    if not quick:
        sc += [
            dict(name="three-pollers", n=2, dup=[0, 1], blocking=[], runners=3, want=2, run=False),
            dict(name="claim-and-run-3", n=2, dup=[0], blocking=[1], runners=3, want=2, run=True),
            dict(name="four-pollers", n=3, dup=[0], blocking=[2], runners=4, want=1, run=True),
        ]
    return sc


def run_polls(ctx: Ctx, w: World) -> None:
    from pynenc.invocation.status import InvocationStatus as S

    total = 0
    for sc in poll_scenarios(ctx.quick):
        def run_one(chooser, sc=sc):
            w.reset()
            t = w.body_task if sc["run"] else w.task
            invs = [t(k).invocation_id for k in range(sc["n"])]
            for d in sc["dup"]:
                w.app.broker.route_invocation(invs[d])
            if sc["blocking"]:
                parent = w.task(99).invocation_id
                inject_status(w.app, parent, S.RUNNING, "rParent", 0)
                w.app.orchestrator.waiting_for_results(parent, [invs[b] for b in sc["blocking"]])
            got: dict[int, list[str]] = {r: [] for r in range(sc["runners"])}

            def body(r: int) -> Callable[[], None]:
                def f() -> None:
                    c = rctx(f"r{r}")
                    claimed = list(w.app.orchestrator.get_invocations_to_run(sc["want"], c))
                    got[r] = [i.invocation_id for i in claimed]
                    if sc["run"]:
                        for inv in claimed:
                            inv.run(c)
                return f

            run = w.sched.run([body(r) for r in range(sc["runners"])], chooser)
            run.meta = (invs, got, {i: w.status(i) for i in invs}, {i: w.history(i) for i in invs}, list(BODY_LOG))  # type: ignore[attr-defined]
            return run

        if sc["runners"] == 2:
            runs = explore(run_one, 2 if ctx.quick else 3, 120 if ctx.quick else 1200)
        else:
            runs = (run_one(RandomChooser(ctx.rng, 0.7)) for _ in range(60 if ctx.quick else 400))
        for run in runs:
            total += 1
            ctx.count()
            ctx.distinct((w.kind, sc["name"], tuple(run.choices)))
            invs, got, recs, hists, blog = run.meta  # type: ignore[attr-defined]
            rep = {"scenario": sc["name"], "backend": w.kind, "schedule": run.choices, "got": got, "records": recs, "histories": hists}
            if run.aborted:
                ctx.report(f"poll-stuck[{w.kind}]:{sc['name']}", f"[{w.kind}] scenario {sc['name']} did not finish (schedule {run.choices[:60]})", rep)
                continue
            for r, e in enumerate(run.errors):
                if e is not None:
                    ctx.report(f"poll-raised[{w.kind}]:{sc['name']}:{type(e).__name__}",
                               f"[{w.kind}] poller/worker r{r} raised {type(e).__name__}: {str(e)[:160]} (schedule {run.choices})", rep)
            for i in invs:
                holders = [r for r, ids in got.items() for x in ids if x == i]
                npend = sum(1 for s, _ in hists[i] if s == "pending")
                releases = sum(1 for s, _ in hists[i] if s in ("rerouted", "retry", "registered")) - 1
                if len(holders) > 1 + max(releases, 0):
                    ctx.report(f"double-claim[{w.kind}]",
                               f"[{w.kind}] invocation handed to runners {['r%d' % h for h in holders]} with {max(releases, 0)} release(s) in between (scenario {sc['name']}, schedule {run.choices}); history {hists[i]}", rep)
                if npend > 1 + max(releases, 0):
                    ctx.report(f"double-pending-history[{w.kind}]", f"[{w.kind}] {npend} PENDING history entries with {max(releases, 0)} release(s): {hists[i]} (schedule {run.choices})", rep)
                if not sc["run"] and len(holders) == 1 and recs[i] != ("pending", f"r{holders[0]}"):
                    ctx.report(f"claim-owner[{w.kind}]", f"[{w.kind}] invocation handed to r{holders[0]} but its record is {recs[i]}", rep)
                if not sc["run"] and not holders and recs[i][0] == "pending":
                    ctx.report(f"claimed-not-handed[{w.kind}]", f"[{w.kind}] record {recs[i]} but no poller received the invocation (history {hists[i]})", rep)
            if sc["run"]:
                # body executions of one invocation never overlap (no kill / recovery in these scenarios)
                inside: dict[str, int] = {}
                for ev, i, who in blog:
                    if ev == "enter":
                        inside[i] = inside.get(i, 0) + 1
                        if inside[i] > 1:
                            ctx.report(f"double-body[{w.kind}]", f"[{w.kind}] task body of one invocation executing in two workers at once (log {blog}, schedule {run.choices})", rep)
                    else:
                        inside[i] = inside.get(i, 0) - 1
                for i in invs:
                    nrun = sum(1 for s, _ in hists[i] if s == "running")
                    nent = sum(1 for ev, j, _ in blog if ev == "enter" and j == i)
                    if nent != nrun:
                        ctx.report(f"body-vs-running[{w.kind}]", f"[{w.kind}] body entered {nent}x but {nrun} RUNNING transitions recorded: {hists[i]}", rep)
        ctx.sample({"scenario": sc["name"], "backend": w.kind, "schedule": run.choices[:40], "handed": got})
    ctx.notes[f"poll_schedules_{w.kind}"] = total
    ctx.obligation(f"scheduled pollers/workers on {w.kind}: every explored interleaving respects single ownership ({total} schedules)",
                   not any(v["signature"].split("[")[0] in ("double-claim", "double-pending-history", "claim-owner", "double-body", "poll-raised", "poll-stuck")
                           for v in ctx.violations), "see violations")


def reregistration(ctx: Ctx, w: World) -> None:
    """registration is no way round the claim: registering an invocation again (a client re-sending its batch) while a runner
    holds it leaves status, owner and retry count as they are (`registered_only_by_registration`: REGISTERED is entered once)"""
    from pynenc.invocation.status import InvocationStatus as S

    for st, owner in ((S.PENDING, "rA"), (S.RUNNING, "rA"), (S.RETRY, None), (S.REROUTED, None), (S.SUCCESS, None), (S.KILLED, "rA"), (S.PAUSED, "rA")):
        w.reset()
        inv = w.task(1)
        inject_status(w.app, inv.invocation_id, st, owner, 0)
        before = w.status(inv.invocation_id)
        retries = w.app.orchestrator.get_invocation_retries(inv.invocation_id)
        try:
            w.app.orchestrator.register_new_invocations([inv])
            err = None
        except BaseException as e:  # noqa: BLE001
            err = type(e).__name__
        after = w.status(inv.invocation_id)
        ctx.count()
        ctx.distinct((w.kind, "reregistration", st.value))
        if after != before or w.app.orchestrator.get_invocation_retries(inv.invocation_id) != retries:
            ctx.report(f"reregistration-resets-held-invocation[{w.kind}]", f"[{w.kind}] register_new_invocations of an invocation that is {before[0]} under {before[1]} leaves it {after[0]} under {after[1]}"
                                                                       f"{' (raised ' + err + ')' if err else ''}: registration took it away from its holder", {"scenario": "reregistration", "backend": w.kind, "status": st.value})


def run(ctx: Ctx) -> None:
    def gen() -> dict[str, str]:
        from harness.translate import exclusion

        g = tr.gen()
        g.update(exclusion.gen())
        return g

    lean_stage(ctx, gen, THEOREMS)
    ctx.cov["rule"] = ("schedules of 2 threads enumerated depth-first with a pre-emption bound (2 quick / 3 thorough), 3-4 threads with seeded "
                       "random priorities; yield points: every SQL statement (SQLite) / every source line of the orchestrator's transition, lock, "
                       "index and broker pop/push functions (in-memory, cooperative lock shim); distinct = distinct (backend, scenario, schedule)")
    drv = LeanDriver()
    try:
        for kind in ("mem", "sqlite"):
            w = World(ctx, kind)
            try:
                run_lin(ctx, w, drv)
                if kind == "sqlite":
                    claim_with_a_failed_lock(ctx, w, drv)
                independent_invocations(ctx, w)
                claims_and_a_bystander(ctx, w)
                run_polls(ctx, w)
                reregistration(ctx, w)
            finally:
                w.close()
    finally:
        drv.close()
    ctx.assumptions += [
        "atomicity of one bytecode under the GIL, SQLite's own locking and WAL are trusted; the lock emulation yields where the real code would wait",
        "the in-memory yield points are the source lines of MemOrchestrator's transition/lock/index functions, MemBroker pop/push and MemBlockingControl query; code between them is thread-local",
        "system-level theorem environment assumptions: EnvAllowed (owner-authorised exits from RUNNING other than KILLED come only from the executing worker) and NoSelfReclaim",
    ]
    if not ctx.quick:
        thorough_rebuild(ctx)


def replay(data: dict) -> int:
    from harness.common import replay_by_rerun

    return replay_by_rerun("C02", run, data)
