"""C16 — the in-memory and the SQLite backends are observationally equivalent, and both agree with a small executable
reference model.

Lean: Props/C16.lean over Model/OrchQueries.lean, Model/StateBackend.lean, Model/Backends.lean (one abstract state behind
      orchestrator + wait graph + broker + state backend): the family-specific algorithms are equal as functions of that state
      (key-argument AND-match vs one JOIN per pair, Python slice vs LIMIT/OFFSET, per-id status lookup vs IN-filter, the two
      running scans, the two wait-graph reports, both brokers vs the FIFO queue — the last three re-exported from C04/C09/C08),
      contract laws (count = length of the full page, pages are sorted / drawn from the candidates, filter_by_status keeps
      exactly the ids whose status is in the filter, purge resets every component, retries never decrease except by
      registration / clean-up), and `observations_deterministic`: two implementations that each simulate the model give the
      same answers on every operation sequence.
Tie = the property itself: ONE generated operation sequence is executed on the real in-memory stack, the real SQLite stack and
      the compiled Lean driver; the answer of every operation and a full read-out (about 100 public queries over small id / task /
      argument / runner universes) after every operation are diffed three ways.
Oracle (independent of the model): the direct Mem-vs-SQLite diff.  A difference is shrunk greedily to a minimal sequence, named by
      the shape of that sequence (ids abstracted to known / unknown) and reported with the sequence as replay.  The diff against the
      Lean driver is the correspondence obligation ("both agree with the reference model"); a sequence on which both backends
      agree with each other but not with the model is reported as a failing input too.
Sequences: the corpus of minimised past failures (harness/c16_corpus.json) first; exhaustive enumeration to depth 3 (quick) /
      4 (thorough) over a reduced alphabet from the empty state and to depth 2 / 3 from a busy state; seeded random sequences —
      "tame" (only operations no divergence is known for, so that long runs stay comparable, up to 300 operations) and "wild"
      (everything, incl. unknown ids, re-registration, raw release, negative limits).
"""
from __future__ import annotations

import hashlib
import json
import os
import random
import shutil
import tempfile
import time
from concurrent.futures import ProcessPoolExecutor, as_completed
from pathlib import Path
from typing import Any

from harness.common import Ctx, lean_stage, thorough_rebuild
from harness.translate import status as tr

THEOREMS = [
    "mem_and_match_eq_sql_joins", "existingMem_eq_existing", "page_mem_eq_sql", "page_all_integers_agree", "page_negative_diverged_before_repair", "page_is_sorted_slice_of_candidates",
    "count_eq_length_all", "filter_by_status_spec", "mem_filter_by_status_eq_sql", "history_mem_eq_sql_of_distinct_instants",
    "history_same_instant_diverges", "purge_resets_every_component", "purged_answers_like_fresh", "retries_monotone", "auto_purge_spec",
    "family_algorithms_agree", "observations_deterministic",
]

CORPUS = Path(__file__).resolve().parent.parent / "c16_corpus.json"

BUSY = [["call", "tA", "a", "d", None], ["call", "tB", "a", "x", "i0"], ["set", "i0", "pending", "rA"], ["set", "i0", "running", "rA"],
        ["hb", ["rA"], True], ["wait", "i0", ["i1"]]]

E_EMPTY = [
    ["call", "tA", "a", "d", None], ["call", "tB", "a", "x", "i0"], ["set", "i0", "pending", "rA"], ["set", "i0", "running", "rA"],
    ["set", "i0", "success", "rA"], ["hb", ["rA"], True], ["wait", "i0", ["i1"]], ["retrieve"],
    ["purge", "orch"], ["incr", "i0"], ["batch", "tA", [["a", "d"], ["b", "x"]]], ["purge", "sb"],
]
E_BUSY = [
    ["set", "i0", "success", "rA"], ["set", "i1", "pending", "rB"], ["release", "i1"], ["wait", "i1", ["i0"]], ["incr", "i0"],
    ["hb", ["rB"], False], ["svc", "rA"], ["retrieve"], ["adv", "dead", 0], ["adv", "purge", 0], ["apurge"], ["purge", "sb"],
    ["set", "i0", "retry", "rA"], ["set", "i0", "running_recovery", "rB"], ["purge", "orch"], ["result", "i0", "v1"],
    ["batch", "tB", [["a", "d"], ["a", "d"]]], ["set", "i1", "concurrency_controlled_final", "rB"], ["t.cond", "c3"], ["t.cron", "c3", None],
]


def _life(i: str, r: str = "rA", end: str = "success") -> list[list]:
    return [["set", i, "pending", r], ["set", i, "running", r], ["set", i, end, r]]


# hand-written walks through every operation family (lifecycle with waits and auto-purge, every clock boundary, retries,
# state-backend data, pagination ties, trigger bookkeeping, queue, recovery statuses, purge and re-use): no divergence expected
SCENARIOS: list[tuple[str, list[list]]] = [
    ("wait, finish, auto-purge", [["call", "tA", "a", "d", None], ["call", "tB", "a", "x", "i0"], ["call", "tB", "b", "x", "i1"], ["wait", "i0", ["i1", "i2"]],
                                  *_life("i1", "rB"), ["adv", "purge", -2], ["apurge"], ["apurge"], ["apurge"], ["wait", "i2", ["i0"]], *_life("i2", "rB", "failed"),
                                  ["adv", "purge", 0], ["apurge"], ["set", "i0", "pending", "rA"]]),
    ("heartbeat boundaries", [["hb", ["rA"], True], ["adv", "us", 5], ["hb", ["rB", "rZ"], False], ["svc", "rA"], ["call", "tA", "a", "d", None],
                              ["set", "i0", "pending", "rA"], ["set", "i0", "running", "rA"], ["adv", "dead", -2], ["retrieve"], ["adv", "us", 0], ["retrieve"],
                              ["adv", "us", 0], ["retrieve"], ["hb", ["rA"], False], ["adv", "dead", 0], ["retrieve"], ["adv", "dead", 1], ["retrieve"]]),
    ("pending boundaries", [["call", "tA", "a", "d", None], ["call", "tA", "b", "x", None], ["set", "i0", "pending", "rA"], ["adv", "us", 7], ["set", "i1", "pending", "rB"],
                            ["adv", "pend", -2], ["retrieve"], ["adv", "us", 0], ["retrieve"], ["adv", "us", 0], ["retrieve"], ["adv", "pend", 0], ["retrieve"],
                            ["set", "i0", "pending_recovery", "rZ"], ["set", "i0", "rerouted", "rZ"], ["set", "i1", "running", "rB"], ["set", "i1", "running_recovery", "rZ"]]),
    ("retries", [["call", "tA", "a", "d", None], ["incr", "i0"], ["set", "i0", "pending", "rA"], ["set", "i0", "running", "rA"], ["incr", "i0"], ["set", "i0", "retry", "rA"],
                 ["route", "i0"], ["set", "i0", "pending", "rB"], ["set", "i0", "running", "rB"], ["set", "i0", "failed", "rB"], ["incr", "i0"], ["purge", "orch"], ["retrieve"]]),
    ("state-backend data", [["call", "tA", "a", "d", None], ["call", "tB", "a", "x", "i0"], ["result", "i0", "v1"], ["result", "i0", "v2"], ["exc", "i1", "v1"], ["exc", "i0", "v2"],
                            ["hist", "i0", "running", "rA", "rB"], ["hist", "i1", "paused", None, "rA"], ["wf", "w1", "k1", "u"], ["wf", "w1", "k1", "v"], ["wf", "w2", "k1", "u"], ["x.wf", "w1", "k1", None], ["x.wf", "w1", "k2", 0], ["x.wf", "w1", "k2", None],
                            ["rctx", "rB", "rP"], ["rctx", "rA", None], ["rctx", "rB", None], ["purge", "sb"], ["rctx", "rA", "rP"], ["result", "i1", "v1"],
                            ["call", "tA", "b", "d", "i0"], ["set", "i0", "pending", "rA"]]),
    ("pagination ties", [["batch", "tA", [["a", "d"], ["b", "x"]]], ["batch", "tB", [["a", "d"], ["a", "d"]]], ["hold"], ["call", "tA", "a", "x", None],
                         ["set", "i1", "pending", "rA"], ["set", "i3", "pending", "rA"], ["set", "i1", "running", "rA"], ["set", "i2", "concurrency_controlled_final", "rB"],
                         ["set", "i0", "concurrency_controlled", "rB"], ["set", "i0", "rerouted", "rB"]]),
    ("trigger bookkeeping", [["t.cond", "c1"], ["t.cond", "c3"], ["t.cond", "c1"], ["t.trg", "t1", ["c1"]], ["t.trg", "t2", ["c1", "c2"]], ["t.valid", [["c1", "e1"]]],
                             ["t.valids", [["c1", "e2"], ["c2", "e1"]]], ["t.valid", [["c1", "e1"]]], ["t.clear", [["c1", "e1"], ["c2", "e9"]]], ["t.claim", "run1", 1],
                             ["adv", "claim", -2], ["t.claim", "run1", 1], ["adv", "us", 0], ["t.claim", "run1", 60], ["t.claim", "run2", 60], ["t.cron", "c3", None],
                             ["t.cron", "c3", "cur"], ["t.cron", "c3", "stale"], ["t.cron", "c3", None], ["t.trg", "t3", ["c1"]], ["t.clean", "tA"], ["t.trg", "t1", ["c1"]], ["t.clean", "tB"], ["t.trg", "t3", ["c1"]], ["t.clean", "tA"], ["purge", "trg"], ["t.cond", "c3"]]),
    ("queue", [["call", "tA", "a", "d", None], ["route", "i0"], ["route", "g0"], ["call", "tB", "a", "x", None], ["retrieve"], ["retrieve"], ["route", "i1"], ["retrieve"], ["retrieve"],
               ["retrieve"], ["retrieve"], ["batch", "tB", [["a", "d"], ["b", "d"]]], ["purge", "broker"], ["retrieve"], ["route", "i2"], ["retrieve"]]),
    ("ownership and refused requests", [["call", "tA", "a", "d", None], ["set", "i0", "running", "rA"], ["set", "i0", "pending", "rA"], ["set", "i0", "running", "rB"],
                                        ["set", "i0", "killed", "rB"], ["set", "i0", "killed", "rA"], ["set", "i0", "rerouted", "rB"], ["set", "i0", "pending", "rB"],
                                        ["set", "i0", "running", "rB"], ["set", "i0", "paused", "rB"], ["set", "i0", "resumed", "rA"], ["set", "i0", "resumed", "rB"],
                                        ["set", "i0", "success", "rB"], ["set", "i0", "failed", "rB"], ["set", "g0", "pending", "rA"]]),
    ("late waiter on a finished invocation, then auto-purge",
     [["call", "tA", "a", "d", None], ["call", "tB", "a", "x", None], ["call", "tB", "b", "x", None], *_life("i0", "rA"), ["wait", "i1", ["i0"]], ["wait", "i2", ["i1"]],
      ["adv", "purge", -2], ["apurge"], ["adv", "purge", 0], ["apurge"], ["wait", "i2", ["i1"]], ["set", "i1", "pending", "rB"]]),
    ("auto-purge mark on an awaited, unfinished invocation",
     [["call", "tA", "a", "d", None], ["call", "tB", "a", "x", None], ["call", "tB", "b", "x", None], ["wait", "i1", ["i0"]], ["wait", "i2", ["i1"]], ["pset", "i0"],
      ["adv", "purge", 0], ["apurge"], ["set", "i1", "pending", "rB"], ["set", "i1", "running", "rB"]]),
    ("a late history writer, then the time-range scans",
     [["call", "tA", "a", "d", None], ["call", "tB", "a", "x", None], ["histhold", "i0", "pending", None, "rA"], ["hist", "i0", "running", None, "rA"],
      ["hist", "i1", "pending", None, "rB"], ["histflush"], ["hist", "i0", "success", None, "rA"], ["histhold", "i1", "running", None, "rB"], ["histflush"]]),
    ("service windows survive heartbeats",
     [["hb", ["rA"], True], ["svc", "rA"], ["adv", "us", 5], ["hb", ["rA"], True], ["hb", ["rB"], False], ["svc", "rB"], ["adv", "us", 3], ["hb", ["rA", "rB"], True],
      ["svc", "rA"], ["hb", ["rB"], True], ["hb", ["rA"], False]]),
    ("a claim expires, is taken over, and the NEW lifetime holds",
     [["t.claim", "run1", 1], ["t.claim", "run1", 1], ["adv", "claim", 0], ["adv", "us", 1], ["t.claim", "run1", 1], ["t.claim", "run1", 1], ["t.claim", "run2", 60],
      ["adv", "us", 250_000], ["t.claim", "run1", 1], ["adv", "claim", -1], ["t.claim", "run1", 1], ["adv", "claim", 0], ["adv", "us", 1], ["t.claim", "run1", 60], ["t.claim", "run1", 1],
      ["t.claim", "run2", 60], ["adv", "us", 999], ["t.claim", "run1", 1]]),
    ("cron compare-and-swap with the current value written in another time zone",
     [["t.cond", "c1"], ["t.cron", "c1", None], ["adv", "us", 60_000_000], ["t.cron", "c1", "cur-tz"], ["adv", "us", 60_000_000], ["t.cron", "c1", "stale"],
      ["t.cron", "c1", "cur"], ["adv", "us", 5], ["t.cron", "c1", "cur-tz"]]),
    ("purge and re-use", [*BUSY, ["result", "i0", "v1"], ["cds.put", "p", True], ["cds.put", "q", False], ["purge", "app"], ["call", "tA", "a", "d", None], ["hb", ["rA"], False],
                          ["purge", "cds"], ["cds.put", "p", True], ["purge", "orch"], ["call", "tB", "b", "x", None], ["set", "i3", "pending", "rA"]]),
]

_RIG = None
_BASE = None


def _rig():
    global _RIG
    if _RIG is None:
        from harness.c16lib import Rig
        from harness.common import quiet_pynenc

        quiet_pynenc()
        d = tempfile.mkdtemp(prefix=f"w{os.getpid()}-", dir=_BASE)
        _RIG = Rig(d, tag=str(os.getpid()))
    return _RIG


def _init(base: str) -> None:
    global _BASE
    _BASE = base


class Collector:
    def __init__(self) -> None:
        self.findings: list[dict] = []
        self.minimal: list[tuple] = []   # (seq, divergence, signature)
        self.stats = {"sequences": 0, "diverging_sequences": 0, "subsumed": 0, "shrink_trials": 0, "nodes": 0, "pruned_subtrees": 0}
        self.distinct: set[str] = set()
        self.samples: list[Any] = []

    def diverged(self, rig, seq: list[list], d, shrink_budget: int) -> None:
        from harness.c16lib import is_subsequence, same_class, shrink, signature

        self.stats["diverging_sequences"] += 1
        for m, dm, sig in self.minimal:
            if same_class(d, dm) and is_subsequence(m, seq[: d.step + 1]):
                self.stats["subsumed"] += 1
                for f in self.findings:
                    if f["signature"] == sig:
                        f["seen"] += 1
                return
        m, dm, trials = shrink(rig, seq, d, budget=shrink_budget)
        self.stats["shrink_trials"] += trials
        sig = signature(m, dm)
        self.minimal.append((m, dm, sig))
        for f in self.findings:
            if f["signature"] == sig:
                f["seen"] += 1
                return
        self.findings.append({"signature": sig, "kind": dm.kind, "minimal": m, "divergence": dm.as_dict(), "found_in_length": d.step + 1,
                              "shrink_trials": trials, "seen": 1})

    def result(self, rig) -> dict:
        return {"findings": self.findings, "stats": {**self.stats, **rig.stats}, "distinct": sorted(self.distinct), "samples": self.samples[:3]}


def _note(col: Collector, op: list, shadow: dict, nlabels: int) -> None:
    from harness.c16lib import arg_class, out_class

    if shadow:
        col.distinct.add(f"{op[0]}({arg_class(op, nlabels)})->{out_class(shadow['out'])}")
        if shadow.get("status"):
            col.distinct.add("st:" + hashlib.sha1(json.dumps(sorted((k, v.split(" ")[0]) for k, v in shadow["status"].items())).encode()).hexdigest()[:8])


def _run_seq(rig, col: Collector, seq: list[list], shrink_budget: int, readout: str = "every", skip: int = 0) -> bool:
    """returns True when the sequence ran to the end without any divergence"""
    rig.begin()
    col.stats["sequences"] += 1
    last = len(seq) - 1
    for n, op in enumerate(seq):
        do_read = (readout == "every" and (n >= skip or n == last)) or (readout == "last" and n == last)
        divs, shadow = rig.step(op, do_read)
        _note(col, op, shadow, len(shadow.get("labels", [])) if shadow else 0)
        if divs:
            if readout != "every" and n > 0:
                # read-outs of the earlier steps were skipped (their prefixes are other nodes of the enumeration): find the
                # FIRST step at which the difference shows, so that the operation that causes it is the last one
                divs2, _ = rig.run(seq[: n + 1], readout="every", stop_at_first=True)
                if divs2:
                    divs = divs2
            col.diverged(rig, seq[: divs[0].step + 1], divs[0], shrink_budget)
            return False
    return True


def _worker(task: dict) -> dict:
    from harness.c16lib import Gen

    rig = _rig()
    cpu0 = time.process_time()
    wall0 = time.time()
    rig.stats = {"ops": 0, "queries": 0, "model_lines": 0, "readouts": 0}
    col = Collector()
    mode = task["mode"]
    if mode == "seqs":
        for s in task["seqs"]:
            ok = _run_seq(rig, col, s["seq"], shrink_budget=task.get("shrink", 60))
            col.samples.append({"corpus": s.get("name"), "diverges": not ok})
    elif mode == "exh":
        base, alphabet, depth = task["base"], task["alphabet"], task["depth"]

        def dfs(prefix: list[list]) -> None:
            col.stats["nodes"] += 1
            ok = _run_seq(rig, col, base + prefix, shrink_budget=24, readout="last")
            if not ok:
                col.stats["pruned_subtrees"] += 1
                return
            if len(prefix) < depth:
                for op in alphabet:
                    dfs(prefix + [op])

        dfs(task["prefix"])
    elif mode == "rand":
        rng = random.Random(task["seed"])
        for k in range(task["count"]):
            gen = Gen(rng, wild=task["wild"])
            rig.begin()
            col.stats["sequences"] += 1
            seq: list[list] = []
            executed = 0
            while executed < task["length"]:
                op = gen.next()
                seq.append(op)
                divs, shadow = rig.step(op, True)
                gen.observe(op, shadow)
                gen.now = rig.clock.us
                _note(col, op, shadow, len(gen.labels))
                if shadow:
                    executed += 1
                if divs:
                    col.diverged(rig, seq, divs[0], shrink_budget=task.get("shrink", 150))
                    break
            col.samples.append({"mode": "wild" if task["wild"] else "tame", "operations": executed, "invocations": len(gen.labels),
                                "statuses": sorted({gen.st(i) for i in gen.labels})})
    res = col.result(rig)
    res["stats"]["cpu_s"] = round(time.process_time() - cpu0, 2)
    res["stats"]["task_wall_s"] = round(time.time() - wall0, 2)
    res["stats"]["tasks"] = 1
    return res


# --------------------------------------------------------------------------------------------------------------

def _plan(ctx: Ctx) -> list[dict]:
    quick = ctx.quick
    tasks: list[dict] = []
    corpus = json.loads(CORPUS.read_text())["sequences"] if CORPUS.exists() else []
    for i in range(0, len(corpus), 4):
        tasks.append({"mode": "seqs", "seqs": corpus[i: i + 4], "what": "corpus"})
    for i in range(0, len(SCENARIOS), 2):
        tasks.append({"mode": "seqs", "seqs": [{"name": n, "seq": q} for n, q in SCENARIOS[i: i + 2]], "what": "scenarios"})
    d_empty, d_busy = (3, 2) if quick else (4, 3)
    a_empty = E_EMPTY[:9] if quick else E_EMPTY
    a_busy = E_BUSY[:16] if quick else E_BUSY
    for op in a_empty:
        if quick:
            tasks.append({"mode": "exh", "base": [], "alphabet": a_empty, "prefix": [op], "depth": d_empty, "what": "exhaustive-empty"})
        else:
            for op2 in a_empty:
                tasks.append({"mode": "exh", "base": [], "alphabet": a_empty, "prefix": [op, op2], "depth": d_empty, "what": "exhaustive-empty"})
    if not quick:
        # the length-1 nodes of the split tree
        tasks.append({"mode": "exh", "base": [], "alphabet": a_empty, "prefix": [], "depth": 1, "what": "exhaustive-empty"})
    for op in a_busy:
        tasks.append({"mode": "exh", "base": BUSY, "alphabet": a_busy, "prefix": [op], "depth": d_busy, "what": "exhaustive-busy"})
    n_tame, l_tame, n_wild, l_wild = (20, 100, 24, 60) if quick else (100, 300, 100, 100)
    for k in range(n_tame):
        tasks.append({"mode": "rand", "seed": f"{ctx.seed}:tame:{k}", "wild": False, "length": l_tame if k % 3 else min(300, 2 * l_tame), "count": 1, "what": "random-tame"})
    for k in range(0, n_wild, 2):
        tasks.append({"mode": "rand", "seed": f"{ctx.seed}:wild:{k}", "wild": True, "length": l_wild, "count": 2, "what": "random-wild"})
    return tasks


def run(ctx: Ctx) -> None:
    lean_stage(ctx, tr.gen, THEOREMS)
    ctx.cov["rule"] = ("one operation sequence -> Mem stack, SQLite stack, Lean model; answers of every operation and a full read-out after every "
                       "operation diffed three ways. evaluations = operation answers + read-out answers compared; distinct = distinct "
                       "(operation kind, argument class, answer class) observations + distinct status census of the invocation universe")
    base = tempfile.mkdtemp(prefix="verif-C16-", dir="/dev/shm" if os.access("/dev/shm", os.W_OK) else ctx.tmp)
    tasks = _plan(ctx)
    workers = max(2, min(14, (os.cpu_count() or 4) - 2))
    findings: dict[str, dict] = {}
    per: dict[str, dict] = {}
    t0 = time.time()
    import multiprocessing as mp

    try:
        with ProcessPoolExecutor(max_workers=workers, mp_context=mp.get_context("spawn"), initializer=_init, initargs=(base,)) as ex:
            futs = {ex.submit(_worker, t): t for t in tasks}
            for fut in as_completed(futs):
                t = futs[fut]
                res = fut.result()
                agg = per.setdefault(t["what"], {})
                for k, v in res["stats"].items():
                    agg[k] = agg.get(k, 0) + v
                for d in res["distinct"]:
                    ctx.distinct(d)
                for s in res["samples"]:
                    ctx.sample(s)
                ctx.count(res["stats"]["ops"] + res["stats"]["queries"] // 2)
                for f in res["findings"]:
                    f["found_by"] = t["what"]
                    if f["signature"] in findings:
                        findings[f["signature"]]["seen"] += f["seen"]
                    else:
                        findings[f["signature"]] = f
    finally:
        shutil.rmtree(base, ignore_errors=True)
    ctx.notes["phases"] = per
    ctx.notes["workers"] = workers
    ctx.notes["dynamic_wall_s"] = round(time.time() - t0, 1)
    n_backend = n_model = n_neither = 0
    for sig, f in sorted(findings.items()):
        d = f["divergence"]
        seq_txt = " · ".join(_fmt(o) for o in f["minimal"])
        follows = ""
        if f["kind"] == "backends" and d["model_for_mem"] is not None:
            am, as_ = d["mem"] == d["model_for_mem"], d["sqlite"] == d["model_for_sqlite"]
            follows = " (reference model: " + ("agrees with mem" if am else "agrees with sqlite" if as_ else "agrees with NEITHER") + ")"
            if not am and not as_ and sig not in {k["signature"] for k in ctx._known}:
                n_neither += 1
        if f["kind"] == "backends":
            n_backend += 1
            what = f"Mem and SQLite differ after [{seq_txt}] at {d['observation']}: mem={d['mem']!r} sqlite={d['sqlite']!r}{follows}"
        else:
            n_model += 1
            what = f"both backends answer {d['mem']!r} but the reference model {d['model_for_mem']!r}/{d['model_for_sqlite']!r} after [{seq_txt}] at {d['observation']}"
        ctx.report(sig, what, {"sequence": f["minimal"], "divergence": d, "found_by": f["found_by"], "found_in_length": f["found_in_length"], "seen": f["seen"]})
    ctx.notes["signatures"] = sorted(findings)
    known_sigs = {k["signature"] for k in ctx._known}
    unknown_model = [s for s, f in findings.items() if f["kind"] == "model" and s not in known_sigs]
    ctx.obligation("correspondence: every operation answer and read-out of the Mem stack and of the SQLite stack equals the Lean reference model "
                   "(outside the listed backend divergences)", not unknown_model and n_neither == 0,
                   f"{len(unknown_model)} model-only disagreements, {n_neither} divergences where the model agrees with neither side: {unknown_model[:3]}")
    ctx.obligation("corpus of minimised past failures replayed first", CORPUS.exists(), str(CORPUS))
    ctx.assumptions += [
        "a writer blocked on SQLite's lock inside one thread can never be released: the harness shortens pynenc's 3 minutes of busy waiting "
        "(busy_timeout 40 ms, retry sleeps 2 ms); the outcome (OperationalError: database is locked) is the one the unmodified code reaches",
        "history writer threads are joined after every operation (the sequential semantics the property quantifies over)",
        "timestamps are integer µs of the controlled clock; retention / dead-after / max-pending are whole seconds so every boundary comparison is exact in binary64",
        "trigger store and client data store are compared Mem-vs-SQLite directly (their Lean models belong to C13 / C15)",
        "SQLite scratch databases live in /dev/shm when available (fsync cost), removed afterwards",
    ]
    if not ctx.quick:
        thorough_rebuild(ctx)


def _fmt(op: list) -> str:
    return op[0] + "(" + ",".join(json.dumps(x, separators=(",", ":")) if not isinstance(x, str) else x for x in op[1:]) + ")"


def replay(data: dict) -> int:
    """re-execute a recorded sequence on the real stacks and the model; exit 1 when it still diverges"""
    from harness.c16lib import Rig

    rep = data.get("replay", data)
    seq = rep["sequence"]
    base = tempfile.mkdtemp(prefix="verif-C16-replay-")
    rig = Rig(base, tag="replay")
    try:
        divs, _ = rig.run(seq, readout="every", stop_at_first=True)
    finally:
        rig.close()
        shutil.rmtree(base, ignore_errors=True)
    print("sequence:", " · ".join(_fmt(o) for o in seq))
    if not divs:
        print("no divergence any more")
        return 0
    for d in divs[:6]:
        print(json.dumps(d.as_dict()))
    return 1
