"""C04 — recovery re-queues stuck PENDING/RUNNING work and never steals live work.

Lean: Props/C04.lean (scan characterisations with exact boundaries, mem-scan = sql-scan, stale scan refused, recovered
work claimable, a run interleaved with any environment re-queues everything it took).
Tie:  both real orchestrators under a virtual clock: seeded histories of registrations, claims, starts, finishes,
      own and parent-reported heartbeats and clock advances that land exactly on / 1 µs before / 1 µs after every
      cut-off, for a grid of (max_pending_seconds, runner_considered_dead_after_minutes); after every step both scans
      are compared with the Lean driver (`o.pscan`, `o.rscan.mem` for Mem, `o.rscan.sql` for SQLite); the real core
      tasks `recover_pending_invocations` / `recover_running_invocations` are run in-process, plain and with an owner
      that moves its invocation on between scan and transition, and the resulting statuses and queue are compared
      with `o.recover` (Model/Recovery.lean).
Oracle (independent of the model): a Python shadow of records and heartbeats computes which invocations are stuck;
      scans must return exactly those; after a recovery run everything switched to *_RECOVERY must be REROUTED,
      un-owned and queued, and live work untouched.
"""
from __future__ import annotations

import time as _time

from collections import Counter
from typing import Any

from harness import tasks as T
from harness.apps import VirtualClock, flush, make_app, rctx, ts_us
from harness.common import Ctx, LeanDriver, lean_stage, thorough_rebuild, tok
from harness.translate import programs as trp
from harness.translate import status as tr

THEOREMS = [
    "pendingScan_spec", "pendingScan_never_fresh", "runningScan_spec", "runningScan_never_live", "runningScanMem_eq_Sql",
    "stale_scan_refused", "recovered_can_complete", "recovery_run_requeues_all_taken", "take_only_scanned",
    "live_runner_heartbeats_every_check",
]

RUNNERS = ["rA", "rB", "wA1", "wA2"]  # wA1/wA2 are child workers whose beats are reported by their parent rA


def ids_line(xs) -> str:
    xs = sorted(xs)
    return "[]" if not xs else " ".join(tok(x) for x in xs)


class Back:
    def __init__(self, ctx: Ctx, kind: str, mp: float, dead_min: float, tag: str):
        self.kind = kind
        self.app = make_app(kind, ctx.tmp, app_id=f"c04{kind}{tag}", max_pending_seconds=mp, runner_considered_dead_after_minutes=dead_min)
        self.task = self.app.task(T.add)
        self.o = self.app.orchestrator

    def queue(self) -> list[str]:
        b = self.app.broker
        out = []
        while (i := b.retrieve_invocation()) is not None:
            out.append(i)
        for i in out:
            b.route_invocation(i)
        return out

    def rec(self, i: str):
        r = self.o.get_invocation_status_record(i)
        return (r.status.value, r.runner_id, ts_us(r.timestamp))


def run_recovery(app, kind: str, race=None) -> str:
    """Run the real core task in-process.  `race` = (victim id, callable) executed right before the scan yields the victim."""
    from pynenc import context, core_tasks

    context.set_current_app(app)
    context.set_runner_context(app.app_id, rctx("recovery"))
    o = app.orchestrator
    name = "get_pending_invocations_for_recovery" if kind == "pending" else "get_running_invocations_for_recovery"
    orig = getattr(o, name)
    if race is not None:
        def wrapped():
            for i in list(orig()):
                if i == race[0]:
                    race[1]()
                yield i
        setattr(o, name, wrapped)
    fn = core_tasks.recover_pending_invocations if kind == "pending" else core_tasks.recover_running_invocations
    try:
        fn()
        return "done"
    except BaseException as e:  # noqa: BLE001
        return f"raised {type(e).__name__}"
    finally:
        if race is not None:
            delattr(o, name)


def run(ctx: Ctx) -> None:
    from pynenc.invocation.status import InvocationStatus as S

    def gen() -> dict[str, str]:
        g = tr.gen()
        g.update(trp.gen(ctx.tmp))
        return g

    lean_stage(ctx, gen, THEOREMS)
    ctx.cov["rule"] = ("seeded histories (register / claim / start / finish / heartbeat own+parent-reported / clock advance to a cut-off ±1µs / "
                       "scan / recovery run with and without a racing owner) per (backend, max_pending, dead-after) configuration; "
                       "distinct = distinct (backend, config, step kind, scan results) observations")
    drv = LeanDriver()
    clock = VirtualClock(start_us=1_700_000_000_000_000).install()
    grid = [(5.0, 0.5), (0.25, 0.25), (1.0, 1.0)] if ctx.quick else [(5.0, 0.5), (0.25, 0.25), (1.0, 1.0), (30.0, 10.0), (0.000001, 0.5)]
    nsteps = 500 if ctx.quick else 3000
    nd = {"pscan": 0, "rscan": 0, "recover": 0, "state": 0}
    try:
        for gi, (mp, dead_min) in enumerate(grid):
            mp_us = round(mp * 1_000_000)
            to_us = round(dead_min * 60 * 1_000_000)
            for kind in ("mem", "sqlite"):
                b = Back(ctx, kind, mp, dead_min, f"g{gi}")
                drv.ask("o.reset")
                shadow: dict[str, list] = {}  # id -> [status, owner, ts]
                beats: dict[str, int] = {}
                invs: list[str] = []

                def mset(i, st, rid):
                    out = "ok"
                    try:
                        b.o.set_invocation_status(i, st, rctx(rid))
                    except BaseException as e:  # noqa: BLE001
                        out = type(e).__name__
                    m = drv.ask(f"o.set {tok(i)} {st.value} {tok(rid)} {clock.us}")
                    if out == "ok":
                        shadow[i] = [st.value, b.rec(i)[1], clock.us]
                    if (out == "ok") != m.startswith("ok"):
                        nd["state"] += 1
                        ctx.obligation(f"correspondence set_invocation_status[{kind}]", False, f"{st.value} by {rid}: impl {out} model {m}")

                def check_scans(where: str):
                    now = clock.us
                    p_impl = sorted(b.o.get_pending_invocations_for_recovery())
                    r_impl = sorted(b.o.get_running_invocations_for_recovery())
                    p_m = drv.ask(f"o.pscan {now} {mp_us}")
                    r_m = drv.ask(f"o.rscan.{'mem' if kind == 'mem' else 'sql'} {now} {to_us}")
                    ctx.count(2)
                    ctx.distinct((kind, gi, where, tuple(p_impl) and len(p_impl), len(r_impl), now % 7))
                    if ids_line(p_impl) != p_m:
                        nd["pscan"] += 1
                        if nd["pscan"] <= 3:
                            ctx.obligation(f"correspondence pending scan[{kind}]", False, f"impl {p_impl} model {p_m} at {now}")
                    if ids_line(r_impl) != r_m:
                        nd["rscan"] += 1
                        if nd["rscan"] <= 3:
                            ctx.obligation(f"correspondence running scan[{kind}]", False, f"impl {r_impl} model {r_m} at {now}")
                    # oracle from the shadow
                    p_exp = sorted(i for i, (s, o, t) in shadow.items() if s == "pending" and t <= now - mp_us)
                    r_exp = sorted(i for i, (s, o, t) in shadow.items() if s == "running" and o and (o not in beats or beats[o] < now - to_us))
                    for i in set(p_impl) - set(p_exp):
                        s, o, t = shadow[i]
                        ctx.report(f"pending-scan-steals[{kind}]", f"[{kind}] pending recovery selected an invocation that is {s} since {(now - t) / 1e6}s (limit {mp}s)",
                                   {"backend": kind, "max_pending": mp, "age_us": now - t, "status": s})
                    for i in set(p_exp) - set(p_impl):
                        s, o, t = shadow[i]
                        ctx.report(f"pending-scan-misses[{kind}]", f"[{kind}] invocation PENDING for {(now - t) / 1e6}s (limit {mp}s) not selected by the pending scan",
                                   {"backend": kind, "max_pending": mp, "age_us": now - t})
                    for i in set(r_impl) - set(r_exp):
                        s, o, t = shadow[i]
                        ctx.report(f"running-scan-steals[{kind}]", f"[{kind}] running recovery selected an invocation that is {s} under runner {o} whose last heartbeat is {None if o not in beats else (now - beats[o]) / 1e6}s old (timeout {to_us / 1e6}s)",
                                   {"backend": kind, "timeout_us": to_us, "status": s, "beat_age_us": None if o not in beats else now - beats[o]})
                    for i in set(r_exp) - set(r_impl):
                        s, o, t = shadow[i]
                        ctx.report(f"running-scan-misses[{kind}]", f"[{kind}] RUNNING invocation of runner {o} (last heartbeat {None if o not in beats else (now - beats[o]) / 1e6}s ago, timeout {to_us / 1e6}s) not selected",
                                   {"backend": kind, "timeout_us": to_us, "beat_age_us": None if o not in beats else now - beats[o]})
                    return p_impl, r_impl

                def do_recovery(rk: str, with_race: bool):
                    now = clock.us
                    scan = sorted(b.o.get_pending_invocations_for_recovery()) if rk == "pending" else sorted(b.o.get_running_invocations_for_recovery())
                    race = None
                    extra = ""
                    if with_race and scan:
                        victim = ctx.rng.choice(scan)
                        s, o, t = shadow[victim]
                        nxt = S.RUNNING if rk == "pending" else S.SUCCESS

                        def move(victim=victim, o=o, nxt=nxt):
                            b.o.set_invocation_status(victim, nxt, rctx(o))
                            shadow[victim] = [nxt.value, b.rec(victim)[1], clock.us]
                        race = (victim, move)
                        extra = f" {tok(victim)} {nxt.value} {tok(o)}"
                    before_q = b.queue()
                    outcome = run_recovery(b.app, rk, race)
                    flush(b.app)
                    m = drv.ask(f"o.recover {rk} {tok('recovery')} {now} {mp_us if rk == 'pending' else to_us} {clock.us}{extra}")
                    mq = drv.ask("o.queue")
                    after_q = b.queue()
                    pushed = after_q[len(before_q):]
                    ctx.count()
                    ctx.distinct((kind, gi, "recover", rk, with_race, len(scan), len(pushed)))
                    # refresh shadow for scanned ids
                    for i in scan:
                        st, ow, t = b.rec(i)
                        if shadow[i][0] != st:
                            shadow[i] = [st, ow, t]
                    impl_line = f"{'done' if outcome == 'done' else 'aborted'} scan {ids_line(scan)} taken {ids_line(pushed)}"
                    # the re-queue order among recovered ids is unspecified (a Python set): compare as multisets
                    if impl_line != m or after_q[: len(before_q)] != before_q or sorted(_untoks(mq)) != sorted(after_q):
                        nd["recover"] += 1
                        if nd["recover"] <= 3:
                            ctx.obligation(f"correspondence recovery run[{kind}]", False, f"impl {impl_line!r} queue {after_q} / model {m!r} queue {mq}")
                    # oracle
                    if outcome != "done":
                        ctx.report(f"recovery-run-raised[{kind}]:{rk}", f"[{kind}] recover_{rk}_invocations {outcome} (racing owner: {with_race})", {"backend": kind, "kind": rk, "race": with_race})
                    for i in scan:
                        st, ow, _ = b.rec(i)
                        if st in ("pending_recovery", "running_recovery"):
                            ctx.report(f"stranded-in-recovery[{kind}]:{rk}", f"[{kind}] invocation left in {st} and not re-queued after recover_{rk}_invocations (racing owner: {with_race}; scan of {len(scan)})",
                                       {"backend": kind, "kind": rk, "race": with_race, "scan": len(scan)})
                        if st == "rerouted" and (ow is not None or i not in pushed):
                            ctx.report(f"rerouted-not-queued[{kind}]:{rk}", f"[{kind}] recovered invocation is rerouted with owner {ow}, queued: {i in pushed}", {"backend": kind, "kind": rk})
                    if race is not None:
                        st, ow, _ = b.rec(race[0])
                        want = "running" if rk == "pending" else "success"
                        if st != want:
                            ctx.report(f"recovery-stole-live[{kind}]:{rk}", f"[{kind}] invocation whose owner moved it to {want} after the scan is now {st}", {"backend": kind, "kind": rk})

                # ---- the history ---------------------------------------------------------------------
                for step in range(nsteps):
                    clock.advance(ctx.rng.choice([1, 1000, 250_000]))
                    k = ctx.rng.random()
                    if k < 0.18 or not invs:
                        i = b.task(len(invs)).invocation_id
                        invs.append(i)
                        st, ow, t = b.rec(i)
                        shadow[i] = [st, ow, t]
                        drv.ask(f"o.reg {tok(i)} {tok('t')} {tok('c' + str(len(invs)))} {tok(ow)} {t}")
                        drv.ask(f"o.push {tok(i)}")
                    elif k < 0.36:
                        cand = [i for i in invs if shadow[i][0] in ("registered", "rerouted", "retry")]
                        if cand:
                            mset(ctx.rng.choice(cand), S.PENDING, ctx.rng.choice(RUNNERS))
                    elif k < 0.50:
                        cand = [i for i in invs if shadow[i][0] == "pending"]
                        if cand:
                            i = ctx.rng.choice(cand)
                            mset(i, S.RUNNING, shadow[i][1])
                    elif k < 0.56:
                        cand = [i for i in invs if shadow[i][0] == "running"]
                        if cand:
                            i = ctx.rng.choice(cand)
                            mset(i, ctx.rng.choice([S.SUCCESS, S.RETRY, S.FAILED]), shadow[i][1])
                    elif k < 0.72:
                        # heartbeat: a runner for itself, or parent rA on behalf of its children
                        if ctx.rng.random() < 0.5:
                            rs, elig = [ctx.rng.choice(RUNNERS)], ctx.rng.random() < 0.5
                        else:
                            rs, elig = ["wA1", "wA2"][: ctx.rng.randint(1, 2)], False
                        b.o.register_runner_heartbeats(rs, can_run_atomic_service=elig)
                        for r in rs:
                            beats[r] = clock.us
                        drv.ask(f"o.hb {'1' if elig else '0'} {clock.us} " + " ".join(tok(r) for r in rs))
                    elif k < 0.90:
                        # jump exactly onto / next to a cut-off
                        targets = [t + mp_us for (s, o, t) in shadow.values() if s == "pending"] + [bt + to_us for bt in beats.values()]
                        targets = [t for t in targets if t + 1 > clock.us]
                        if targets:
                            tgt = ctx.rng.choice(targets) + ctx.rng.choice([-1, 0, 1])
                            if tgt > clock.us:
                                clock.us = tgt
                        check_scans("boundary")
                    else:
                        do_recovery(ctx.rng.choice(["pending", "running"]), ctx.rng.random() < 0.6)
                    if step % 5 == 0:
                        check_scans("periodic")
                # active runners (order by creation) against the model
                for elig in (None, True, False):
                    impl = [r.runner_id for r in b.o.get_active_runners(elig)]
                    m = drv.ask(f"o.active {clock.us} {to_us} {'-' if elig is None else ('1' if elig else '0')}")
                    ctx.count()
                    # creation ties have unspecified order: compare as sets per creation time
                    if sorted(impl) != sorted(_untoks(m)):
                        ctx.obligation(f"correspondence active runners[{kind}]", False, f"impl {impl} model {m}")
                ctx.sample({"backend": kind, "max_pending_s": mp, "dead_after_min": dead_min, "invocations": len(invs),
                            "final_statuses": sorted({v[0] for v in shadow.values()})})
                flush(b.app)
        for k, v in nd.items():
            ctx.obligation(f"correspondence ({k}) on Mem and SQLite == Lean model", v == 0, f"{v} disagreements")
        live_runner(ctx, clock)
        two_recovery_runs(ctx, clock)
        fault_inside_a_recovery_run(ctx, clock)
        stale_scan_meets_taken(ctx, clock)
        poller_during_recovery(ctx, clock)
        large_backlog(ctx, clock)
    finally:
        clock.uninstall()
        drv.close()
    for kind in ("mem", "sqlite"):
        scan_vs_newcomer(ctx, kind)
    live_runner_real_loop(ctx)
    ctx.assumptions += [
        "timestamps are µs-exact floats under the virtual clock (datetime.timestamp and time() are correctly rounded single divisions)",
        "theorem recovery_run_requeues_all_taken assumes nobody but the recovery run re-routes an invocation that is in a *_RECOVERY status (one run of each recovery task at a time: running_concurrency=TASK)",
    ]
    if not ctx.quick:
        thorough_rebuild(ctx)


def live_runner(ctx: Ctx, clock: VirtualClock) -> None:
    """a live runner checks in for the global services every 30 s (default timeouts); another runner scans / recovers in
    between; the live runner's RUNNING invocation must never be selected, a silent runner's must"""
    from pynenc.invocation.status import InvocationStatus as S

    for kind in ("mem", "sqlite"):
        b = Back(ctx, kind, 5.0, 10.0, "live")
        live, silent = rctx("rLive"), rctx("rSilent")
        i_live, i_silent = b.task(1).invocation_id, b.task(2).invocation_id
        b.o.register_runner_heartbeats(["rSilent"])
        for i, c in ((i_live, live), (i_silent, silent)):
            b.o.set_invocation_status(i, S.PENDING, c)
            b.o.set_invocation_status(i, S.RUNNING, c)
        stolen_at = None
        silent_seen = False
        for tick in range(90 if ctx.quick else 240):          # 45 / 120 simulated minutes
            b.o.should_run_atomic_service(live)               # what the runner loop does on every atomic-service check
            for dt in (1_000_000, 14_000_000, 14_999_999):
                clock.advance(dt)
                sel = set(b.o.get_running_invocations_for_recovery())
                ctx.count()
                if i_live in sel and stolen_at is None:
                    stolen_at = tick * 30 + 1
                silent_seen = silent_seen or i_silent in sel
            clock.advance(1)
        ctx.distinct((kind, "live-runner", stolen_at is None, silent_seen))
        if stolen_at is not None:
            ctx.report(f"live-runner-recovered[{kind}]", f"[{kind}] a runner that checks in for the global services every 30 s had its RUNNING invocation selected by the running-recovery scan after ~{stolen_at} s (timeout 600 s): its own heartbeat is not refreshed",
                       {"backend": kind, "after_s": stolen_at})
        if not silent_seen:
            ctx.report(f"silent-runner-not-recovered[{kind}]", f"[{kind}] a runner silent for 45 min was never selected by the running-recovery scan", {"backend": kind})


def fault_inside_a_recovery_run(ctx: Ctx, clock: VirtualClock) -> None:
    """a storage fault strikes INSIDE a recovery run - the k-th `*_RECOVERY` write raises "database is locked" once.  The run fails;
    the next one is fault-free; a healthy runner drains the queue.  `*_RECOVERY` is a one-way door (no scan looks at those statuses):
    whatever the failed run had already taken must have been re-queued by it; nothing may stay in `*_RECOVERY`."""
    import sqlite3

    from pynenc.invocation.status import InvocationStatus as S

    for kind in ("mem", "sqlite"):
        for rk in ("pending", "running"):
            for k in (1, 3, 5):
                b = Back(ctx, kind, 5.0, 0.5, f"flt{rk}{k}")
                dead = rctx("rDead")
                ids = [b.task(j).invocation_id for j in range(5)]
                for i in ids:
                    b.o.set_invocation_status(i, S.PENDING, dead)
                    if rk == "running":
                        b.o.set_invocation_status(i, S.RUNNING, dead)
                clock.advance(3_600_000_000)
                b.o.register_runner_heartbeats(["recovery", "rB"])
                real = type(b.o)._atomic_status_transition
                seen = {"n": 0, "hit": False}

                def faulty(self, inv_id, status, owner=None, _real=real, seen=seen, k=k):  # type: ignore[no-untyped-def]
                    if status.value.endswith("_recovery"):
                        seen["n"] += 1
                        if seen["n"] == k and not seen["hit"]:
                            seen["hit"] = True
                            raise sqlite3.OperationalError("database is locked")
                    return _real(self, inv_id, status, owner)

                type(b.o)._atomic_status_transition = faulty  # type: ignore[method-assign]
                try:
                    out1 = run_recovery(b.app, rk)
                finally:
                    type(b.o)._atomic_status_transition = real  # type: ignore[method-assign]
                clock.advance(60_000_000)
                b.o.register_runner_heartbeats(["recovery", "rB"])
                out2 = run_recovery(b.app, rk)
                flush(b.app)
                st = {i: b.rec(i)[0] for i in ids}
                q = b.queue()
                ctx.count()
                ctx.distinct((kind, "fault-inside-run", rk, k))
                stuck = [i for i in ids if st[i].endswith("_recovery")]
                lost = [i for i in ids if st[i] in ("rerouted", "registered", "retry") and i not in q]
                if stuck or lost or out2 != "done":
                    ctx.report(f"recovery-fault-strands[{kind}]:{rk}",
                               f"[{kind}] recover_{rk}_invocations over 5 stuck invocations; its {k}. *_RECOVERY write fails with 'database is locked' (the run {out1}); the next run "
                               f"{out2}: {len(stuck)} invocation(s) still in a *_RECOVERY status, {len(lost)} available but in no queue (statuses {sorted(st.values())})",
                               {"scenario": "fault-inside-recovery-run", "backend": kind, "kind": rk, "fault_at_write": k})


def live_runner_real_loop(ctx: Ctx) -> None:
    """the REAL `run()` loop of a thread runner that has just started (real time, slow loop): as soon as one of its invocations is
    RUNNING, another runner executes the running-recovery task.  The owner is alive: it must be an active runner with a heartbeat,
    the scan must not select its invocation, which stays RUNNING under it and completes once."""
    import threading

    from pynenc import context, core_tasks

    for kind in ("mem", "sqlite"):
        app = make_app(kind, ctx.tmp, app_id=f"c04real{kind}", runner_cls="ThreadRunner", runner_loop_sleep_time_sec=1.5, max_pending_seconds=3600.0)
        t = app.task(T.c11_slow)
        inv = t("ok", 1.0)
        o = app.orchestrator
        th = threading.Thread(target=app.runner.run, daemon=True)
        th.start()
        t0 = _time.time()
        while _time.time() - t0 < 10 and o.get_invocation_status(inv.invocation_id).value != "running":
            _time.sleep(0.005)
        rec0 = o.get_invocation_status_record(inv.invocation_id)
        active = [r.runner_id for r in o.get_active_runners()]
        selected = inv.invocation_id in set(o.get_running_invocations_for_recovery())
        context.set_current_app(app)
        context.set_runner_context(app.app_id, rctx("other-runner"))
        o.register_runner_heartbeats(["other-runner"])
        try:
            core_tasks.recover_running_invocations()
        except BaseException:  # noqa: BLE001
            pass
        rec1 = o.get_invocation_status_record(inv.invocation_id)
        ctx.count()
        ctx.distinct((kind, "live-runner-real-loop", selected))
        bad = rec0.status.value == "running" and (selected or rec0.runner_id not in active or (rec1.status.value, rec1.runner_id) not in (("running", rec0.runner_id), ("success", None)))
        try:
            app.runner.stop_runner_loop()
        except Exception:  # noqa: BLE001
            pass
        th.join(8)
        if bad:
            ctx.report(f"live-runner-recovered[{kind}]:fresh-runner", f"[{kind}] a thread runner that has just started holds a RUNNING invocation (owner {rec0.runner_id}, active runners {active}): the running-recovery scan "
                                                                      f"{'selected' if selected else 'did not select'} it; after another runner's recovery run it is {rec1.status.value}/{rec1.runner_id}",
                       {"scenario": "live-runner-real-loop", "backend": kind})


def two_recovery_runs(ctx: Ctx, clock: VirtualClock) -> None:
    """two recovery runs overlap (the atomic-service windows of two runners are not exclusive under clock skew, and a run may
    outlive its window): run 1 has scanned everything and is part-way through taking its invocations when run 2 scans, takes and
    re-queues what it can get; then run 1 goes on.  Neither run may fail, nothing may stay in a *_RECOVERY status, and every
    stuck invocation ends up re-queued (or already claimed again)."""
    from pynenc import context
    from pynenc.invocation.status import InvocationStatus as S

    for kind in ("mem", "sqlite"):
        for rk in ("pending", "running"):
            for n, at in ((5, 2), (9, 0), (9, 8)):
                b = Back(ctx, kind, 5.0, 0.5, f"two{rk}{n}{at}")
                dead = rctx("rDead")
                ids = [b.task(j).invocation_id for j in range(n)]
                for i in ids:
                    b.o.set_invocation_status(i, S.PENDING, dead)
                    if rk == "running":
                        b.o.set_invocation_status(i, S.RUNNING, dead)
                clock.advance(3_600_000_000)
                b.o.register_runner_heartbeats(["recovery", "recovery2"])
                scan = sorted(b.o.get_pending_invocations_for_recovery() if rk == "pending" else b.o.get_running_invocations_for_recovery())
                out2: list[str] = []

                def second_run(b=b, rk=rk, out2=out2) -> None:
                    from pynenc import core_tasks
                    if out2:
                        return          # the second run's own scan passes the same hook: once only
                    out2.append("started")
                    context.set_runner_context(b.app.app_id, rctx("recovery2"))
                    try:
                        (core_tasks.recover_pending_invocations if rk == "pending" else core_tasks.recover_running_invocations)()
                        out2[0] = "done"
                    except BaseException as e:  # noqa: BLE001
                        out2[0] = f"raised {type(e).__name__}: {e}"
                    finally:
                        context.set_runner_context(b.app.app_id, rctx("recovery"))

                victim = scan[at] if at < len(scan) else None
                out1 = run_recovery(b.app, rk, (victim, second_run) if victim else None)
                flush(b.app)
                q = b.queue()
                ctx.count()
                ctx.distinct((kind, "two-runs", rk, n, at))
                rep = {"scenario": "two-recovery-runs", "backend": kind, "kind": rk, "stuck": n, "second_run_starts_before_item": at}
                if out1 != "done" or out2 != ["done"]:
                    ctx.report(f"recovery-run-raised[{kind}]:{rk}:overlapping-runs", f"[{kind}] two overlapping recover_{rk}_invocations runs over {n} stuck invocations (the second starts when the first "
                                                                                   f"has taken {at}): first run {out1}, second run {out2}", rep)
                left = [(i, b.rec(i)[0]) for i in ids if b.rec(i)[0] in ("pending_recovery", "running_recovery", "pending" if rk == "pending" else "running")]
                if left:
                    ctx.report(f"stranded-in-recovery[{kind}]:{rk}:overlapping-runs", f"[{kind}] after two overlapping recover_{rk}_invocations runs {len(left)} of {n} stuck invocations are still "
                                                                                     f"{sorted({s for _, s in left})} (not re-queued)", rep)
                lost = [i for i in ids if b.rec(i)[0] == "rerouted" and i not in q]
                if lost:
                    ctx.report(f"rerouted-not-queued[{kind}]:{rk}:overlapping-runs", f"[{kind}] {len(lost)} invocation(s) REROUTED by overlapping recovery runs are in no queue", rep)


def stale_scan_meets_taken(ctx: Ctx, clock: VirtualClock) -> None:
    """run 2 scans, then run 1 scans and takes everything, then run 2 acts on its (now stale) scan - it meets invocations
    another LIVE run has already switched to *_RECOVERY - and finishes, then run 1 re-queues what it took.  Real threads, the
    order forced at the scan and at the re-queue phase."""
    import threading

    from pynenc import context, core_tasks
    from pynenc.invocation.status import InvocationStatus as S

    for kind in ("mem", "sqlite"):
        for rk in ("pending", "running"):
            n = 6
            b = Back(ctx, kind, 5.0, 0.5, f"stale{rk}")
            dead = rctx("rDead")
            ids = [b.task(j).invocation_id for j in range(n)]
            for i in ids:
                b.o.set_invocation_status(i, S.PENDING, dead)
                if rk == "running":
                    b.o.set_invocation_status(i, S.RUNNING, dead)
            clock.advance(3_600_000_000)
            b.o.register_runner_heartbeats(["recovery", "recovery2"])
            o = b.o
            name = "get_pending_invocations_for_recovery" if rk == "pending" else "get_running_invocations_for_recovery"
            orig_scan, orig_reroute = getattr(o, name), o.reroute_invocations
            fn = core_tasks.recover_pending_invocations if rk == "pending" else core_tasks.recover_running_invocations
            scanned2, go2 = threading.Event(), threading.Event()
            out: dict[str, str] = {}
            main = threading.current_thread()
            state = {"released": False}

            def run2() -> None:
                context.set_current_app(b.app)
                context.set_runner_context(b.app.app_id, rctx("recovery2"))
                try:
                    fn()
                    out["run2"] = "done"
                except BaseException as e:  # noqa: BLE001
                    out["run2"] = f"raised {type(e).__name__}: {e}"

            t2 = threading.Thread(target=run2, daemon=True)

            def scan():
                items = list(orig_scan())
                if threading.current_thread() is t2:
                    scanned2.set()
                    go2.wait(20)            # ... run 1 scans and takes everything meanwhile
                yield from items

            def reroute(invocation_ids, runner_ctx):
                if threading.current_thread() is main and not state["released"]:
                    state["released"] = True
                    go2.set()               # run 2 now acts on its stale scan and finishes
                    t2.join(20)
                return orig_reroute(invocation_ids, runner_ctx)

            setattr(o, name, scan)
            o.reroute_invocations = reroute
            try:
                t2.start()
                scanned2.wait(20)
                out["run1"] = run_recovery(b.app, rk)
                t2.join(20)
            finally:
                delattr(o, name)
                del o.reroute_invocations
            flush(b.app)
            q = b.queue()
            ctx.count()
            ctx.distinct((kind, "stale-scan", rk))
            rep = {"scenario": "stale-scan-meets-taken", "backend": kind, "kind": rk, "stuck": n}
            if out.get("run1") != "done" or out.get("run2") != "done":
                ctx.report(f"recovery-run-raised[{kind}]:{rk}:stale-scan", f"[{kind}] run 2 of recover_{rk}_invocations acts on a scan taken before run 1 switched the same {n} invocations to recovery: {out}", rep)
            left = sorted({b.rec(i)[0] for i in ids} & {"pending_recovery", "running_recovery", "pending", "running"})
            if left:
                cnt = sum(1 for i in ids if b.rec(i)[0] in left)
                ctx.report(f"stranded-in-recovery[{kind}]:{rk}:stale-scan", f"[{kind}] after two overlapping recover_{rk}_invocations runs (run 2 on a stale scan) {cnt} of {n} stuck invocations are still {left}: "
                                                                          f"never re-queued, invisible to every later scan", rep)
            lost = [i for i in ids if b.rec(i)[0] == "rerouted" and i not in q]
            if lost:
                ctx.report(f"rerouted-not-queued[{kind}]:{rk}:stale-scan", f"[{kind}] {len(lost)} REROUTED invocation(s) are in no queue after two overlapping recovery runs", rep)


def poller_during_recovery(ctx: Ctx, clock: VirtualClock) -> None:
    """a live runner polls the broker right after every message the recovery run queues (and once more after every status it
    writes): whatever it is handed it holds; everything else the run re-queued is REROUTED, un-owned and IN the queue"""
    from pynenc.invocation.status import InvocationStatus as S

    for kind in ("mem", "sqlite"):
        for rk in ("pending", "running"):
            for when in ("after-push", "after-status"):
                n = 4
                b = Back(ctx, kind, 5.0, 0.5, f"poll{rk}{when[6:]}")
                dead, live = rctx("rDead"), rctx("rLive")
                ids = [b.task(j).invocation_id for j in range(n)]
                for i in ids:
                    b.o.set_invocation_status(i, S.PENDING, dead)
                    if rk == "running":
                        b.o.set_invocation_status(i, S.RUNNING, dead)
                clock.advance(3_600_000_000)
                b.o.register_runner_heartbeats(["recovery", "rLive"])
                got: list[str] = []
                busy = {"v": False}

                def poll() -> None:
                    if busy["v"]:
                        return
                    busy["v"] = True
                    try:
                        got.extend(x.invocation_id for x in b.o.get_invocations_to_run(1, live))
                    finally:
                        busy["v"] = False

                real_push, real_set = b.app.broker.route_invocation, b.o.set_invocation_status

                def push(i):  # type: ignore[no-untyped-def]
                    r = real_push(i)
                    if when == "after-push":
                        poll()
                    return r

                def setst(i, st, c):  # type: ignore[no-untyped-def]
                    r = real_set(i, st, c)
                    if when == "after-status" and c.runner_id == "recovery":
                        poll()
                    return r

                b.app.broker.route_invocation = push  # type: ignore[method-assign]
                b.o.set_invocation_status = setst  # type: ignore[method-assign]
                try:
                    out = run_recovery(b.app, rk)
                finally:
                    del b.app.broker.route_invocation
                    del b.o.set_invocation_status
                flush(b.app)
                q = b.queue()
                ctx.count()
                ctx.distinct((kind, "poller-during-recovery", rk, when))
                rep = {"scenario": "poller-during-recovery", "backend": kind, "kind": rk, "poll": when}
                if out != "done":
                    ctx.report(f"recovery-run-raised[{kind}]:{rk}:live-poller", f"[{kind}] recover_{rk}_invocations {out} while a live runner polls {when}", rep)
                for i in ids:
                    st, ow, _ = b.rec(i)
                    held = ow == "rLive" and st in ("pending", "running")
                    if not held and not (st == "rerouted" and ow is None and i in q):
                        ctx.report(f"recovered-but-unreachable[{kind}]:{rk}:live-poller",
                                   f"[{kind}] a live runner polls the broker {when} of recover_{rk}_invocations: a stuck invocation ends {st}, owner {ow}, queued {i in q}, handed to the live runner "
                                   f"{i in got}: neither held by the live runner nor re-queued", rep)
                        break


def large_backlog(ctx: Ctx, clock: VirtualClock) -> None:
    """ONE recovery run over a backlog larger than any page a scan might fetch at a time: the consumer moves every row it is
    handed out of the scanned status while the scan is still being consumed"""
    from pynenc.invocation.status import InvocationStatus as S

    n = 260 if ctx.quick else 1100
    for kind in ("mem", "sqlite"):
        for rk in ("pending", "running"):
            b = Back(ctx, kind, 5.0, 0.5, f"big{rk}")
            dead = rctx("rDead")
            ids = [b.task(j).invocation_id for j in range(n)]
            for i in ids:
                b.o.set_invocation_status(i, S.PENDING, dead)
                if rk == "running":
                    b.o.set_invocation_status(i, S.RUNNING, dead)
            clock.advance(3_600_000_000)
            b.o.register_runner_heartbeats(["recovery"])
            out = run_recovery(b.app, rk)
            flush(b.app)
            ctx.count()
            ctx.distinct((kind, "backlog", rk, n))
            st = Counter(b.rec(i)[0] for i in ids)
            if out != "done" or set(st) != {"rerouted"}:
                ctx.report(f"backlog-not-recovered[{kind}]:{rk}", f"[{kind}] one recover_{rk}_invocations run over {n} stuck invocations: {out}, statuses afterwards {dict(st)} (all should be rerouted)",
                           {"scenario": "large-backlog", "backend": kind, "kind": rk, "stuck": n, "statuses": dict(st)})


def scan_vs_newcomer(ctx: Ctx, kind: str) -> None:
    """the running-recovery scan concurrently with a runner that registers its first heartbeat and then starts an invocation
    (scheduled: SQL statements / source lines): the newcomer's invocation is never selected, a dead runner's always"""
    from pynenc.invocation.status import InvocationStatus as S
    from pynenc.orchestrator.mem_orchestrator import MemOrchestrator

    from harness.sched_line import DeferredThreads, LineSched
    from harness.sched_sql import SqlSched, explore

    app = make_app(kind, ctx.tmp, app_id=f"c04race{kind}")
    task = app.task(T.add)
    o = app.orchestrator
    defer = DeferredThreads().install()
    if kind == "mem":
        sched: SqlSched = LineSched(line_targets=[MemOrchestrator._get_running_invocations_for_recovery, MemOrchestrator.register_runner_heartbeats,
                                                  MemOrchestrator._atomic_status_transition, MemOrchestrator._interanl_atomic_status_transition],
                                    lock_modules=["pynenc.orchestrator.mem_orchestrator"])
    else:
        sched = SqlSched(patch=[("pynenc.util.sqlite_utils", "create_sqlite_connection"), ("pynenc.orchestrator.sqlite_orchestrator", "sqlite_conn"),
                                ("pynenc.state_backend.sqlite_state_backend", "sqlite_conn"), ("pynenc.trigger.sqlite_trigger", "sqlite_conn"),
                                ("pynenc.broker.sqlite_broker", "sqlite_conn")], max_steps=20000)
    sched.install()
    n = 0
    try:
        def run_one(chooser):
            defer.pending.clear()
            app.purge()
            i_new, i_dead = task(1).invocation_id, task(2).invocation_id
            o.set_invocation_status(i_dead, S.PENDING, rctx("rDead"))
            o.set_invocation_status(i_dead, S.RUNNING, rctx("rDead"))      # rDead never sent a heartbeat
            got: list = []

            def scanner() -> None:
                got.extend(o.get_running_invocations_for_recovery())

            def newcomer() -> None:
                o.register_runner_heartbeats(["rNew"])
                o.set_invocation_status(i_new, S.PENDING, rctx("rNew"))
                o.set_invocation_status(i_new, S.RUNNING, rctx("rNew"))

            run = sched.run([scanner, newcomer], chooser)
            run.meta = (i_new, i_dead, list(got))  # type: ignore[attr-defined]
            return run

        for run in explore(run_one, 2 if ctx.quick else 3, 150 if ctx.quick else 1500):
            n += 1
            ctx.count()
            ctx.distinct((kind, "scan-vs-newcomer", tuple(run.choices)))
            i_new, i_dead, got = run.meta  # type: ignore[attr-defined]
            rep = {"backend": kind, "schedule": run.choices}
            if run.aborted or any(run.errors):
                ctx.report(f"scan-race-error[{kind}]", f"[{kind}] scan / newcomer raised {run.errors} aborted={run.aborted}", rep)
                continue
            if i_new in got:
                ctx.report(f"scan-steals-newcomer[{kind}]", f"[{kind}] the running-recovery scan selected the invocation of a runner that registered its heartbeat BEFORE starting it (the scan is not one consistent read); schedule {run.choices}", rep)
            if i_dead not in got:
                ctx.report(f"scan-misses-dead[{kind}]", f"[{kind}] the scan did not select the RUNNING invocation of a runner that never sent a heartbeat (schedule {run.choices})", rep)
    finally:
        sched.uninstall()
        defer.uninstall()
    ctx.notes[f"scan_race_schedules_{kind}"] = n


def _untoks(line: str) -> list[str]:
    if line.strip() == "[]":
        return []
    out = []
    for t in line.split():
        out.append("" if t == "e" else bytes.fromhex(t[1:]).decode())
    return out


def replay(data: dict) -> int:
    from harness.common import replay_by_rerun

    return replay_by_rerun("C04", run, data)
