"""C03 — no accepted invocation is lost when a process dies at any step.

Lean: Props/C03.lean — the crash-point table of every lifecycle operation is a theorem over the effect programs traced from the
      real code on every run: after each prefix of the operation's effects the invocation is / is not recoverable without its
      holder; every operation run to completion leaves it recoverable; every recoverable state can be driven to a final status by
      recovery + a surviving runner; the `false` entries are stuck (no recovery step applies) — these are the known findings.
Tie:  translator (effect programs) + CRASH REPLAY on the real code, both backends: for every role and every point between two
      backend effects (queue push/pop, status write, result/exception write, argument-index write, retry count) the acting thread
      is parked for ever right there (a hard crash: no `finally` runs), the virtual clock jumps past every timeout, a surviving
      runner heartbeats, runs both recovery tasks and polls/runs until quiescence; the outcome (final status + body completed at
      least once, or stranded) is compared with the Lean classification of that point — a differential over the whole table.
Oracle: outcome of the real run; an unprotected point that the table calls protected is a concrete violation (role, point);
      listed unprotected points print KNOWN-FINDING.
"""
from __future__ import annotations

import threading
import time as _time
from typing import Any, Callable

from harness import tasks as T
from harness.apps import VirtualClock, flush, inject_status, make_app, rctx
from harness.common import Ctx, LeanDriver, lean_stage, thorough_rebuild
from harness.translate import programs as trp
from harness.translate import status as trs

THEOREMS = ["table_pollClaim", "table_runOk", "table_runRetry", "table_killReroute", "table_recoverPending", "table_client",
            "operations_end_recoverable", "recoverable_leads_to_final", "unprotected_is_stuck",
            # Props/C03Wakeup.lean: re-queueing (status, then push) against any number of concurrent polls never loses the message
            "inv_step", "status_then_push_never_loses", "status_then_push_reachable", "push_then_status_loses", "programs_write_status_before_push",
            # Props/C03Lazy.lean: a lazily consumed poll against the re-queues of what it hands out (skip set read from the source)
            "lazy_inv_step", "lazy_poll_never_strands", "marking_claimed_ids_strands_them", "code_adds_to_the_skip_set_only_on_wait_graph_claims"]

RELEVANT = ("register", "transition", "push", "pop")


class Injector:
    """Wraps the backend effects of one app; the actor thread is parked for ever before its k-th effect."""

    def __init__(self, app):
        self.app = app
        self.actor: int | None = None
        self.k = -1
        self.done = 0            # effects attempted by the actor so far
        self.rel_done = 0        # of which recoverability-relevant and accepted
        self.effects: list[str] = []
        self.parked = threading.Event()
        self._never = threading.Event()
        o, b, sb = app.orchestrator, app.broker, app.state_backend
        self._wrap(sb, "set_result", "set_result")
        self._wrap(sb, "set_exception", "set_exception")
        self._wrap(o, "_register_new_invocations", "register")
        self._wrap(o, "_atomic_status_transition", "transition", arg=lambda i, st, *a, **k: st.value)
        self._wrap(o, "index_arguments_for_concurrency_control", "index_args")
        self._wrap(o, "increment_invocation_retries", "incr_retries")
        self._wrap(b, "route_invocation", "push")
        self._wrap(b, "retrieve_invocation", "pop", only_if_result=True)
        self._wrap(o.blocking_control, "waiting_for_results", "wait")

    def effect_gate(self, label: str) -> None:
        """an extra (non-backend) step of the acting thread that a crash can precede, e.g. a blocking join"""
        self._gate(label)
        if threading.get_ident() == self.actor:
            self.effects.append(label)

    def _gate(self, label: str) -> None:
        if threading.get_ident() != self.actor:
            return
        if self.done == self.k:
            self.parked.set()
            self._never.wait()          # hard crash: this thread never runs again
        self.done += 1

    def _wrap(self, obj: Any, name: str, kind: str, arg: Callable[..., str] | None = None, only_if_result: bool = False) -> None:
        orig = getattr(obj, name)
        inj = self

        def w(*a: Any, **kw: Any):
            label = kind + (":" + arg(*a, **kw) if arg else "")
            if not only_if_result:
                inj._gate(label)
                r = orig(*a, **kw)      # may raise (refused transition): then it is not an effect
                if threading.get_ident() == inj.actor:
                    inj.effects.append(label)
                    if kind in RELEVANT:
                        inj.rel_done += 1
                return r
            # pop: an effect only when a message is actually taken; the gate is placed before the call
            inj._gate(label)
            r = orig(*a, **kw)
            if threading.get_ident() == inj.actor:
                if r is not None:
                    inj.effects.append(label)
                    inj.rel_done += 1
                else:
                    inj.done -= 1       # an empty pop is not an effect
            return r

        setattr(obj, name, w)

    def commit_gate(self) -> None:
        """called right after a SQLite transaction of the acting thread has been committed"""
        if threading.get_ident() != self.actor:
            return
        self.commits += 1
        if self.commits == self.commit_k:
            self.parked.set()
            self._never.wait()

    def run_actor(self, fn: Callable[[], Any], k: int, commit_k: int = -1) -> bool:
        """run fn in a thread that dies before its k-th effect (or right after its commit_k-th SQLite commit); returns True
        if it was parked (crashed)"""
        self.k, self.done, self.rel_done, self.effects = k, 0, 0, []
        self.commits, self.commit_k = 0, commit_k
        self.parked.clear()
        finished = threading.Event()

        def body() -> None:
            self.actor = threading.get_ident()
            try:
                fn()
            except BaseException:  # noqa: BLE001
                pass
            finally:
                finished.set()

        th = threading.Thread(target=body, daemon=True)
        th.start()
        t0 = _time.time()
        while _time.time() - t0 < 20:
            if self.parked.is_set():
                return True
            if finished.is_set():
                return False
            _time.sleep(0.0005)
        raise RuntimeError("actor neither finished nor parked")


class CommitHook:
    """every committed SQLite transaction is a crash point: `SQLiteConnection.commit` and the implicit commit of
    `with connection:` call `on_commit` when a transaction was open"""

    def __init__(self) -> None:
        self.on_commit: Callable[[], None] | None = None

    def install(self) -> "CommitHook":
        from pynenc.util.sqlite_utils import SQLiteConnection as C

        hook = self
        self._exit = C.__exit__

        def commit(conn) -> None:  # type: ignore[no-untyped-def]
            was = conn._conn.in_transaction
            conn._conn.commit()
            if was and hook.on_commit:
                hook.on_commit()

        def exit_(conn, et, ev, tb) -> None:  # type: ignore[no-untyped-def]
            was = conn._conn.in_transaction
            hook._exit(conn, et, ev, tb)
            if was and et is None and hook.on_commit:
                hook.on_commit()

        C.commit, C.__exit__ = commit, exit_  # type: ignore[method-assign]
        return self

    def uninstall(self) -> None:
        from pynenc.util.sqlite_utils import SQLiteConnection as C

        del C.commit
        C.__exit__ = self._exit  # type: ignore[method-assign]


def _cls(status: str) -> str:
    """statuses that are available for run are one class for the purpose of naming a stranded state (a message popped and not claimed)"""
    return "available" if status in ("registered", "rerouted", "retry") else status


def queued_copies(app, target: str) -> int:
    b = app.broker
    got = []
    while (i := b.retrieve_invocation()) is not None:
        got.append(i)
    for i in got:
        b.route_invocation(i)
    return sum(1 for i in got if str(i) == str(target))


class Scenario:
    def __init__(self, name: str, program: str, start: tuple[str, int], setup: Callable, actor: Callable, after: Callable | None = None):
        self.name, self.program, self.start, self.setup, self.actor, self.after = name, program, start, setup, actor, after


def survivor_drains(app, clock: VirtualClock, target: str, extra: Callable | None = None) -> tuple[str, int]:
    """time passes, the surviving runner rB heartbeats, runs both recovery tasks and polls/runs until nothing moves"""
    from pynenc import context, core_tasks

    cB = rctx("rB")
    try:
        # the last heartbeat of the process that died arrives after its last effect (its parent reports the children it believes alive
        # on every loop): it does not make the dead process any more alive an hour later
        app.orchestrator.register_runner_heartbeats(["rA"])
    except BaseException:  # noqa: BLE001
        pass
    clock.advance(3_600_000_000)
    app.orchestrator.register_runner_heartbeats(["rB"])
    if extra:
        extra()
    for _ in range(6):
        context.set_current_app(app)
        context.set_runner_context(app.app_id, cB)
        try:
            core_tasks.recover_pending_invocations()
            core_tasks.recover_running_invocations()
        except BaseException:  # noqa: BLE001
            pass
        got = []
        try:
            got = list(app.orchestrator.get_invocations_to_run(5, cB))
        except BaseException:  # noqa: BLE001
            pass
        for inv in got:
            try:
                inv.run(cB)
            except BaseException:  # noqa: BLE001
                pass
        clock.advance(3_600_000_000)
        app.orchestrator.register_runner_heartbeats(["rB"])
        if app.orchestrator.get_invocation_status(target).is_final():
            break
    return app.orchestrator.get_invocation_status(target).value, T.C03_DONE.get(target, 0)


def scenarios() -> list[Scenario]:
    from pynenc import context, core_tasks
    from pynenc.conf.config_task import ConcurrencyControlType as C
    from pynenc.invocation.status import InvocationStatus as S

    cA = rctx("rA")

    def accepted(app, mode="ok", **opts):
        t = app.task(T.c03_body, **opts)
        return t(mode)

    def setup_poll(app):
        inv = accepted(app)
        return {"target": inv.invocation_id}

    def actor_poll(app, st):
        list(app.orchestrator.get_invocations_to_run(1, cA))

    def setup_run(mode, **opts):
        def f(app):
            inv = accepted(app, mode, **opts)
            got = list(app.orchestrator.get_invocations_to_run(1, cA))
            return {"target": inv.invocation_id, "inv": got[0]}
        return f

    def actor_run(app, st):
        st["inv"].run(cA)

    def setup_kill(app):
        inv = accepted(app)
        list(app.orchestrator.get_invocations_to_run(1, cA))
        app.orchestrator.set_invocation_status(inv.invocation_id, S.RUNNING, cA)
        return {"target": inv.invocation_id}

    def actor_kill(app, st):
        app.runner._kill_and_reroute(st["target"], cA)

    def setup_recover(kind):
        def f(app):
            inv = accepted(app)
            list(app.orchestrator.get_invocations_to_run(1, rctx("rDead")))
            if kind == "running":
                app.orchestrator.set_invocation_status(inv.invocation_id, S.RUNNING, rctx("rDead"))
            return {"target": inv.invocation_id, "advance": True}
        return f

    def actor_recover(kind):
        def f(app, st):
            context.set_current_app(app)
            context.set_runner_context(app.app_id, cA)
            (core_tasks.recover_pending_invocations if kind == "pending" else core_tasks.recover_running_invocations)()
        return f

    def setup_cc(app):
        t = app.task(T.c03_body, running_concurrency=C.TASK, reroute_on_concurrency_control=True)
        i1 = t("ok")
        i2 = t("ok")
        # i1 is RUNNING under the survivor rB (injected: its worker is alive and will finish it)
        assert app.broker.retrieve_invocation() == i1.invocation_id
        inject_status(app, i1.invocation_id, S.RUNNING, "rB", 0)
        return {"target": i2.invocation_id, "other": i1.invocation_id}

    def after_cc(app, st):
        app.orchestrator.set_invocation_status(st["other"], S.SUCCESS, rctx("rB"))

    def setup_stop(app):
        from pynenc.runner.thread_runner import ThreadInfo

        inv = accepted(app)
        got = list(app.orchestrator.get_invocations_to_run(1, rctx(app.runner.runner_id)))
        app.orchestrator.set_invocation_status(inv.invocation_id, S.RUNNING, rctx(app.runner.runner_id))
        runner = app.runner
        runner._on_start()

        class Alive:                       # the task thread is alive (in its body) for the whole stop procedure
            name = "task-thread"

            def __init__(self):
                self.inj = None

            def is_alive(self):
                return True

            def join(self, timeout=None):
                if self.inj is not None:
                    self.inj.effect_gate("join")

        th = Alive()
        runner.threads = {inv.invocation_id: ThreadInfo(th, got[0])}
        return {"target": inv.invocation_id, "shim": th}

    def actor_stop(app, st):
        app.runner._on_stop()

    return [
        Scenario("thread-runner-stop", "", ("running", 0), setup_stop, actor_stop),
        Scenario("runner-claiming", "pollClaim", ("registered", 1), setup_poll, actor_poll),
        Scenario("worker-success", "runOk", ("pending", 0), setup_run("ok"), actor_run),
        Scenario("worker-failure", "runFail", ("pending", 0), setup_run("fail"), actor_run),
        Scenario("worker-retry", "runRetry", ("pending", 0), setup_run("retry", max_retries=2), actor_run),
        Scenario("kill-and-reroute", "killReroute", ("running", 0), setup_kill, actor_kill),
        Scenario("pending-recovery-task", "recoverPending", ("pending", 0), setup_recover("pending"), actor_recover("pending")),
        Scenario("running-recovery-task", "recoverPending", ("running", 0), setup_recover("running"), actor_recover("running")),
        Scenario("reroute-on-concurrency-control", "", ("registered", 1), setup_cc, lambda app, st: list(app.orchestrator.get_invocations_to_run(1, cA)), after_cc),
    ]


def recovery_run_is_the_victim(ctx: Ctx, clock: VirtualClock) -> None:
    """the crash hits the RECOVERY SERVICE itself: the runner that popped the message of a recovery-task invocation dies before
    claiming it.  That run is lost (the listed pop-before-PENDING point) - but the service is periodic: the next cron ticks launch the
    recovery task again, a surviving runner runs it, and the ordinary invocation a dead runner holds is recovered all the same."""
    from pynenc import context
    from pynenc.identifiers.task_id import TaskId

    for kind in ("mem", "sqlite"):
        for which, held in (("recover_pending_invocations", "pending"), ("recover_running_invocations", "running")):
            app = make_app(kind, ctx.tmp, app_id=f"c03svc{kind}{held}", max_pending_seconds=5.0, runner_considered_dead_after_minutes=0.5, runner_cls="ThreadRunner")
            T.C03_DONE.clear()
            t = app.task(T.c03_body)
            x = t("ok")
            o = app.orchestrator
            o.register_runner_heartbeats(["rDead"])
            list(o.get_invocations_to_run(1, rctx("rDead")))
            if held == "running":
                o.set_invocation_status(x.invocation_id, _S("running"), rctx("rDead"))
            clock.advance(3_600_000_000)
            core = app.get_task(TaskId("pynenc.core_tasks", which))
            cB = rctx("rB")
            o.register_runner_heartbeats(["rB"])
            context.set_current_app(app)
            context.set_runner_context(app.app_id, cB)
            r0 = app.trigger.execute_task(core.task_id)            # cron tick 1 launches the recovery task ...
            popped = app.broker.retrieve_invocation()              # ... runner A pops its message and dies
            ticks = 0
            for _ in range(4):                                     # the service goes on: tick, a survivor polls and runs what it claims
                clock.advance(600_000_000)
                o.register_runner_heartbeats(["rB"])
                app.trigger.execute_task(core.task_id)
                ticks += 1
                for _ in range(3):
                    for inv in list(o.get_invocations_to_run(5, cB)):
                        try:
                            inv.run(cB)
                        except BaseException:  # noqa: BLE001
                            pass
                if o.get_invocation_status(x.invocation_id).is_final():
                    break
            flush(app)
            st = o.get_invocation_status(x.invocation_id).value
            done = T.C03_DONE.get(x.invocation_id, 0)
            ctx.count()
            ctx.distinct((kind, "recovery-run-is-the-victim", held))
            if not (st in ("success", "failed") and done >= 1):
                ctx.report(f"recovery-service-stalls[{kind}]:{held}",
                           f"[{kind}] an invocation is {held} under a dead runner; the runner that popped the first {which} run (popped {popped == r0.invocation_id}) died before claiming it; "
                           f"after {ticks} more cron ticks with a surviving runner polling and running, the invocation is {st} (body completed {done}x), the first recovery run is "
                           f"{o.get_invocation_status(r0.invocation_id).value}: the recovery service never runs again",
                           {"backend": kind, "role": "recovery-service", "held": held, "ticks": ticks})


def _S(name: str):  # type: ignore[no-untyped-def]
    from pynenc.invocation.status import InvocationStatus

    return InvocationStatus(name)


def graceful_stop_at_the_wrong_moment(ctx: Ctx) -> None:
    """not a crash but a GRACEFUL stop (Ctrl-C / SIGTERM handled by the runner) that arrives right after the loop popped a message and
    before it claimed the invocation: with a surviving runner and the recovery services the accepted invocation is completed"""
    from harness.props.c11 import main_thread_signals

    for d in main_thread_signals(ctx, for_prop="C03"):
        if not d["mode"].endswith("after-pop"):
            continue
        ctx.count()
        ctx.distinct(("graceful-stop-after-pop", d["mode"], d.get("final_status")))
        if "crashed" in d:
            ctx.obligation("the graceful-stop probe of C03 ran", False, str(d)[:300])
            continue
        if d.get("final_status") not in ("success", "failed"):
            ctx.report(f"graceful-stop:{d['mode']}:invocation-stranded",
                       f"a ThreadRunner (loop in the main thread) handles {d['mode'].split('-')[0].upper()} right after popping the message of an accepted invocation: after its stop the "
                       f"invocation is {d.get('status_after_stop')} (owner {d.get('owner_after_stop')}, queued {d.get('queued_after_stop')}x); with a surviving runner and both recovery tasks it "
                       f"ends {d.get('final_status')}: stranded", {"role": "graceful-stop", "mode": d["mode"], "result": d})


def lazy_poll_meets_its_own_requeue(ctx: Ctx) -> None:
    """fault-free: a runner consumes `get_invocations_to_run` the way the thread runner does - one invocation at a time, each started
    before the next message is popped.  The first invocation ends its first attempt with a retry (or is handed back by a reroute)
    while the SAME poll is still going on: its new message is one of those the poll pops later.  Every accepted invocation must end
    final (or be queued in an available status, or be held) - nothing may be dropped by the poll that handed it out."""
    from pynenc.invocation.status import InvocationStatus as S

    cA = rctx("rA")
    for kind in ("mem", "sqlite"):
        for variant in ("retry", "reroute"):
            app = make_app(kind, ctx.tmp, app_id=f"c03lazy{kind}{variant}")
            t = app.task(T.c03_body, max_retries=3)
            plain = app.task(T.add)
            x = t("retry" if variant == "retry" else "ok")
            y = plain(1)
            app.orchestrator.register_runner_heartbeats(["rA"])
            handed: list[str] = []
            gen = app.orchestrator.get_invocations_to_run(4, cA)
            for inv in gen:
                handed.append(inv.invocation_id)
                if variant == "reroute" and inv.invocation_id == x.invocation_id and handed.count(x.invocation_id) == 1:
                    # the runner gives it back at once (no slot after all / a stop request that is then withdrawn)
                    app.orchestrator.reroute_invocations({inv.invocation_id}, cA)
                    continue
                try:
                    inv.run(cA)
                except BaseException:  # noqa: BLE001
                    pass
            # a few more rounds of the same runner: whatever is still queued gets its turn
            for _ in range(4):
                for inv in app.orchestrator.get_invocations_to_run(4, cA):
                    handed.append(inv.invocation_id)
                    try:
                        inv.run(cA)
                    except BaseException:  # noqa: BLE001
                        pass
            flush(app)
            ctx.count()
            st = app.orchestrator.get_invocation_status(x.invocation_id)
            ctx.distinct((kind, "lazy-poll", variant, st.value))
            if not st.is_final():
                rec = app.orchestrator.get_invocation_status_record(x.invocation_id)
                ctx.report(f"no-crash:poll-drops-the-requeue-of-what-it-handed-out[{kind}]:{variant}",
                           f"[{kind}] fault-free: a runner consumes one poll lazily (start each invocation before popping the next message); the first invocation "
                           f"{'ends its first attempt with a retry' if variant == 'retry' else 'is handed back by reroute_invocations'} while the poll is still going on: "
                           f"after four more polls of the same runner it is {rec.status.value} (owner {rec.runner_id}), queued copies {queued_copies(app, x.invocation_id)}, "
                           f"executions {T.C03_DONE.get(x.invocation_id, 0)}; handed out: {[('X' if h == x.invocation_id else 'Y') for h in handed]}",
                           {"backend": kind, "variant": variant})
            _ = (S, y)


def worker_loop_consumption(ctx: Ctx) -> None:
    """fault-free: the REAL worker loop of the persistent-process runner consumes a queue holding a concurrency-blocked invocation
    followed by a runnable one; once the blocking invocation finishes, the blocked one must still complete (nothing may be left
    non-final, un-queued and un-owned by the way a runner consumes `get_invocations_to_run`)"""
    import signal as _signal

    from pynenc.conf.config_task import ConcurrencyControlType as C
    from pynenc.invocation.status import InvocationStatus as S
    from pynenc.runner import persistent_process_runner as ppr

    for kind in ("sqlite",):       # the persistent-process runner is not compatible with the in-memory components
        app = make_app(kind, ctx.tmp, app_id=f"c03ppr{kind}", runner_cls="PersistentProcessRunner")
        excl = app.task(T.c03_body, running_concurrency=C.TASK, reroute_on_concurrency_control=True)
        plain = app.task(T.add)
        a1, a2, b1 = excl("ok"), excl("ok"), plain(1)
        assert app.broker.retrieve_invocation() == a1.invocation_id
        from harness.apps import inject_status as _inj

        _inj(app, a1.invocation_id, S.RUNNING, "rOther", 0)
        app.orchestrator.register_runner_heartbeats(["rOther"])
        stop = threading.Event()

        def director() -> None:
            t0 = _time.time()
            while _time.time() - t0 < 8 and not app.orchestrator.get_invocation_status(b1.invocation_id).is_final():
                _time.sleep(0.01)
            app.orchestrator.set_invocation_status(a1.invocation_id, S.SUCCESS, rctx("rOther"))
            t0 = _time.time()
            while _time.time() - t0 < 8 and not app.orchestrator.get_invocation_status(a2.invocation_id).is_final():
                _time.sleep(0.01)
            stop.set()

        th = threading.Thread(target=director, daemon=True)
        th.start()
        old = _signal.getsignal(_signal.SIGTERM)
        try:
            ppr.persistent_process_main(app, runner_cache={}, stop_event=stop, parent_runner_ctx_json=rctx("rParent").to_json(), child_runner_id="rChild")
        finally:
            _signal.signal(_signal.SIGTERM, old)
        th.join(20)
        flush(app)
        ctx.count()
        st = {n: app.orchestrator.get_invocation_status(i.invocation_id).value for n, i in (("a1", a1), ("a2", a2), ("b1", b1))}
        ctx.distinct((kind, "ppr-loop", tuple(st.values())))
        if st["a2"] not in ("success", "failed", "concurrency_controlled_final"):
            q = []
            while (x := app.broker.retrieve_invocation()) is not None:
                q.append(x)
            ctx.report(f"no-crash:worker-loop-strands-blocked[{kind}]",
                       f"[{kind}] fault-free: persistent-process worker loop, queue [blocked A2, runnable B1] with A1 running elsewhere: after A1 finished A2 is {st['a2']} "
                       f"(queued: {a2.invocation_id in q}) — a blocked invocation was left behind by the way the worker consumes get_invocations_to_run", {"backend": kind, "statuses": st})


def run(ctx: Ctx) -> None:
    def gen() -> dict[str, str]:
        g = trs.gen()
        g.update(trp.gen(ctx.tmp))
        from harness.translate import pollskip

        g.update(pollskip.gen())
        return g

    lean_stage(ctx, gen, THEOREMS)
    ctx.cov["rule"] = ("every (backend, role, crash point k = 0..n): the acting thread is parked before its k-th backend effect; "
                       "distinct = distinct (backend, role, point, outcome); the fault-free run (k = n) is included")
    drv = LeanDriver()
    clock = VirtualClock().install()
    nd = 0
    points = 0
    hook = CommitHook().install()
    commit_points = 0

    def one_point(kind: str, sc: Scenario, k: int, commit_k: int = -1, k2: int = -1) -> dict:
        app = make_app(kind, ctx.tmp, app_id=f"c03{kind}{sc.name}{k}c{commit_k if commit_k >= 0 else ''}s{k2 if k2 >= 0 else ''}", max_pending_seconds=5.0,
                       runner_considered_dead_after_minutes=0.5, runner_cls="ThreadRunner")
        T.C03_DONE.clear()
        st = sc.setup(app)
        app.orchestrator.register_runner_heartbeats(["rA"])
        if st.get("advance"):
            clock.advance(3_600_000_000)       # the dead runner's work is stale before the recovery task starts
            app.orchestrator.register_runner_heartbeats(["rA"])
        inj = Injector(app)
        if "shim" in st:
            st["shim"].inj = inj
        hook.on_commit = inj.commit_gate if commit_k >= 0 else None
        try:
            crashed = inj.run_actor(lambda: sc.actor(app, st), k, commit_k)
        finally:
            hook.on_commit = None
        r = {"crashed": crashed, "rel": inj.rel_done, "effects": list(inj.effects), "commits": inj.commits,
             "pre_status": app.orchestrator.get_invocation_status(st["target"]).value}
        r["queued"] = queued_copies(app, st["target"])
        if k2 >= 0 and crashed:
            # SECOND crash: the process that comes to the rescue (runner rX: both recovery tasks, one poll, the bodies it claimed)
            # dies itself before its k2-th backend effect; a third runner (rB) is what is left
            from pynenc import context, core_tasks

            cX = rctx("rX")
            clock.advance(3_600_000_000)
            app.orchestrator.register_runner_heartbeats(["rX"])
            if sc.after:
                sc.after(app, st)
            inj2 = Injector(app)

            def rescuer() -> None:
                context.set_current_app(app)
                context.set_runner_context(app.app_id, cX)
                core_tasks.recover_pending_invocations()
                core_tasks.recover_running_invocations()
                for inv in list(app.orchestrator.get_invocations_to_run(5, cX)):
                    inv.run(cX)

            r["crashed2"] = inj2.run_actor(rescuer, k2)
            r["effects2"] = list(inj2.effects)
            r["pre_status2"] = app.orchestrator.get_invocation_status(st["target"]).value
            r["queued2"] = queued_copies(app, st["target"])
            r["final"], r["done"] = survivor_drains(app, clock, st["target"], None)
        else:
            r["final"], r["done"] = survivor_drains(app, clock, st["target"], (lambda: sc.after(app, st)) if sc.after else None)
        flush(app)
        r["recovered"] = r["final"] in ("success", "failed", "concurrency_controlled_final") and r["done"] >= 1
        return r

    stranded_sig: dict[tuple[str, str, int], str] = {}  # (last effect, status, queued copies) of a single crash that strands -> its signature
    double_points = 0
    todo_double: list = []
    try:
        for kind in ("mem", "sqlite"):
            for sc in scenarios():
                # model table over the relevant effects of the traced program
                table: list[bool] | None = None
                if sc.program:
                    line = drv.ask(f"crash.table {sc.program} {sc.start[0]} {sc.start[1]}")
                    table = [x == "1" for x in line.split("|")[0].split()]
                k = 0
                label_of_state: dict[tuple[str, int], str] = {}
                ncommits = 0
                while True:
                    r = one_point(kind, sc, k)
                    crashed, rel, effects, pre_status, final, done, recovered = (r["crashed"], r["rel"], r["effects"], r["pre_status"], r["final"],
                                                                                 r["done"], r["recovered"])
                    points += 1
                    ctx.count()
                    ctx.distinct((kind, sc.name, k, crashed, recovered))
                    point = f"after {effects[-1] if effects else 'nothing'} (effect {k})" if crashed else "no crash"
                    rep = {"backend": kind, "role": sc.name, "crash_before_effect": k, "effects_done": effects, "status_at_crash": pre_status,
                           "final_status": final, "body_completions": done}
                    model_prot = None
                    if table is not None and crashed:
                        model_prot = table[rel] if rel < len(table) else None
                    elif crashed:
                        # no traced program for this role: ask the model about the state left behind
                        q = sum(1 for e in effects if e == "push") - sum(1 for e in effects if e == "pop") + sc.start[1]
                        model_prot = drv.ask(f"crash.protected {pre_status} {max(q, 0)}") == "1"
                    if crashed and model_prot is not None and model_prot != recovered:
                        nd += 1
                        ctx.obligation(f"crash-table correspondence [{kind}] {sc.name}", False,
                                       f"{point}: model says {'recoverable' if model_prot else 'NOT recoverable'}, real run ended {final} with {done} body completion(s)")
                    last = effects[-1] if effects else "start"
                    if crashed:
                        label_of_state.setdefault((pre_status, r["queued"]), f"after:{last}")
                    if not recovered and crashed:
                        stranded_sig.setdefault((last, _cls(pre_status), r["queued"]), f"crash:{sc.name}:after:{last}")
                    if not recovered:
                        sig = f"crash:{sc.name}:after:{last}" if crashed else f"no-crash:{sc.name}"
                        ctx.report(sig, f"[{kind}] {sc.name}: the acting process dies {point} with the invocation {pre_status}; after recovery and a surviving runner it is {final} "
                                        f"(body completed {done}x): an accepted invocation is stranded", rep)
                    if not crashed:
                        ncommits = r["commits"]
                        break
                    k += 1
                    if k > 40:
                        break
                # -- finer crash points on SQLite: right after EVERY transaction the acting thread commits (a backend effect may be
                #    several transactions; auxiliary writes - waiters, contexts - commit between effects).  Judged by the outcome; a
                #    stranded state is named after the effect-level point that leaves the same (status, queued copies), if any.
                if kind == "sqlite":
                    j = 1
                    while j <= 60:
                        r = one_point(kind, sc, 10**6, commit_k=j)
                        if not r["crashed"]:
                            break
                        commit_points += 1
                        ctx.count()
                        ctx.distinct((kind, sc.name, "commit", j, r["recovered"]))
                        if not r["recovered"]:
                            label = label_of_state.get((r["pre_status"], r["queued"]), f"intermediate:{r['pre_status']}:{r['queued']}")
                            ctx.report(f"crash:{sc.name}:{label}",
                                       f"[sqlite] {sc.name}: the acting process dies right after its {j}. committed transaction (effects completed so far {r['effects']}) with the "
                                       f"invocation {r['pre_status']}, queued {r['queued']}x; after recovery and a surviving runner it is {r['final']} (body completed {r['done']}x): "
                                       f"an accepted invocation is stranded",
                                       {"backend": "sqlite", "role": sc.name, "crash_after_commit": j, "effects_done": r["effects"], "status_at_crash": r["pre_status"],
                                        "queued": r["queued"], "final_status": r["final"]})
                        j += 1
                todo_double.append((kind, sc, k))
                ctx.sample({"backend": kind, "role": sc.name, "crash_points": k + 1, "model_table": table})
        for kind, sc, k in todo_double:
            # -- thorough tier: TWO crashes.  After every first crash that leaves a recoverable state, the rescuer dies before each of
            #    its own effects; a third runner remains.  A strand is named after the single-crash point with the same last effect that leaves the same state.
            if not ctx.quick:
                for k1 in range(k):
                    r1 = one_point(kind, sc, k1)
                    if not r1["crashed"] or not r1["recovered"]:
                        continue
                    k2 = 0
                    while k2 <= 40:
                        r = one_point(kind, sc, k1, k2=k2)
                        if not r.get("crashed2"):
                            break
                        double_points += 1
                        ctx.count()
                        ctx.distinct((kind, sc.name, "double", k1, k2, r["recovered"]))
                        prot = drv.ask(f"crash.protected {r['pre_status2']} {max(r['queued2'], 0)}") == "1"
                        if prot != r["recovered"]:
                            nd += 1
                            ctx.obligation(f"crash-table correspondence [{kind}] {sc.name} (second crash)", False,
                                           f"first crash before effect {k1}, rescuer dies after {r['effects2'][-3:]} leaving {r['pre_status2']}/{r['queued2']}: model says "
                                           f"{'recoverable' if prot else 'NOT recoverable'}, real run ended {r['final']} with {r['done']} completion(s)")
                        if not r["recovered"]:
                            last2 = r["effects2"][-1] if r["effects2"] else "start"
                            sig = stranded_sig.get((last2, _cls(r["pre_status2"]), r["queued2"]), f"crash2:{sc.name}:after:{last2}:{r['pre_status2']}:{r['queued2']}")
                            ctx.report(sig, f"[{kind}] {sc.name}: the acting process dies before its effect {k1}; the runner that comes to the rescue dies in turn after "
                                            f"{r['effects2'][-2:] or 'nothing'}, leaving the invocation {r['pre_status2']} with {r['queued2']} queued copies; with a third runner it ends "
                                            f"{r['final']} (body completed {r['done']}x): an accepted invocation is stranded",
                                       {"backend": kind, "role": sc.name, "crash_before_effect": k1, "second_crash_before_effect": k2, "rescuer_effects": r["effects2"],
                                        "status_at_second_crash": r["pre_status2"], "queued": r["queued2"], "final_status": r["final"]})
                        k2 += 1
        recovery_run_is_the_victim(ctx, clock)
        graceful_stop_at_the_wrong_moment(ctx)
        worker_loop_consumption(ctx)
        lazy_poll_meets_its_own_requeue(ctx)
        ctx.obligation(f"crash-point table: Lean classification == outcome of the real crash replay on Mem and SQLite ({points} points)", nd == 0, f"{nd} disagreements")
    finally:
        hook.uninstall()
        clock.uninstall()
        drv.close()
    ctx.notes["crash_points"] = points
    ctx.notes["commit_level_crash_points_sqlite"] = commit_points
    ctx.notes["double_crash_points"] = double_points
    ctx.assumptions += [
        "a hard crash is modelled by parking the acting thread for ever between two backend effects (no finally block runs) and, on SQLite, right after every transaction the acting thread commits; a crash inside one SQL transaction (rolled back by SQLite) or inside one in-memory dict update is not explored",
        "liveness needs a live runner, the recovery services running, fair scheduling and terminating bodies (hypotheses of recoverable_leads_to_final)",
        "client roles: a call is accepted only when it returns, so crash points inside it are outside the property; their programs are pinned by table_client",
    ]
    if not ctx.quick:
        thorough_rebuild(ctx)


def replay(data: dict) -> int:
    from harness.common import replay_by_rerun

    return replay_by_rerun("C03", run, data)
