"""C18 — workflow operations replay deterministically and never mix between workflows.

Lean: Props/C18.lean over Model/Workflow.lean (model of the code after `fix:` c67f76b; every backend access is
      one atomic micro-step; histories = arbitrary lists of start / access / stop events):
      `nth_value_stable`, `nth_random_uuid_any_schedule`, `time_values_follow_recorded_base`,
      `counter_is_occurrence`, `execute_task_same_invocation`, `execute_task_once`, `workflows_disjoint`,
      `results_independent_of_other_workflows`, `uninterrupted_operation_is_atomic`; boundary witnesses
      `same_workflow_race_*`, `crash_between_launch_and_record_relaunches`; refutation of the old design
      `old_design_counters_continue`, `old_design_mixes_workflows`.
Tie:  differential through REAL task bodies (harness/tasks.py `wf_script` / `wf_child`, performing generated
      operation scripts through their own `task.wf` helper).  Every access the real code makes to the three public
      entry points of a deterministic operation (`state_backend.get_workflow_data`, `set_workflow_data`,
      `orchestrator.route_call`) is logged by instance wrappers (harness/c18_probe.py) and replayed access by
      access on the Lean driver (`wf.micro`): kind, key, hit-or-miss, stored value, value returned to the body; at
      the end the full workflow-data read-out per workflow id and the launches per workflow are compared with the
      model.  Generated values are compared as equality patterns (a bijection between the model's abstract
      generator terms g(w, op, s) and the real floats / uuids is maintained per scenario), timestamps exactly
      (controlled clock), invocation ids by order of launch.  Families, on both state backends unless said:
        direct    k attempts in one process (same `DistributedInvocation` re-fetched, or the same object re-run),
                  partial attempts, several workflows interleaved body by body, children inheriting the workflow
        retry     real retries (`max_retries`, body raises a retriable exception) pulled by `get_invocations_to_run`
        fresh     attempts in fresh interpreters (subprocess on the same SQLite file) mixed with in-process ones
        coop      executions in real threads under a cooperative scheduler that grants ONE backend access at a
                  time: random interleavings access by access across workflows, operation by operation inside a
                  workflow, hard stops at random accesses (outside the launch window)
        threads   free-running threads, one workflow each, several rounds
        sync      `dev_mode_force_sync_tasks`: the wf helper raises NotImplementedError (recorded, no value exists)
      Out of the property's quantifier, replayed for the record (evidence notes, tie still compared):
        race-time / race-launch  two executions of ONE workflow inside the same operation (get-then-set window)
        crash-window             a stop between launching a sub-task and recording it
Search: an oracle that knows nothing of the model judges every scenario from the bodies' own logs and public
      read-outs: n-th value equal across all executions of a workflow; one launched invocation per (workflow,
      call) and it is an invocation of that call; every access of an execution goes to its own workflow; records of
      other workflows unchanged while one executes; values recorded under the own workflow id; no value shared
      between workflows.  What it flags is a concrete scenario (scripts + plan / schedule) written to the replay file.
"""
from __future__ import annotations

import json
import os
import subprocess
import sys
import threading
from collections import Counter, defaultdict
from typing import Any

from harness import c18_probe as P
from harness.apps import inject_status, make_app, rctx
from harness.common import Ctx, LeanDriver, lean_stage, thorough_rebuild

THEOREMS = [
    "counter_is_occurrence", "random_uuid_closed_form", "nth_random_uuid_any_schedule",
    "time_values_follow_recorded_base", "nth_value_stable", "execute_task_same_invocation", "execute_task_once",
    "workflows_disjoint", "results_independent_of_other_workflows", "uninterrupted_operation_is_atomic",
    "same_workflow_race_time_differs", "same_workflow_race_launches_twice",
    "crash_between_launch_and_record_relaunches", "old_design_counters_continue", "old_design_mixes_workflows",
    "old_design_fresh_process_replays", "new_design_same_histories",
    # Props/C18Fault.lean: transient read faults of the workflow records (shape of _deterministic_operation read by translate/detop.py)
    "exec_code", "nth_value_is_the_final_record", "executions_agree", "retry_after_counting_shifts_the_values", "code_counts_once_then_looks_up",
]

ACCESS = ("get", "set", "launch")
KIND = {"r": "random", "u": "uuid", "t": "time"}
_serial = [0]


# ------------------------------------------------------------------------------------------------
# environment of one scenario
# ------------------------------------------------------------------------------------------------

class Env:
    def __init__(self, tmp: str, backend: str, max_retries: int = 0, **conf: Any):
        _serial[0] += 1
        self.backend = backend
        self.tmp = tmp
        self.app_id = f"c18{backend[0]}{os.getpid()}x{_serial[0]}"
        self.db = os.path.join(tmp, f"{self.app_id}.db")
        self.max_retries = max_retries
        self.app = make_app(backend, tmp, self.app_id, db=self.db if backend == "sqlite" else None, **conf)
        P.install(self.app)
        self.t, self.c = P.register_tasks(self.app, max_retries)
        self.tops: list[Any] = []
        self.children: dict[str, list] = {}
        self.trace: list[tuple] = []
        self.mark = len(P.TRACE)
        self.call_of_key: dict[str, str] = {}
        self.uid_off = 0
        self.notes: dict[str, Any] = {}

    # -- scenario material ---------------------------------------------------------------------
    def set_children(self, children: dict[str, list]) -> None:
        from pynenc.arguments import Arguments
        from pynenc.call import Call

        self.children = children
        for key, script in children.items():
            call = Call(task=self.c, arguments=Arguments.from_call(self.c.func, self.app_id, key, list(script)))
            self.call_of_key[key] = str(call.call_id)

    def new_top(self, script: list, fail_after: list | None = None) -> Any:
        inv = self.t(self.app_id, f"W{len(self.tops)}", script, fail_after)
        self.tops.append(inv)
        return inv

    def collect(self) -> None:
        self.trace += P.TRACE[self.mark:]
        self.mark = len(P.TRACE)

    def launched(self, wf_id: str, key: str) -> str | None:
        cid = self.call_of_key.get(key)
        for ev in self.trace:
            if ev[0] == "launch" and ev[2] == wf_id and ev[3] == cid:
                return ev[4]
        return None

    def close(self) -> None:
        self.collect()
        try:
            if hasattr(self.app.state_backend, "wait_for_all_async_operations"):
                self.app.state_backend.wait_for_all_async_operations()
        except Exception:  # noqa: BLE001
            pass


def run_inline(env: Env, inv_id: str, tag: str, limit: int | None, obj: Any = None) -> Any:
    """One execution of the body of `inv_id` in this thread as runner r1 (status forced back to PENDING)."""
    from pynenc.invocation.status import InvocationStatus as S

    if limit is None:
        P.LIMIT.pop(tag, None)
    else:
        P.LIMIT[tag] = limit
    inject_status(env.app, inv_id, S.PENDING, "r1", 0)
    inv = obj if obj is not None else env.app.state_backend.get_invocation(inv_id)
    try:
        inv.run(rctx("r1"))
    except P.RetryScript:
        pass
    except Exception as e:  # noqa: BLE001
        env.notes.setdefault("body_errors", []).append(f"{type(e).__name__}: {str(e)[:120]}")
    finally:
        P.LIMIT.pop(tag, None)
    env.collect()
    return inv


# ------------------------------------------------------------------------------------------------
# cooperative scheduler: one backend access at a time
# ------------------------------------------------------------------------------------------------

class Handle:
    def __init__(self, name: str, fn) -> None:  # type: ignore[no-untyped-def]
        self.name = name
        self.fn = fn
        self.go = threading.Semaphore(0)
        self.ready = threading.Semaphore(0)
        self.done = False
        self.abort = False
        self.exc: BaseException | None = None
        self.uid: int | None = None

    def point(self, kind: str) -> None:
        self.uid = P.cur()
        self.ready.release()
        if not self.go.acquire(timeout=120):
            raise P.Abort()
        if self.abort:
            raise P.Abort()

    def _main(self) -> None:
        P._local.handle = self
        try:
            self.fn()
        except BaseException as e:  # noqa: BLE001
            self.exc = e
        finally:
            P._local.handle = None
            self.done = True
            self.ready.release()

    def start(self) -> None:
        threading.Thread(target=self._main, daemon=True).start()
        self._wait()

    def _wait(self) -> None:
        if not self.ready.acquire(timeout=120):
            raise RuntimeError(f"execution {self.name} did not reach its next backend access")

    def step(self) -> None:
        self.go.release()
        self._wait()

    def kill(self) -> None:
        self.abort = True
        self.go.release()
        self._wait()


def last_event(trace: list[tuple], uid: int | None) -> str | None:
    if uid is None:
        return None
    for ev in reversed(trace):
        if ev[1] == uid and ev[0] in ("begin", "ret") + ACCESS:
            return ev[0]
    return None


# ------------------------------------------------------------------------------------------------
# model replay of a trace (the tie)
# ------------------------------------------------------------------------------------------------

class Tie:
    """Accumulates disagreements between the real traces and the Lean model, per class and backend."""

    def __init__(self) -> None:
        self.mis: dict[tuple[str, str], list] = defaultdict(list)
        self.n: Counter = Counter()

    def bad(self, cls: str, backend: str, detail: Any) -> None:
        if len(self.mis[(cls, backend)]) < 5:
            self.mis[(cls, backend)].append(detail)
        else:
            self.mis[(cls, backend)].append(None)


class Canon:
    def __init__(self, env: Env) -> None:
        self.env = env
        self.wf_idx: dict[str, int] = {}
        self.call_idx: dict[str, int] = {}
        self.key_idx: dict[str, int] = {}
        for i, (key, cid) in enumerate(env.call_of_key.items()):
            self.call_idx[cid] = i + 1
            self.key_idx[key] = i + 1
        self.inv_idx: dict[str, int] = {}
        self.sym2real: dict[str, Any] = {}
        self.real2sym: dict[Any, str] = {}
        self.collisions: Counter = Counter()

    def wf(self, wf_id: str) -> int:
        if wf_id not in self.wf_idx:
            self.wf_idx[wf_id] = len(self.wf_idx) + 1
        return self.wf_idx[wf_id]

    def key(self, k: str) -> str:
        if k.startswith("task_invocation:"):
            c = self.call_idx.get(k[len("task_invocation:"):])
            return f"task_invocation:{c if c is not None else '?'}"
        return k

    def stored(self, k: str, vr: str) -> tuple:
        """normalise a stored value by the kind of its key"""
        if k.startswith("random:"):
            return ("random", vr[2:]) if vr.startswith("r:") else ("other", vr)
        if k.startswith("uuid:"):
            return ("uuid", vr[2:]) if vr.startswith("s:") else ("other", vr)
        if k.startswith("time:") or k == "workflow:base_time":
            return ("time", P.secs(vr[2:])) if vr.startswith("s:") else ("other", vr)
        if k.startswith("counter:"):
            return ("count", int(vr[2:])) if vr.startswith("n:") else ("other", vr)
        if k.startswith("task_invocation:"):
            return ("inv", self.inv_idx.get(vr[2:])) if vr.startswith("s:") else ("other", vr)
        return ("other", vr)

    def returned(self, vr: str) -> tuple:
        tag, body = vr[:2], vr[2:]
        if tag == "r:":
            return ("random", body)
        if tag == "u:":
            return ("uuid", body)
        if tag == "t:":
            return ("time", P.secs(body))
        if tag == "i:":
            return ("inv", self.inv_idx.get(body))
        return ("other", vr)

    def match(self, m: str, real: tuple) -> bool:
        kind, payload = real
        p = m.split(":")
        if p[0] == "g" and len(p) == 4:
            if p[2] != kind:
                return False
            r = self.sym2real.get(m)
            if r is None:
                other = self.real2sym.get((kind, payload))
                if other is not None and other != m:
                    self.collisions[kind] += 1
                    return kind == "random" and self.collisions[kind] < 2  # a 32-bit seed may collide once
                self.sym2real[m] = payload
                self.real2sym[(kind, payload)] = m
                return True
            return r == payload
        if p[0] == "t":
            return kind == "time" and payload == int(p[1])
        if p[0] == "c":
            return kind == "count" and payload == int(p[1])
        if p[0] == "i":
            return kind == "inv" and payload == int(p[1])
        return False


def exec_table(trace: list[tuple]) -> dict[int, dict]:
    ex: dict[int, dict] = {}
    for ev in trace:
        if ev[0] == "begin":
            ex[ev[1]] = {"uid": ev[1], "tag": ev[2], "inv": ev[3], "wf": ev[4], "attempt": ev[5], "ops": ev[6],
                         "rets": [], "acc": [], "end": None}
        elif ev[1] in ex:
            e = ex[ev[1]]
            if ev[0] == "ret":
                e["rets"].append((ev[2], ev[3]))
            elif ev[0] in ACCESS:
                e["acc"].append(ev)
            elif ev[0] in ("end", "kill"):
                e["end"] = ev[0] if ev[0] == "kill" else ev[2]
    return ex


def replay_on_model(ctx: Ctx, drv: LeanDriver, tie: Tie, env: Env, family: str) -> Canon:
    """Replays the scenario's trace access by access on the Lean model and compares."""
    cn = Canon(env)
    tr = env.trace
    b = env.backend
    # launches get their model id in order of appearance
    for ev in tr:
        if ev[0] == "launch" and ev[4] not in cn.inv_idx:
            cn.inv_idx[ev[4]] = 100 + len(cn.inv_idx)
    pos: dict[int, list[int]] = defaultdict(list)
    for j, ev in enumerate(tr):
        if ev[1] is not None:
            pos[ev[1]].append(j)
    nxt: dict[int, int | None] = {}
    for u, js in pos.items():
        for a, j in enumerate(js):
            nxt[j] = js[a + 1] if a + 1 < len(js) else None
    lines: list[str] = []
    exp: list[tuple] = []
    who: dict[int, tuple[int, int]] = {}
    attempts: Counter = Counter()
    wf_of: dict[int, str] = {}
    for j, ev in enumerate(tr):
        k = ev[0]
        if k == "begin":
            if ev[4] is None:
                continue
            w = cn.wf(ev[4])
            a = attempts[w]
            attempts[w] += 1
            who[ev[1]] = (w, a)
            wf_of[ev[1]] = ev[4]
            ops = []
            for o in ev[6]:
                if o in ("r", "u", "t"):
                    ops.append(o)
                else:
                    ops.append(f"s{cn.key_idx.get(o[1:], 0)}")
            lines.append(f"wf.start {w} {a} " + " ".join(ops))
            exp.append(("ok",))
        elif k in ACCESS and ev[1] in who:
            w, a = who[ev[1]]
            now, ret = 0, None
            jj = nxt.get(j)
            while jj is not None and tr[jj][0] not in ACCESS + ("kill", "end"):
                if tr[jj][0] == "now":
                    now = tr[jj][2] * P.TICK_S
                elif tr[jj][0] == "ret":
                    ret = tr[jj][3]
                jj = nxt.get(jj)
            fresh = cn.inv_idx.get(ev[4], 0) if k == "launch" else 0
            lines.append(f"wf.micro {w} {a} {now} {fresh}")
            exp.append(("acc", ev, ret, wf_of[ev[1]]))
        elif k == "kill" and ev[1] in who:
            w, a = who[ev[1]]
            lines.append(f"wf.kill {w} {a}")
            exp.append(("ok",))
    outs = drv.ask_many(["wf.reset"] + lines)[1:]
    for ln, e, o in zip(lines, exp, outs):
        tie.n["steps"] += 1
        if e[0] == "ok":
            if o != "ok":
                tie.bad("access", b, {"line": ln, "model": o, "impl": "ok", "family": family})
            continue
        _, ev, ret, own = e
        tk = o.split()
        kind = ev[0]
        if ev[2] != own:
            tie.bad("access", b, {"line": ln, "model": o, "impl": f"{kind} on workflow {ev[2][:8]} by an execution of {own[:8]}", "family": family})
            continue
        ok = True
        if kind == "get":
            hit = "miss" if ev[4] == "none" else "hit"
            ok = len(tk) >= 3 and tk[0] == "get" and tk[1] == cn.key(ev[3]) and tk[2] == hit
            rest = tk[3:]
        elif kind == "set":
            ok = len(tk) >= 3 and tk[0] == "set" and tk[1] == cn.key(ev[3])
            if ok and not cn.match(tk[2], cn.stored(ev[3], ev[4])):
                tie.bad("stored", b, {"line": ln, "model": o, "impl": list(ev), "family": family})
            rest = tk[3:]
        else:
            ok = len(tk) >= 3 and tk[0] == "launch" and tk[1] == str(cn.call_idx.get(ev[3], "?")) and tk[2] == str(cn.inv_idx.get(ev[4]))
            rest = tk[3:]
        if not ok:
            tie.bad("access", b, {"line": ln, "model": o, "impl": list(ev), "family": family})
            continue
        ctx.count()
        if ret is None and rest:
            tie.bad("returned", b, {"line": ln, "model": o, "impl": "operation did not return here", "family": family})
        elif ret is not None:
            tie.n["returns"] += 1
            if len(rest) != 2 or rest[0] != "ret" or not cn.match(rest[1], cn.returned(ret)):
                tie.bad("returned", b, {"line": ln, "model": o, "impl": ret, "family": family})
    return cn


# ------------------------------------------------------------------------------------------------
# read-outs through public calls (+ the raw key sets)
# ------------------------------------------------------------------------------------------------

def raw_keys(env: Env) -> dict[str, set[str]] | None:
    """Key sets per workflow id, read from the backend's own storage (only to learn WHICH keys exist)."""
    sb = env.app.state_backend
    try:
        if hasattr(sb, "_workflow_data"):
            return {str(w): set(d.keys()) for w, d in sb._workflow_data.items() if d}
        from pynenc.util.sqlite_utils import create_sqlite_connection

        out: dict[str, set[str]] = defaultdict(set)
        with create_sqlite_connection(sb.sqlite_db_path) as conn:
            for w, k in conn.execute(f"SELECT workflow_id, data_key FROM {sb.tables.WORKFLOW_DATA}").fetchall():
                out[str(w)].add(k)
        return dict(out)
    except Exception:  # noqa: BLE001
        return None


def identities(env: Env) -> dict[str, Any]:
    return {str(i.workflow.workflow_id): i.workflow for i in env.tops}


def readout(env: Env, ident: Any, keys: set[str]) -> dict[str, str]:
    sb = env.app.state_backend
    out = {}
    for k in sorted(keys):
        v = sb.get_workflow_data(ident, k)
        if v is not None:
            out[k] = P.vrepr(v)
    return out


def universe(ops_seen: int, calls: list[str]) -> set[str]:
    ks = {"workflow:base_time"}
    for op in ("random", "uuid", "time"):
        ks.add(f"counter:{op}")
        for n in range(0, ops_seen + 3):
            ks.add(f"{op}:{n}")
    for c in calls:
        ks.add(f"task_invocation:{c}")
    return ks


def real_launches(env: Env) -> list[tuple[str, str, str]]:
    """(workflow id, call id, invocation id) of every existing invocation of the child task — public enumeration."""
    out = []
    for iid in env.app.orchestrator.get_task_invocation_ids(env.c.task_id):
        inv = env.app.state_backend.get_invocation(iid)
        out.append((str(inv.workflow.workflow_id), str(inv.call.call_id), str(iid)))
    return out


def compare_final(ctx: Ctx, drv: LeanDriver, tie: Tie, env: Env, cn: Canon, family: str) -> None:
    b = env.backend
    ids = identities(env)
    raw = raw_keys(env)
    if raw is None:
        ctx.notes["raw_key_listing"] = "unavailable: key universe used instead"
    maxops = max([len(e["ops"]) for e in exec_table(env.trace).values()] + [0])
    uni = universe(maxops, list(env.call_of_key.values()))
    if raw is not None:
        for w in raw:
            if w not in ids:
                tie.bad("readout", b, {"family": family, "impl": f"records under an id that is no workflow of the scenario: {w[:8]} {sorted(raw[w])[:4]}"})
    rl = real_launches(env)
    rkey = {f"task_invocation:{c}": f"task_invocation:{cid}" for cid, c in cn.call_idx.items()}
    for w, ident in ids.items():
        if w not in cn.wf_idx:
            if raw is not None and raw.get(w):
                tie.bad("readout", b, {"family": family, "impl": f"workflow {w[:8]} never executed but has records {sorted(raw[w])[:4]}"})
            continue
        wi = cn.wf_idx[w]
        md, ml = drv.ask_many([f"wf.dump {wi}", f"wf.launches {wi}"])
        model = dict(t.split("=", 1) for t in md.split())
        if raw is not None:  # the keys that exist + the keys the model says exist
            keys = set(raw.get(w, set())) | {rkey.get(k, k) for k in model}
        else:
            keys = set(uni)
        real = readout(env, ident, keys)
        rc = {cn.key(k): (k, v) for k, v in real.items()}
        tie.n["readouts"] += 1
        if set(rc) != set(model):
            tie.bad("readout", b, {"family": family, "workflow": wi, "only_model": sorted(set(model) - set(rc))[:5],
                                   "only_impl": sorted(set(rc) - set(model))[:5]})
        for ck, (k, v) in rc.items():
            if ck in model:
                ctx.count()
                if not cn.match(model[ck], cn.stored(k, v)):
                    tie.bad("readout", b, {"family": family, "workflow": wi, "key": ck, "model": model[ck], "impl": v})
        mlaunch = sorted(ml.split())
        rlaunch = sorted(f"{cn.call_idx.get(c, '?')}:{cn.inv_idx.get(i, '?')}" for (ww, c, i) in rl if ww == w)
        if mlaunch != rlaunch:
            tie.bad("launches", b, {"family": family, "workflow": wi, "model": mlaunch, "impl": rlaunch})


# ------------------------------------------------------------------------------------------------
# the oracle (independent of the Lean model)
# ------------------------------------------------------------------------------------------------

def nth_table(ex: dict[int, dict]) -> dict[tuple, dict[str, list]]:
    """(workflow, kind, n) -> value -> executions that were given it"""
    tab: dict[tuple, dict[str, list]] = defaultdict(lambda: defaultdict(list))
    for e in ex.values():
        if e["wf"] is None:
            continue
        seen: Counter = Counter()
        for i, op in enumerate(e["ops"]):
            kind = KIND.get(op, "sub:" + op[1:])
            seen[kind] += 1
            for (ri, v) in e["rets"]:
                if ri == i:
                    n = seen[kind] if kind in ("random", "uuid", "time") else 0
                    tab[(e["wf"], kind, n)][v].append(f"{e['tag']}#{e['uid']}")
    return tab


def oracle(ctx: Ctx, env: Env, spec: dict, family: str, in_scope: bool = True) -> list[tuple[str, str]]:
    """Judges one finished scenario; returns (signature, description) of what contradicts the property."""
    out: list[tuple[str, str]] = []
    ex = exec_table(env.trace)
    tab = nth_table(ex)
    # 1. n-th value equal across executions of one workflow
    for (w, kind, n), vals in sorted(tab.items()):
        if len(vals) > 1:
            if kind.startswith("sub:"):
                out.append((f"sub-invocation-differs:{family}",
                            f"execute_task for call {kind[4:]} of workflow {w[:8]} returned different invocations to different executions: "
                            + "; ".join(f"{v[2:10]} to {who}" for v, who in vals.items())))
            else:
                out.append((f"nth-{kind}-differs:{family}",
                            f"{kind} #{n} of workflow {w[:8]} differs between executions: "
                            + "; ".join(f"{v} to {who}" for v, who in list(vals.items())[:3])))
    # 2. one launch per (workflow, call); the returned invocation is an invocation of that call
    rl = real_launches(env)
    per: dict[tuple[str, str], list[str]] = defaultdict(list)
    for (w, c, i) in rl:
        per[(w, c)].append(i)
    for (w, c), invs in sorted(per.items()):
        if len(invs) > 1:
            key = next((k for k, cid in env.call_of_key.items() if cid == c), "?")
            out.append((f"sub-launched-twice:{family}",
                        f"{len(invs)} invocations of call {key} exist in workflow {w[:8]} (launched through wf.execute_task)"))
    call_of_inv = {i: c for (_, c, i) in rl}
    for (w, kind, n), vals in tab.items():
        if kind.startswith("sub:"):
            want = env.call_of_key.get(kind[4:])
            for v in vals:
                got = call_of_inv.get(v[2:])
                if got != want:
                    out.append((f"sub-wrong-invocation:{family}",
                                f"execute_task for call {kind[4:]} in workflow {w[:8]} returned invocation {v[2:10]} which is "
                                + ("not an invocation of the sub task" if got is None else "an invocation of a different call")))
    # 3. every access of an execution goes to its own workflow
    for e in ex.values():
        for a in e["acc"]:
            if family == "reused" and a[0] == "launch":
                continue        # the invocation handed over was registered by somebody else: it carries ITS workflow, by design of the re-use
            if e["wf"] is not None and a[2] != e["wf"]:
                out.append((f"foreign-workflow-access:{family}",
                            f"the execution {e['tag']} of invocation {e['inv'][:8]} (workflow {e['wf'][:8]}) did `{a[0]} {a[3][:40]}` on workflow {a[2][:8]}"))
                break
    # 4. values recorded under the own workflow id (public read-out)
    ids = identities(env)
    sb = env.app.state_backend
    for (w, kind, n), vals in tab.items():
        if kind in ("random", "uuid", "time") and w in ids:
            rec = sb.get_workflow_data(ids[w], f"{kind}:{n}")
            recs = None if rec is None else (("r:" + float(rec).hex()) if kind == "random" and isinstance(rec, float)
                                             else (kind[0] + ":" + str(rec)))
            if recs not in vals:
                out.append((f"value-not-recorded-under-own-workflow:{family}",
                            f"{kind} #{n} given to executions of workflow {w[:8]} is {list(vals)[:2]} but the record {kind}:{n} of that workflow is {recs}"))
    # 5. no value shared between workflows
    owner: dict[str, set[str]] = defaultdict(set)
    for (w, kind, n), vals in tab.items():
        if kind in ("random", "uuid"):
            for v in vals:
                owner[v].add(w)
    shared = [v for v, ws in owner.items() if len(ws) > 1]
    if any(v.startswith("u:") for v in shared) or len(shared) >= 2:
        out.append((f"values-shared-between-workflows:{family}",
                    f"{len(shared)} generated values were given to executions of different workflows, e.g. {shared[0]}"))
    for b in env.notes.get("frame", []):
        out.append((f"foreign-records-changed:{family}", b))
    if in_scope:
        for sig, what in out:
            ctx.report(sig, f"[{env.backend}] {what}", {"spec": spec, "backend": env.backend, "found": what})
    return out


def snapshot_others(env: Env, me: str) -> dict[str, dict[str, str]]:
    """read-out of every workflow other than `me` (public gets over the raw / universe key sets)"""
    ids = identities(env)
    raw = raw_keys(env)
    uni = universe(8, list(env.call_of_key.values())) if raw is None else set()
    snap = {}
    for w, ident in ids.items():
        if w != me:
            snap[w] = readout(env, ident, (raw.get(w, set()) if raw is not None else set()) | uni)
    return snap


# ------------------------------------------------------------------------------------------------
# scenario generation
# ------------------------------------------------------------------------------------------------

def gen_children(rng) -> dict[str, list]:  # type: ignore[no-untyped-def]
    leaf = {"l0": [rng.choice("rut") for _ in range(rng.randint(0, 2))]}
    ch: dict[str, list] = {}
    for i in range(3):
        s: list = [rng.choice("rut") for _ in range(rng.randint(0, 3))]
        if rng.random() < 0.4:
            s.insert(rng.randint(0, len(s)), ["s", "l0", leaf["l0"]])
        ch[f"k{i}"] = s
    ch.update(leaf)
    return ch


def gen_script(rng, children: dict[str, list], lo: int, hi: int) -> list:  # type: ignore[no-untyped-def]
    s: list = []
    for _ in range(rng.randint(lo, hi)):
        x = rng.random()
        if x < 0.3:
            s.append("r")
        elif x < 0.5:
            s.append("u")
        elif x < 0.75:
            s.append("t")
        else:
            k = rng.choice(["k0", "k1", "k2", "l0"])
            s.append(["s", k, children[k]])
    return s


def sub_keys(script: list) -> list[str]:
    return [o[1] for o in script if not isinstance(o, str)]


def shape(spec: dict) -> str:
    def sh(s: list) -> str:
        return "".join(o if isinstance(o, str) else "s" for o in s)
    return json.dumps([spec["family"], [sh(s) for s in spec["scripts"]], spec.get("plan")], default=str)[:400]


# ------------------------------------------------------------------------------------------------
# families
# ------------------------------------------------------------------------------------------------

def fam_direct(ctx: Ctx, env: Env, spec: dict) -> None:
    """plan items: ["top", wi, limit|None, same_object?] | ["child" | "child-fail", wi, key]"""
    env.set_children(spec["children"])
    for s in spec["scripts"]:
        env.new_top(s)
    objs: dict[int, Any] = {}
    for item in spec["plan"]:
        if item[0] == "top":
            inv = env.tops[item[1]]
            me = str(inv.workflow.workflow_id)
            before = snapshot_others(env, me) if spec.get("frame") else None
            obj = objs.get(item[1]) if len(item) > 3 and item[3] else None
            objs[item[1]] = run_inline(env, str(inv.invocation_id), f"W{item[1]}", item[2], obj)
            if before is not None and snapshot_others(env, me) != before:
                env.notes.setdefault("frame", []).append(
                    f"records of another workflow changed while only workflow {me[:8]} (W{item[1]}) executed")
        else:
            inv = env.tops[item[1]]
            cid = env.launched(str(inv.workflow.workflow_id), item[2])
            if cid is not None:
                # "child-fail": the sub-task raises at once and ends FAILED - later executions of the caller still get
                # this recorded invocation back (the launch record does not depend on how the sub-task fared)
                run_inline(env, cid, item[2], 0 if item[0] == "child-fail" else None)


def gen_direct(rng, quick: bool) -> dict:  # type: ignore[no-untyped-def]
    ch = gen_children(rng)
    nw = rng.randint(1, 3)
    scripts = [gen_script(rng, ch, 1, 6) for _ in range(nw)]
    plan: list = []
    for wi in range(nw):
        n_att = rng.randint(2, 4)
        for a in range(n_att):
            lim = rng.randint(0, len(scripts[wi])) if (a < n_att - 1 and rng.random() < 0.5) else None
            plan.append(["top", wi, lim, rng.random() < 0.3])
        for k in set(sub_keys(scripts[wi])):
            if rng.random() < 0.6:
                plan.append(["child-fail" if rng.random() < 0.35 else "child", wi, k])
    rng.shuffle(plan)
    # a child can only run after some attempt of its parent: keep it, it is skipped when not launched yet
    return {"family": "direct", "children": ch, "scripts": scripts, "plan": plan, "frame": rng.random() < 0.5}


def fam_retry(ctx: Ctx, env: Env, spec: dict) -> None:
    """real retries: the body raises a retriable exception; invocations are pulled with get_invocations_to_run"""
    env.set_children(spec["children"])
    for s, fa in zip(spec["scripts"], spec["fail_after"]):
        env.new_top(s, fa)
    r = rctx("r1")
    for _ in range(40):
        got = list(env.app.orchestrator.get_invocations_to_run(spec.get("batch", 2), r))
        if not got:
            break
        for inv in got:
            try:
                inv.run(r)
            except P.RetryScript:
                pass
            except Exception as e:  # noqa: BLE001
                env.notes.setdefault("body_errors", []).append(f"{type(e).__name__}: {str(e)[:120]}")
            env.collect()
    env.notes["final_status"] = [str(env.app.orchestrator.get_invocation_status(i.invocation_id)) for i in env.tops]
    env.notes["retries"] = [env.app.orchestrator.get_invocation_retries(i.invocation_id) for i in env.tops]


def gen_retry(rng, quick: bool) -> dict:  # type: ignore[no-untyped-def]
    ch = gen_children(rng)
    nw = rng.randint(1, 3)
    scripts = [gen_script(rng, ch, 1, 6) for _ in range(nw)]
    fa = [[rng.randint(0, len(s)) for _ in range(rng.randint(0, 2))] for s in scripts]
    return {"family": "retry", "children": ch, "scripts": scripts, "fail_after": fa, "batch": rng.randint(1, 3)}


def run_child_process(env: Env, inv_id: str, tag: str, limit: int | None) -> dict:
    arg = {"db": env.db, "tmp": env.tmp, "app_id": env.app_id, "inv_id": inv_id, "tag": tag, "limit": limit,
           "tick": P.CLOCK.tick + 1000 * (_serial[0] % 1000 + 1), "max_retries": env.max_retries}
    envv = dict(os.environ)
    envv["PYTHONPATH"] = os.pathsep.join(p for p in sys.path if p)
    p = subprocess.run([sys.executable, "-m", "harness.c18_child", json.dumps(arg)], capture_output=True, text=True,
                       env=envv, timeout=120)
    if p.returncode != 0 or not p.stdout.strip():
        raise RuntimeError("fresh interpreter failed: " + (p.stderr or p.stdout)[-400:])
    data = json.loads(p.stdout.strip().splitlines()[-1])
    env.uid_off += 1_000_000
    for ev in data["trace"]:
        ev = list(ev)
        if ev[1] is not None:
            ev[1] += env.uid_off
        env.trace.append(tuple(ev))
    return data


def fam_fresh(ctx: Ctx, env: Env, spec: dict) -> None:
    """plan items: ["here"|"fresh", wi, limit|None] | ["child-here"|"child-fresh", wi, key]"""
    env.set_children(spec["children"])
    for s in spec["scripts"]:
        env.new_top(s)
    for item in spec["plan"]:
        inv = env.tops[item[1]]
        if item[0] in ("here", "fresh"):
            iid, tag, lim = str(inv.invocation_id), f"W{item[1]}", item[2]
        else:
            iid, tag, lim = env.launched(str(inv.workflow.workflow_id), item[2]), item[2], None
            if iid is None:
                continue
        if item[0].endswith("here"):
            run_inline(env, iid, tag, lim)
        else:
            env.collect()
            d = run_child_process(env, iid, tag, lim)
            env.notes["child_pynenc"] = d.get("pynenc")
            if not d.get("clock"):
                env.notes["child_clock"] = "not patched"


def gen_fresh(rng, quick: bool) -> dict:  # type: ignore[no-untyped-def]
    ch = gen_children(rng)
    nw = rng.randint(1, 2)
    scripts = [gen_script(rng, ch, 2, 6) for _ in range(nw)]
    plan: list = []
    for wi in range(nw):
        lim = rng.randint(1, len(scripts[wi])) if rng.random() < 0.5 else None
        plan.append([rng.choice(["here", "fresh"]), wi, lim])
        plan.append(["fresh", wi, None])
        ks = sorted(set(sub_keys(scripts[wi])))
        if ks and rng.random() < 0.5:
            plan.append([rng.choice(["child-here", "child-fresh"]), wi, rng.choice(ks)])
        plan.append(["here", wi, None])
    return {"family": "fresh", "children": ch, "scripts": scripts, "plan": plan}


class CoopRun:
    """executions in real threads, one backend access granted at a time"""

    def __init__(self, env: Env):
        self.env = env
        self.h: dict[str, Handle] = {}
        self.wf: dict[str, str] = {}
        self.inv: dict[str, str] = {}

    def start(self, name: str, inv_id: str, wf_id: str, tag: str, limit: int | None) -> None:
        from pynenc.invocation.status import InvocationStatus as S

        env = self.env
        if limit is None:
            P.LIMIT.pop(tag, None)
        else:
            P.LIMIT[tag] = limit
        inject_status(env.app, inv_id, S.PENDING, "r1", 0)
        inv = env.app.state_backend.get_invocation(inv_id)

        def body() -> None:
            try:
                inv.run(rctx("r1"))
            except P.RetryScript:
                pass

        h = Handle(name, body)
        self.h[name], self.wf[name], self.inv[name] = h, wf_id, inv_id
        h.start()
        P.LIMIT.pop(tag, None)
        env.collect()

    def live(self) -> list[str]:
        return [n for n, h in self.h.items() if not h.done]

    def mid(self, name: str) -> bool:
        h = self.h[name]
        return (not h.done) and last_event(self.env.trace, h.uid) in ACCESS

    def enabled(self, name: str) -> bool:
        return not any(self.mid(o) for o in self.live() if o != name and self.wf[o] == self.wf[name])

    def in_launch_window(self, name: str) -> bool:
        return last_event(self.env.trace, self.h[name].uid) == "launch"

    def step(self, name: str) -> None:
        self.h[name].step()
        self.env.collect()

    def kill(self, name: str) -> None:
        self.h[name].kill()
        self.env.collect()

    def finish(self) -> None:
        for n in self.live():
            for _ in range(400):
                if self.h[n].done:
                    break
                self.h[n].step()
        self.env.collect()
        for n, h in self.h.items():
            if h.exc is not None and not isinstance(h.exc, (P.Abort, P.RetryScript)):
                self.env.notes.setdefault("body_errors", []).append(f"{n}: {type(h.exc).__name__}: {str(h.exc)[:100]}")


def fam_coop(ctx: Ctx, env: Env, spec: dict) -> None:
    """items: ["top", wi, limit] | ["child", wi, key]; started in order, each as soon as the scheduler draws
    "start" and its invocation has no running execution; schedule = list of ["s", name] / ["k", name] / ["b", item_no].
    A recorded schedule (replay) is followed literally; otherwise it is drawn from ctx.rng and recorded."""
    env.set_children(spec["children"])
    for s in spec["scripts"]:
        env.new_top(s)
    run = CoopRun(env)
    items = list(spec["items"])
    recorded = spec.get("schedule")
    sched: list = []
    serial = spec.get("serial", True)
    rng = ctx.rng

    def begin(no: int) -> bool:
        it = items[no]
        top = env.tops[it[1]]
        wf_id = str(top.workflow.workflow_id)
        if it[0] == "top":
            iid, tag, lim = str(top.invocation_id), f"W{it[1]}", it[2]
        else:
            iid, tag, lim = env.launched(wf_id, it[2]), it[2], None
            if iid is None:
                return False
        if any(run.inv[n] == iid for n in run.live()):
            return False
        run.start(f"x{no}", iid, wf_id, tag, lim)
        return True

    if recorded is not None:
        for act in recorded:
            if act[0] == "b":
                begin(act[1])
            elif act[1] in run.h and not run.h[act[1]].done:
                (run.step if act[0] == "s" else run.kill)(act[1])
        run.finish()
        spec["schedule"] = recorded
        return
    queue: list[list[int]] = [[no, 0] for no in range(len(items))]
    for _ in range(spec.get("max_steps", 500)):
        live = run.live()
        can = [n for n in live if (run.enabled(n) if serial else True)]
        if queue and (not can or rng.random() < 0.25):
            no, tries = queue.pop(0)
            if begin(no):
                sched.append(["b", no])
            elif tries < 4 and live:
                queue.append([no, tries + 1])
            continue
        if not can:
            break
        n = rng.choice(can)
        if rng.random() < spec.get("kill_p", 0.0) and not run.in_launch_window(n):
            run.kill(n)
            sched.append(["k", n])
        else:
            run.step(n)
            sched.append(["s", n])
    run.finish()
    spec["schedule"] = sched


def gen_coop(rng, quick: bool) -> dict:  # type: ignore[no-untyped-def]
    ch = gen_children(rng)
    nw = rng.randint(2, 3)
    scripts = [gen_script(rng, ch, 1, 5) for _ in range(nw)]
    items: list = []
    for wi in range(nw):
        items.append(["top", wi, rng.randint(1, len(scripts[wi])) if rng.random() < 0.3 else None])
    for wi in range(nw):
        for k in sorted(set(sub_keys(scripts[wi]))):
            if rng.random() < 0.7:
                items.append(["child", wi, k])
        items.append(["top", wi, None])
        if rng.random() < 0.5:
            items.append(["top", wi, None])
    head, tail = items[:nw], items[nw:]
    rng.shuffle(tail)
    return {"family": "coop", "children": ch, "scripts": scripts, "items": head + tail, "serial": True,
            "kill_p": rng.choice([0.0, 0.03, 0.08]), "schedule": None}


def fam_threads(ctx: Ctx, env: Env, spec: dict) -> None:
    """free-running threads: round r runs one execution per workflow, all at once"""
    from pynenc.invocation.status import InvocationStatus as S

    env.set_children(spec["children"])
    for s in spec["scripts"]:
        env.new_top(s)
    old = sys.getswitchinterval()
    sys.setswitchinterval(1e-5)
    try:
        for rnd in spec["rounds"]:
            bar = threading.Barrier(len(env.tops))
            ths = []
            for wi, inv in enumerate(env.tops):
                lim = rnd[wi]
                tag = f"W{wi}"
                if lim is not None:
                    P.LIMIT[tag] = lim
                else:
                    P.LIMIT.pop(tag, None)
                inject_status(env.app, str(inv.invocation_id), S.PENDING, "r1", 0)
                obj = env.app.state_backend.get_invocation(inv.invocation_id)

                def body(obj=obj) -> None:  # type: ignore[no-untyped-def]
                    bar.wait(timeout=60)
                    try:
                        obj.run(rctx("r1"))
                    except P.RetryScript:
                        pass
                    except Exception as e:  # noqa: BLE001
                        env.notes.setdefault("body_errors", []).append(f"{type(e).__name__}: {str(e)[:100]}")

                th = threading.Thread(target=body, daemon=True)
                ths.append(th)
            for th in ths:
                th.start()
            for th in ths:
                th.join(timeout=120)
            for wi in range(len(env.tops)):
                P.LIMIT.pop(f"W{wi}", None)
            env.collect()
    finally:
        sys.setswitchinterval(old)


def gen_threads(rng, quick: bool) -> dict:  # type: ignore[no-untyped-def]
    ch = gen_children(rng)
    nw = rng.randint(2, 4)
    scripts = [gen_script(rng, ch, 2, 6) for _ in range(nw)]
    rounds = []
    for r in range(rng.randint(2, 3)):
        rounds.append([(rng.randint(0, len(s)) if (r == 0 and rng.random() < 0.4) else None) for s in scripts])
    return {"family": "threads", "children": ch, "scripts": scripts, "rounds": rounds}


class ReadFault:
    """while armed, every SELECT on a workflow-data table fails with sqlite3.OperationalError (a busy / damaged database)"""

    def __init__(self) -> None:
        self.armed = False
        self.hits = 0

    def install(self) -> "ReadFault":
        import sqlite3
        from pynenc.util.sqlite_utils import SQLiteConnection as C

        self._real = C.execute
        me = self

        def execute(conn, sql, parameters=(), /):  # type: ignore[no-untyped-def]
            if me.armed and "workflow_data" in sql and sql.lstrip().upper().startswith("SELECT"):
                me.hits += 1
                raise sqlite3.OperationalError("disk I/O error")
            return me._real(conn, sql, parameters)

        C.execute = execute  # type: ignore[method-assign]
        return self

    def uninstall(self) -> None:
        from pynenc.util.sqlite_utils import SQLiteConnection as C

        C.execute = self._real  # type: ignore[method-assign]


def fam_fault(ctx: Ctx, env: Env, spec: dict) -> None:
    """plan items: ["top", wi] | ["top-fault", wi]: a re-execution during which the workflow records cannot be READ.  Such an
    execution fails; it must not take "cannot read" for "nothing recorded" (new values, a second launch, overwritten records)."""
    env.set_children(spec["children"])
    for sc in spec["scripts"]:
        env.new_top(sc)
    rf = ReadFault().install()
    try:
        sb = env.app.state_backend
        for item in spec["plan"]:
            inv = env.tops[item[1]]
            rf.armed = item[0] == "top-fault"
            once = {"n": 0}
            inner = sb.get_workflow_data
            if item[0] == "top-fault-at":
                # a TRANSIENT fault: only the k-th read of a workflow record during this execution fails (a busy database, a network
                # blip); every other read answers.  Whatever the execution does about it, the n-th value of a kind stays the n-th value.
                def flaky(workflow_identity, key, default=None, _inner=inner, _k=item[2]):  # type: ignore[no-untyped-def]
                    once["n"] += 1
                    if once["n"] == _k:
                        import sqlite3

                        rf.hits += 1
                        raise sqlite3.OperationalError("database is locked")
                    return _inner(workflow_identity, key, default)

                sb.get_workflow_data = flaky
            try:
                run_inline(env, str(inv.invocation_id), f"W{item[1]}", None)
            finally:
                rf.armed = False
                if item[0] == "top-fault-at":
                    sb.get_workflow_data = inner
    finally:
        rf.uninstall()
    env.notes["read_faults_injected"] = rf.hits


def spec_fault(rng) -> dict:  # type: ignore[no-untyped-def]
    ch = gen_children(rng)
    scripts = [[["s", "k0", ch["k0"]], "t", "r", "t", "u"], gen_script(rng, ch, 2, 5)]
    plan = [["top", 0], ["top", 1], ["top-fault", 0], ["top-fault", 1], ["top", 0], ["top", 1], ["top-fault", 0], ["top", 0]]
    plan += [["top-fault-at", rng.choice([0, 1]), rng.randint(1, 6)] for _ in range(4)] + [["top", 0], ["top", 1]]
    return {"family": "fault", "children": ch, "scripts": scripts, "plan": plan}


def fam_reused(ctx: Ctx, env: Env, spec: dict) -> None:
    """the sub-task collapses duplicate registrations (registration concurrency) and an IDENTICAL call, made outside any of the
    scenario's workflows, is still REGISTERED when a body reaches `execute_task`: the body is handed that invocation.  It is what
    this workflow launched for the call: later executions must get the same one back - also after it has run and is no longer
    there to be re-used.  plan items: ["top", wi, limit|None] | ["outside", key] | ["run-outside", key]"""
    from pynenc.conf.config_task import ConcurrencyControlType as C

    from harness import tasks as T

    env.c = env.app.task(T.wf_child, registration_concurrency=C.ARGUMENTS)
    env.set_children(spec["children"])
    for sc in spec["scripts"]:
        env.new_top(sc)
    outside: dict[str, Any] = {}
    for item in spec["plan"]:
        if item[0] == "outside":
            outside[item[1]] = env.c(env.app_id, item[1], list(spec["children"][item[1]]))
        elif item[0] == "run-outside":
            if item[1] in outside:
                run_inline(env, str(outside[item[1]].invocation_id), item[1], None)
        else:
            inv = env.tops[item[1]]
            run_inline(env, str(inv.invocation_id), f"W{item[1]}", item[2])
    env.notes["outside_calls"] = len(outside)


def spec_reused(rng) -> dict:  # type: ignore[no-untyped-def]
    ch = {"k0": [], "k1": ["r"], "k2": []}
    scripts = [[["s", "k0", ch["k0"]], "r", ["s", "k1", ch["k1"]], "u"], ["u", ["s", "k0", ch["k0"]]]]
    plan: list = [["outside", "k0"], ["top", 0, None], ["top", 1, None]]
    if rng.random() < 0.5:
        plan.insert(1, ["outside", "k1"])
    tail = [["run-outside", "k0"], ["top", 0, None], ["run-outside", "k1"], ["top", 1, None], ["top", 0, rng.randint(1, 4)], ["top", 0, None]]
    if rng.random() < 0.5:
        tail[0], tail[1] = tail[1], tail[0]
    return {"family": "reused", "children": ch, "scripts": scripts, "plan": plan + tail}


FAMILIES = {"reused": (fam_reused, spec_reused), "fault": (fam_fault, spec_fault), "direct": (fam_direct, gen_direct), "retry": (fam_retry, gen_retry), "fresh": (fam_fresh, gen_fresh),
            "coop": (fam_coop, gen_coop), "threads": (fam_threads, gen_threads)}


# fixed out-of-quantifier scenarios (two executions of ONE workflow inside the same operation; launch window)
def spec_race(kind: str) -> dict:
    child = ["t"] if kind == "race-time" else [["s", "l0", []]]
    ch = {"k0": child, "k1": list(child), "k2": [], "l0": []}
    sched: list = [["b", 0]] + [["s", "x0"]] * 12 + [["b", 1], ["b", 2]]
    if kind == "race-time":
        sched += [["s", "x1"], ["s", "x2"], ["s", "x1"], ["s", "x2"]] + [["s", "x1"]] * 4 + [["s", "x2"]] * 4
    else:
        sched += [["s", "x1"], ["s", "x2"], ["s", "x1"], ["s", "x2"], ["s", "x1"], ["s", "x2"]]
    return {"family": kind, "children": ch, "scripts": [[["s", "k0", child], ["s", "k1", child]]],
            "items": [["top", 0, None], ["child", 0, "k0"], ["child", 0, "k1"]], "serial": False, "schedule": sched}


def spec_crash_window() -> dict:
    ch = {"k0": [], "k1": [], "k2": [], "l0": []}
    sched = [["b", 0], ["s", "x0"], ["s", "x0"], ["k", "x0"], ["b", 1]] + [["s", "x1"]] * 4
    return {"family": "crash-window", "children": ch, "scripts": [[["s", "k0", []]]],
            "items": [["top", 0, None], ["top", 0, None]], "serial": True, "schedule": sched}


# ------------------------------------------------------------------------------------------------
# one scenario end to end
# ------------------------------------------------------------------------------------------------

def run_scenario(ctx: Ctx, drv: LeanDriver | None, tie: Tie | None, backend: str, spec: dict, in_scope: bool = True) -> list:
    fam = spec["family"]
    fn = FAMILIES[fam][0] if fam in FAMILIES else fam_coop
    env = Env(ctx.tmp, backend, max_retries=3 if fam == "retry" else 0)
    try:
        fn(ctx, env, spec)
        env.close()
        found = oracle(ctx, env, spec, fam, in_scope)
        if env.notes.get("body_errors"):
            ctx.notes.setdefault("body_errors", []).extend(env.notes["body_errors"][:3])
        if drv is not None and tie is not None:
            cn = replay_on_model(ctx, drv, tie, env, fam)
            compare_final(ctx, drv, tie, env, cn, fam)
            if tie.mis and not found and "first_tie_break" not in ctx.notes:
                ctx.notes["first_tie_break"] = {"backend": backend, "spec": spec}
        ex = exec_table(env.trace)
        ctx.notes.setdefault("executions", Counter())[fam] += len(ex)
        ctx.notes.setdefault("killed", Counter())[fam] += sum(1 for e in ex.values() if e["end"] == "kill")
        for k in ("final_status", "retries", "child_pynenc", "child_clock"):
            if k in env.notes:
                ctx.notes[f"{fam}_{k}"] = env.notes[k]
        return found
    finally:
        del P.TRACE[:]
        env.mark = 0


def sync_mode_note(ctx: Ctx) -> None:
    """dev_mode_force_sync_tasks: what the wf helper does there (no workflow identity exists for a sync invocation)"""
    from pynenc import context

    env = Env(ctx.tmp, "mem", dev_mode_force_sync_tasks=True)
    context.set_current_app(env.app)
    res = []
    for script in (["r"], ["u"], ["t"]):
        try:
            inv = env.t(env.app_id, "S", script, None)
            res.append(f"{script[0]}: returned {inv.result!r}")
        except Exception as e:  # noqa: BLE001
            res.append(f"{script[0]}: {type(e).__name__}")
    ctx.notes["sync_mode"] = res
    raw = raw_keys(env)
    ctx.notes["sync_mode_records"] = sorted(sum((sorted(v) for v in (raw or {}).values()), []))[:5]
    del P.TRACE[:]


# ------------------------------------------------------------------------------------------------
# entry points
# ------------------------------------------------------------------------------------------------

TIE_NAMES = {
    "access": "correspondence: backend accesses of every execution (get / set / launch, key, hit-or-miss, own workflow) == model micro-steps",
    "stored": "correspondence: values written by set_workflow_data == model (generator terms as an equality pattern, timestamps exactly)",
    "returned": "correspondence: values returned to the task bodies == model",
    "readout": "correspondence: final workflow-data read-out per workflow id == model dump",
    "launches": "correspondence: launched sub-invocations per workflow == model",
}


def generator_across_processes(ctx: Ctx) -> None:
    """The n-th random / uuid of a workflow as GENERATED (nothing recorded yet) by different process images - the case of a
    recovery re-run in another process that reaches the n-th operation before the original execution has recorded it.  The
    model's generator g(workflow, op, sequence) is a function; so must the real one be, in every interpreter."""
    import uuid as _uuid

    wids = [str(_uuid.UUID(int=ctx.rng.getrandbits(128))) for _ in range(2 if ctx.quick else 6)]
    n = 3
    envv = dict(os.environ)
    envv["PYTHONPATH"] = os.pathsep.join(p for p in sys.path if p)
    runs: dict[str, dict] = {}
    for label, seed in (("interpreter-hashseed-0", "0"), ("interpreter-hashseed-1", "1"), ("interpreter-hashseed-random", "random")):
        envv["PYTHONHASHSEED"] = seed
        arg = {"mode": "gen", "tmp": ctx.tmp, "app_id": f"c18gen{seed}", "workflows": wids, "n": n}
        p = subprocess.run([sys.executable, "-m", "harness.c18_child", json.dumps(arg)], capture_output=True, text=True, env=envv, timeout=120)
        if p.returncode != 0 or not p.stdout.strip():
            raise RuntimeError("fresh interpreter failed: " + (p.stderr or p.stdout)[-400:])
        runs[label] = json.loads(p.stdout.strip().splitlines()[-1])["values"]
    bad = None
    for w in wids:
        for op in ("random", "uuid"):
            for k in range(n):
                ctx.count()
                vals = {lab: r[w][op][k] for lab, r in runs.items()}
                ctx.distinct(("gen", w, op, k))
                if len(set(vals.values())) != 1 and bad is None:
                    bad = (w, op, k + 1, vals)
    if bad:
        w, op, k, vals = bad
        ctx.report(f"generated-value-differs-between-processes:{op}",
                   f"two executions of workflow {w} that both generate {op} number {k} (neither finds it recorded: a recovery re-run in another process racing the original) obtain different values: {vals}",
                   {"family": "generator-across-processes", "workflow": w, "op": op, "n": k, "values": vals})
    ctx.obligation("the real generator of random()/uuid() is a function of (workflow, op, sequence) in every interpreter (the model's g)", bad is None,
                   "" if bad is None else f"{bad}")
    ctx.notes["generator_across_processes"] = {"workflows": len(wids), "values_per_op": n, "interpreters": len(runs)}


def generator_under_interleaving(ctx: Ctx) -> None:
    """two workflows draw their first random numbers / uuids in two threads of one runner process, interleaved at every source
    line of `DeterministicExecutor.random` / `.uuid` / `._deterministic_operation` and of the generator closures: the first thread
    is paused after each of its steps while the second runs to completion, both ways round.  Every value must be the one that
    workflow gets when it runs alone (the model's g(workflow, op, n): a function of the workflow, not of the neighbours)."""
    import uuid as _uuid

    from pynenc.identifiers.task_id import TaskId
    from pynenc.workflow.workflow_deterministic import DeterministicExecutor
    from pynenc.workflow.workflow_identity import WorkflowIdentity

    from harness.sched_line import LineSched
    from harness.sched_sql import PrefixChooser

    tid = TaskId("harness.tasks", "wf_script")
    ids = [WorkflowIdentity.new_workflow(str(_uuid.UUID(int=ctx.rng.getrandbits(128))), tid) for _ in range(2)]
    n = 2
    alone = {}
    for w in ids:
        ex = DeterministicExecutor(w, make_app("mem", ctx.tmp, f"c18alone{ctx.rng.randrange(10**6)}"))
        alone[w.workflow_id] = {"random": [ex.random() for _ in range(n)], "uuid": [ex.uuid() for _ in range(n)]}
    sched = LineSched(line_targets=[DeterministicExecutor.random, DeterministicExecutor.uuid, DeterministicExecutor._deterministic_operation],
                      max_steps=5000).install()     # (closures defined inside - the generators - are included)
    bad = None
    runs = 0
    try:
        for op in ("random", "uuid"):
            def run_one(chooser, op=op):
                app = make_app("mem", ctx.tmp, f"c18il{ctx.rng.randrange(10**6)}")
                _ = app.state_backend, app.orchestrator, app.broker, app.client_data_store, app.serializer      # built before the schedule starts
                got: dict[str, list] = {w.workflow_id: [] for w in ids}

                def body(w):
                    def f() -> None:
                        ex = DeterministicExecutor(w, app)
                        for _ in range(n):
                            got[w.workflow_id].append(getattr(ex, op)())
                    return f

                run = sched.run([body(ids[0]), body(ids[1])], chooser)
                run.meta = got  # type: ignore[attr-defined]
                return run

            for first in (0, 1):
                steps = len(run_one(PrefixChooser([first] * 50000)).choices)
                stride = 1 if steps <= 160 or not ctx.quick else steps // 160 + 1
                for k in range(0, steps + 1, stride):
                    run = run_one(PrefixChooser([first] * k + [1 - first] * 50000))
                    runs += 1
                    ctx.count()
                    for w in ids:
                        if run.meta[w.workflow_id] != alone[w.workflow_id][op] and bad is None:  # type: ignore[attr-defined]
                            bad = (op, w.workflow_id, run.meta[w.workflow_id], alone[w.workflow_id][op], first, k)  # type: ignore[attr-defined]
        ctx.distinct(("interleaved-generation", runs > 0))
    finally:
        sched.uninstall()
    if bad:
        op, w, got, want, first, k = bad
        ctx.report(f"generated-value-depends-on-neighbour-workflow:{op}",
                   f"workflow {w} draws {op} values {got} while another workflow draws its own in a second thread (thread {first} paused after {k} source lines, the other run to "
                   f"completion); alone it draws {want}", {"family": "generator-under-interleaving", "op": op, "workflow": w, "paused_thread": first, "after_steps": k})
    ctx.obligation("the real generator of random()/uuid() yields g(workflow, op, n) whatever another workflow does between any two of its source lines", bad is None, "" if bad is None else str(bad)[:300])
    ctx.notes["generator_interleavings"] = runs


def records_of_one_workflow_written_concurrently(ctx: Ctx) -> None:
    """a body and a sub-task of the SAME workflow run in two threads of one runner and both record something (a launch record here, a
    drawn value there): one thread is paused after each source line of `set_workflow_data` (SQL statement on SQLite) while the other
    runs to completion, both ways round, on a workflow that has records already and on a fresh one.  Both records must be there:
    a lost launch record is a second launch at the next execution."""
    import uuid as _uuid

    from pynenc.identifiers.task_id import TaskId
    from pynenc.state_backend.mem_state_backend import MemStateBackend
    from pynenc.workflow.workflow_identity import WorkflowIdentity

    from harness.props.c02 import SQL_PATCH
    from harness.sched_line import LineSched
    from harness.sched_sql import PrefixChooser, SqlSched

    tid = TaskId("harness.tasks", "wf_script")
    runs = 0
    for backend in ("mem", "sqlite"):
        sched = (LineSched(line_targets=[MemStateBackend.set_workflow_data], max_steps=5000) if backend == "mem" else SqlSched(patch=SQL_PATCH, max_steps=5000)).install()
        try:
            for fresh in (False, True):
                def run_one(chooser, fresh=fresh):
                    app = make_app(backend, ctx.tmp, f"c18rec{backend}{ctx.rng.randrange(10**7)}")
                    sb = app.state_backend
                    w = WorkflowIdentity.new_workflow(str(_uuid.UUID(int=ctx.rng.getrandbits(128))), tid)
                    if not fresh:
                        sb.set_workflow_data(w, "counter:random", 1)
                    bodies = [lambda: sb.set_workflow_data(w, "task_invocation:call-1", "inv-1"), lambda: sb.set_workflow_data(w, "uuid:1", "u-1")]
                    run = sched.run(bodies, chooser)
                    run.meta = (sb.get_workflow_data(w, "task_invocation:call-1", None), sb.get_workflow_data(w, "uuid:1", None))  # type: ignore[attr-defined]
                    return run

                for first in (0, 1):
                    steps = len(run_one(PrefixChooser([first] * 5000)).choices)
                    for k in range(steps + 1):
                        run = run_one(PrefixChooser([first] * k + [1 - first] * 5000))
                        runs += 1
                        ctx.count()
                        ctx.distinct(("records-concurrently", backend, fresh, first, k))
                        if run.meta != ("inv-1", "u-1") or run.aborted or any(e is not None for e in run.errors):  # type: ignore[attr-defined]
                            ctx.report(f"workflow-record-lost[{backend}]:{'fresh' if fresh else 'existing'}-workflow",
                                       f"[{backend}] two threads record `task_invocation:call-1` and `uuid:1` for one workflow ({'no records yet' if fresh else 'records exist'}); thread {first} "
                                       f"paused after step {k}: afterwards the records read {run.meta} (errors {run.errors})",  # type: ignore[attr-defined]
                                       {"family": "records-concurrently", "backend": backend, "fresh": fresh, "paused_thread": first, "after_steps": k})
        finally:
            sched.uninstall()
    ctx.notes["record_writer_interleavings"] = runs


def generator_across_invocations_of_one_workflow(ctx: Ctx) -> None:
    """the first random number / uuid of a workflow as GENERATED by two different invocations of it (the body and a sub-task that
    inherits the workflow) when neither finds a record - what happens when both reach the operation at the same time.  Both must
    generate the same value (the model's g(workflow, op, n) has no invocation in it): otherwise whichever is recorded last changes
    what the other body sees when it is executed again."""
    for backend in ("mem", "sqlite"):
        env = Env(ctx.tmp, backend)
        env.set_children({"k0": ["r", "u", "r"]})
        top = env.new_top([["s", "k0", ["r", "u", "r"]], "r", "u", "r"])
        run_inline(env, str(top.invocation_id), "W0", None)                     # the body: launches the sub-task, draws and records
        wf_id = str(top.workflow.workflow_id)
        child = env.launched(wf_id, "k0")
        sb = env.app.state_backend
        real_get, real_set = sb.get_workflow_data, sb.set_workflow_data
        hidden = ("random:", "uuid:", "counter:")
        sb.get_workflow_data = lambda w, key, default=None: default if str(key).startswith(hidden) else real_get(w, key, default)  # type: ignore[method-assign]
        sb.set_workflow_data = lambda w, key, value: None if str(key).startswith(hidden) else real_set(w, key, value)              # type: ignore[method-assign]
        try:
            if child is not None:
                run_inline(env, child, "k0", None)                                # the sub-task finds no record of the body's draws
        finally:
            del sb.get_workflow_data, sb.set_workflow_data
        env.close()
        ex = exec_table(env.trace)
        vals: dict[str, list] = {}
        for e in ex.values():
            seq = [v for (i, v) in e["rets"] if not str(e["ops"][i]).startswith("s")]
            vals.setdefault(e["tag"], []).append(seq)
        ctx.count()
        ctx.distinct(("generator-across-invocations", backend))
        body, sub = (vals.get("W0") or [[]])[-1], (vals.get("k0") or [[]])[-1]
        if child is None or not body or body != sub:
            ctx.report("generated-value-depends-on-the-invocation", f"[{backend}] a body and a sub-task of ONE workflow each draw random, uuid, random with no record to replay: the body gets {body}, "
                                                                    f"the sub-task {sub} - the n-th value of a workflow must not depend on which of its invocations generates it",
                       {"family": "generator-across-invocations", "backend": backend})
        del P.TRACE[:]


def run(ctx: Ctx) -> None:
    from harness.translate import detop as trdetop

    lean_stage(ctx, trdetop.gen, THEOREMS)
    generator_across_processes(ctx)
    generator_across_invocations_of_one_workflow(ctx)
    records_of_one_workflow_written_concurrently(ctx)
    generator_under_interleaving(ctx)
    clock_ok = P.install_clock()
    ctx.notes["clock_patch"] = clock_ok
    drv = LeanDriver()
    tie = Tie()
    q = ctx.quick
    budget = {"direct": 22 if q else 200, "retry": 8 if q else 70, "coop": 10 if q else 120,
              "threads": 4 if q else 30, "fresh": 2 if q else 12}
    ctx.cov["rule"] = ("one scenario = scripts for 1-4 workflows (ops random/uuid/utc_now/execute_task, children inheriting the "
                       "workflow) + a plan (attempts, partial attempts, retries, fresh interpreters, access-level schedules, "
                       "stops); evaluations = backend accesses and recorded values compared with the model; distinct+non-trivial "
                       "= distinct (family, backend, script shapes, plan) with ≥ 2 executions")
    try:
        for fam, n in budget.items():
            for i in range(n):
                for backend in (("sqlite",) if fam == "fresh" else ("mem", "sqlite")):
                    spec = FAMILIES[fam][1](ctx.rng, q)
                    run_scenario(ctx, drv, tie, backend, spec)
                    ctx.distinct((fam, backend, shape(spec)))
                    if i == 0:
                        ctx.sample({"family": fam, "backend": backend, "scripts": spec["scripts"],
                                    "plan": spec.get("plan") or spec.get("items") or spec.get("rounds") or spec.get("fail_after")})
        # a re-execution that cannot read the workflow records (SQLite read fault): oracle only
        for _ in range(2 if q else 10):
            sp = spec_fault(ctx.rng)
            for backend in ("sqlite", "mem"):      # (the all-reads-fail items act on SQLite only, the transient ones on both)
                run_scenario(ctx, None, None, backend, sp)
                ctx.distinct(("fault", backend, shape(sp)))
        # a sub-task with registration concurrency whose identical call is waiting outside the workflow: oracle only
        for _ in range(2 if q else 8):
            for backend in ("mem", "sqlite"):
                sp = spec_reused(ctx.rng)
                run_scenario(ctx, None, None, backend, sp)
                ctx.distinct(("reused", backend, shape(sp)))
        # out of the property's quantifier: replayed, compared with the model, recorded — never reported
        outq: dict[str, Any] = {}
        for backend in ("mem", "sqlite"):
            for spec in (spec_race("race-time"), spec_race("race-launch"), spec_crash_window()):
                found = run_scenario(ctx, drv, tie, backend, spec, in_scope=False)
                outq[f"{spec['family']}[{backend}]"] = sorted({s.split(":")[0] for s, _ in found})
        ctx.notes["outside_quantifier"] = outq
        sync_mode_note(ctx)
    finally:
        drv.close()
        P.uninstall_clock()
    for cls, name in TIE_NAMES.items():
        for backend in ("mem", "sqlite"):
            m = tie.mis.get((cls, backend), [])
            ctx.obligation(f"{name} [{backend}]", not m, f"{len(m)} disagreements, first: {json.dumps(m[0], default=str)[:500]}" if m else "")
    ctx.notes["compared"] = dict(tie.n)
    for k in ("executions", "killed"):
        if k in ctx.notes:
            ctx.notes[k] = dict(ctx.notes[k])
    ctx.assumptions += [
        "the in-memory state backend cannot be shared with a fresh interpreter: the fresh-process family runs on SQLite only",
        "random()/uuid() values are compared as an equality pattern against the model's abstract generator g(workflow, op, sequence+1); one 32-bit seed collision per scenario is tolerated for random()",
        "datetime.now as seen from pynenc.workflow.workflow_deterministic is a counter (k-th reading = 2024-01-01 + 1000·k s)" + ("" if clock_ok else " — PATCH DID NOT TAKE"),
        "two executions of ONE workflow inside the same operation (same_workflow_race_*) and a stop between launch and record (crash_between_launch_and_record_relaunches) are outside the property's quantifier: the model predicts them, the real code shows them (evidence notes), they are not reported",
        "sync mode (dev_mode_force_sync_tasks): the wf helper raises NotImplementedError (ConcurrentInvocation has no workflow identity); recorded in notes",
    ]
    if not ctx.quick:
        thorough_rebuild(ctx)


def replay(data: dict) -> int:
    """Re-runs the recorded scenario on the real code and re-evaluates the oracle."""
    import tempfile

    r = data["replay"]
    ctx = Ctx("C18", "quick", int(data.get("seed", 0)))
    ctx._tmp = tempfile.mkdtemp(prefix="verif-C18-replay-")
    ctx._known = []
    P.install_clock()
    try:
        found = run_scenario(ctx, None, None, r["backend"], r["spec"], in_scope=False)
    finally:
        P.uninstall_clock()
        ctx.cleanup()
    for sig, what in found:
        print(f"{sig}: {what}")
    print("spec:", json.dumps(r["spec"], default=str)[:600])
    return 1 if found else 0
