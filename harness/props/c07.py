"""C07 — registration concurrency collapses duplicate submissions onto one invocation.

Lean: Props/C07.lean over Model/Concurrency.lean (`routeCall`): reuse changes nothing, exact answer of a submission,
      raise option rejects and changes nothing, disabled ⇒ always new, REGISTERED is never re-entered, `new` only when no
      REGISTERED match exists.  Props/C07Inv.lean: the census as an inductive invariant — `census_holds_after_any_history`:
      after ANY sequence of submissions of the task (fresh ids, arguments over one signature) interleaved with ANY status
      requests, no two REGISTERED invocations of the task have matching registration keys (induction over the history:
      `census_init`, `routeCall_preserves`, `setStatus_preserves`).
Tie:  sequences of submissions through the real `Task.__call__` (argument values drawn with repeats, positional / keyword /
      defaults-omitted spellings) interleaved with claims and completions, for every registration mode x key-argument
      choice x raise option, on Mem and SQLite, mirrored operation by operation on the Lean driver (`cc.route`, `o.set`);
      compared: kind of answer (new / reused / reused-with-new-args / error), identity of the returned invocation, queue.
Oracle (independent): census of REGISTERED invocations per registration key after every step (≤ 1), a reused answer names the
      REGISTERED invocation of that key, nothing is created by reuse / rejection (invocation count and queue length unchanged),
      disabled mode always creates a distinct new invocation.
"""
from __future__ import annotations

from typing import Any

from harness import tasks as T
from harness.apps import VirtualClock, flush, make_app, rctx, ts_us
from harness.common import Ctx, LeanDriver, lean_stage, thorough_rebuild, tok
from harness.translate import status as tr

THEOREMS = [
    "reuse_changes_nothing", "routeCall_answer", "keys_raise_rejects_and_changes_nothing", "disabled_always_new",
    "registered_only_by_registration", "new_only_when_none_registered", "keyIn_symm",
    "newInvocation_preserves", "routeCall_preserves", "setStatus_preserves", "census_init", "census_holds_after_any_history",
]

CONFIGS = [
    # (registration mode, key_arguments, raise option, disable_cache_args)
    ("disabled", (), False, ()), ("task", (), False, ()), ("arguments", (), False, ()),
    ("keys", ("k",), False, ()), ("keys", ("k",), True, ()), ("keys", ("k", "v"), True, ()), ("keys", ("v",), False, ()),
    # long values cross the externalisation threshold (min_size_to_cache=64 below); disable_cache_args keeps some inline
    ("keys", ("k",), True, ("k",)), ("arguments", (), False, ("v",)), ("keys", ("k", "v"), False, ("*",)),
    # (…, value pool, running concurrency): values that Python calls equal but that are different arguments (1, True, 1.0 /
    # 0, False) under the raise option; and registration control combined with a running control of another scope
    ("keys", ("k",), True, (), "typed", "disabled"), ("task", (), True, (), "typed", "disabled"), ("arguments", (), False, (), "typed", "disabled"),
    ("arguments", (), False, (), "str", "keys"), ("keys", ("k",), True, (), "str", "arguments"), ("task", (), False, (), "str", "keys"),
    # KEYS with NO key arguments: the registration key is empty, every submission has the same key (with and without the raise option)
    ("keys", (), True, (), "str", "disabled"), ("keys", (), False, (), "str", "disabled"),
]
LONG = "L" * 90
TYPED = [1, True, 1.0, 0, False, "1"]


def kv(d: dict[str, str]) -> str:
    return " ".join(f"{tok(k)} {tok(v)}" for k, v in d.items())


def spell(rng, k: str, v: str, w: str) -> tuple[tuple, dict]:
    """the same call, written positionally / by keyword / with defaults omitted"""
    forms = [((k, v, w), {}), ((k,), {"v": v, "w": w}), ((), {"w": w, "k": k, "v": v}), ((k, v), {"w": w})]
    if w == "e":
        forms += [((k, v), {}), ((k,), {"v": v})]
        if v == "d":
            forms += [((k,), {}), ((), {"k": k})]
    # (values are drawn from overlapping pools: the same value may occur under different argument names)
    return rng.choice(forms)


def run(ctx: Ctx) -> None:
    from pynenc.call import Call
    from pynenc.conf.config_task import ConcurrencyControlType as C
    from pynenc.exceptions import InvocationConcurrencyWithDifferentArgumentsError
    from pynenc.invocation.dist_invocation import ReusedInvocation
    from pynenc.invocation.status import InvocationStatus as S

    lean_stage(ctx, tr.gen, THEOREMS)
    ctx.cov["rule"] = ("per (backend, registration mode, key arguments, raise option): seeded sequences of submissions (3 argument positions, "
                       "2-3 values each, all call spellings) interleaved with claims/starts/completions; distinct = distinct "
                       "(config, answer kind, census shape, spelling arity) observations")
    drv = LeanDriver()
    clock = VirtualClock().install()
    nd = 0
    nsteps = 120 if ctx.quick else 700
    try:
        for ci, conf in enumerate(CONFIGS):
            mode, keys, rse, dca = conf[:4]
            pool, runmode = (conf[4], conf[5]) if len(conf) > 4 else ("long" if ci >= 7 else "str", "disabled")
            for kind in ("mem", "sqlite"):
                app = make_app(kind, ctx.tmp, app_id=f"c07{kind}{ci}", min_size_to_cache=64, auto_final_invocation_purge_hours=0.0)
                opts: dict[str, Any] = {"registration_concurrency": C(mode)}
                if runmode != "disabled":
                    opts["running_concurrency"] = C(runmode)
                    if runmode == "keys" and not keys:
                        opts["key_arguments"] = ("k",)
                if dca:
                    opts["disable_cache_args"] = dca
                if keys:
                    opts["key_arguments"] = keys
                opts["on_diff_non_key_args_raise"] = rse
                task = app.task(T.keyed, **opts)
                o = app.orchestrator
                tname = task.task_id.key
                drv.ask("o.reset")
                drv.ask(f"cc.conf {tok(tname)} {mode} {runmode} {'1' if rse else '0'} 1 " + " ".join(tok(k) for k in (keys or opts.get("key_arguments", ()))))
                invs: dict[str, dict] = {}   # id -> {args, status}
                unused = 0

                def regkey(a: dict[str, str]):
                    # the registration key in terms of the CALL's argument values (raw, not their serialized form)
                    if mode == "task":
                        return ()
                    # (type-exact: 1, True and 1.0 are different arguments although Python calls them equal)
                    if mode == "arguments":
                        return tuple(sorted((k, repr(v)) for k, v in a.items()))
                    return tuple((k, repr(a[k])) for k in keys)

                def census_check(where: str):
                    if mode == "disabled":
                        return
                    cnt: dict = {}
                    for i, d in invs.items():
                        st = o.get_invocation_status(i)
                        d["status"] = st.value
                        if st == S.REGISTERED:
                            cnt.setdefault(regkey(d["args"]), []).append(i)
                    for k_, ids in cnt.items():
                        if len(ids) > 1:
                            ctx.report(f"two-registered-per-key[{kind}]:{mode}", f"[{kind}] {len(ids)} REGISTERED invocations share registration key {str(k_)[:120]} (mode {mode}, keys {keys}, disable_cache_args {dca}) after {where}",
                                       {"backend": kind, "mode": mode, "keys": keys, "key": k_})
                    return cnt

                for step in range(nsteps):
                    clock.advance(1000)
                    r = ctx.rng.random()
                    if r < 0.6 or not invs:
                        if pool == "typed":
                            k_, v_, w_ = ctx.rng.choice(["a", 1, True]), ctx.rng.choice(TYPED), ctx.rng.choice(["e", 0, False])
                        else:
                            k_, v_, w_ = ctx.rng.choice(["a", "b", "a" + LONG, "b" + LONG] if pool == "long" else ["a", "b", "d"]), ctx.rng.choice(["d", "x", "x" + LONG] if pool == "long" else ["d", "a", "b"]), ctx.rng.choice(["e", "a"])
                        args, kwargs = spell(ctx.rng, k_, v_, w_)
                        bound = {"k": k_, "v": v_, "w": w_}
                        call = Call(task, task.args(*args, **kwargs))
                        ser = dict(call.serialized_arguments)
                        call_key = call.call_id.key
                        before_n, before_q = o.count_invocations(), app.broker.count_invocations()
                        cnt_before = census_check("before") or {}
                        # a transient fault: the ONE read of the stored invocation this submission makes finds nothing (a lagging replica, a
                        # purge that is being rolled back).  The submission may fail; it must not take that for "no such invocation"
                        fault = {"armed": mode != "disabled" and bool(cnt_before.get(regkey(bound))) and ctx.rng.random() < 0.12, "fired": False}
                        sb = app.state_backend
                        if fault["armed"]:
                            real_get = sb._get_invocation

                            def flaky_get(invocation_id, _real=real_get, _f=fault):  # type: ignore[no-untyped-def]
                                if not _f["fired"]:
                                    _f["fired"] = True
                                    return None
                                return _real(invocation_id)

                            sb._get_invocation = flaky_get  # type: ignore[method-assign]
                        try:
                            inv = task(*args, **kwargs)
                            if isinstance(inv, ReusedInvocation):
                                impl = ("reused-args" if inv.diff_arg is not None else "reused", inv.invocation_id)
                            else:
                                impl = ("new", inv.invocation_id)
                        except InvocationConcurrencyWithDifferentArgumentsError:
                            impl = ("err diffargs", None)
                        except BaseException as e:  # noqa: BLE001
                            impl = (f"err other:{type(e).__name__}", None)
                        finally:
                            if fault["armed"]:
                                del sb._get_invocation
                        after_n, after_q = o.count_invocations(), app.broker.count_invocations()
                        if fault["fired"]:
                            ctx.count()
                            ctx.distinct((kind, ci, "read-fault", impl[0].split(":")[0]))
                            if impl[0] == "new" or after_n != before_n or after_q != before_q:
                                ctx.report(f"read-fault-registers-a-second[{kind}]:{mode}",
                                           f"[{kind}] a REGISTERED invocation with the key of the call exists; the one read of its stored record finds nothing: the submission answered {impl[0]} "
                                           f"(invocations {before_n}->{after_n}, queue {before_q}->{after_q}) - an unanswered read is not \"nothing registered\"",
                                           {"backend": kind, "mode": mode, "keys": keys, "raise": rse, "call": bound})
                                if impl[0] == "new":
                                    invs[impl[1]] = {"args": bound, "status": "registered", "call": call_key}
                            census_check("submission with a read fault")
                            continue
                        fresh = impl[1] if impl[0] == "new" else f"unused{unused}"
                        unused += 1
                        rid = "ExternalRunner"
                        if impl[0] == "new":
                            rec = o.get_invocation_status_record(impl[1])
                            rid = rec.runner_id
                            invs[impl[1]] = {"args": bound, "status": "registered", "call": call_key}
                        m = drv.ask(f"cc.route {tok(tname)} {tok(call_key)} {tok(fresh)} {tok(rid)} {clock.us} {kv(ser)}")
                        i_line = impl[0] + (f" {tok(impl[1])}" if impl[1] else "")
                        ctx.count()
                        ctx.distinct((kind, ci, impl[0], len(args), len(kwargs), len(cnt_before)))
                        if i_line != m:
                            nd += 1
                            if nd <= 4:
                                ctx.obligation(f"correspondence route_call[{kind}] mode={mode} keys={keys} raise={rse}", False,
                                               f"call {bound} spelled {args}/{kwargs}: impl {i_line!r} model {m!r}")
                        # ---- oracle -------------------------------------------------------------------------
                        key_now = regkey(bound)
                        existing = cnt_before.get(key_now, [])
                        rep = {"backend": kind, "mode": mode, "keys": keys, "raise": rse, "call": bound, "spelling": [list(args), kwargs]}
                        if mode == "disabled":
                            if impl[0] != "new" or after_n != before_n + 1:
                                ctx.report(f"disabled-not-new[{kind}]", f"[{kind}] registration concurrency disabled but submission answered {impl[0]} (invocations {before_n}->{after_n})", rep)
                        elif existing:
                            same = invs[existing[0]]["call"] == call_key
                            want = "reused" if same else ("err diffargs" if rse else "reused-args")
                            if impl[0] != want or (impl[1] is not None and impl[1] != existing[0]):
                                ctx.report(f"wrong-answer[{kind}]:{mode}:{want}", f"[{kind}] a REGISTERED invocation with key {key_now} exists ({'same' if same else 'different'} call): expected {want} {existing[0][:8]}, got {impl[0]} {str(impl[1])[:8]}", rep)
                            if after_n != before_n or after_q != before_q:
                                ctx.report(f"reuse-created-something[{kind}]:{mode}", f"[{kind}] answer {impl[0]} but invocations {before_n}->{after_n}, queue {before_q}->{after_q}", rep)
                        else:
                            if impl[0] != "new":
                                ctx.report(f"not-new-without-registered[{kind}]:{mode}", f"[{kind}] no REGISTERED invocation with key {key_now} but submission answered {impl[0]}", rep)
                        if impl[0] == "new" and impl[1] in [i for i in invs if i != impl[1]]:
                            ctx.report(f"id-reused[{kind}]", f"[{kind}] 'new' invocation id already existed", rep)
                        census_check("submission")
                    elif r < 0.66:
                        # the housekeeping of a runner purges the finished invocations (they are due at once here): whatever else
                        # carries the same argument values must stay findable
                        finals = [i for i in invs if o.get_invocation_status(i).is_final()]
                        o.auto_purge()
                        for i in finals:
                            drv.ask(f"o.forget {tok(i)}")
                            del invs[i]
                        ctx.distinct((kind, ci, "auto-purge", min(len(finals), 3)))
                        census_check("auto-purge")
                    else:
                        i = ctx.rng.choice(list(invs))
                        st = o.get_invocation_status(i)
                        # (also the ways back into an available status that is NOT "registered": a re-routed and a retrying invocation
                        #  do not collapse new submissions)
                        nxt = {S.REGISTERED: S.PENDING, S.PENDING: ctx.rng.choice([S.RUNNING, S.RUNNING, S.REROUTED]),
                               S.RUNNING: ctx.rng.choice([S.SUCCESS, S.FAILED, S.RETRY]), S.RETRY: S.PENDING, S.REROUTED: S.PENDING}.get(st)
                        if nxt is not None:
                            o.set_invocation_status(i, nxt, rctx("rA"))
                            drv.ask(f"o.set {tok(i)} {nxt.value} {tok('rA')} {clock.us}")
                flush(app)
                ctx.sample({"backend": kind, "mode": mode, "keys": keys, "raise": rse, "invocations": len(invs),
                            "registered_now": sum(1 for d in invs.values() if d["status"] == "registered")})
        ctx.obligation("correspondence: route_call on Mem and SQLite == CC.routeCall for every mode/key/raise configuration", nd == 0, f"{nd} disagreements")
    finally:
        clock.uninstall()
        drv.close()
    ctx.assumptions += ["submissions are sequential (the property's quantifier); concurrent submitters can both find no REGISTERED invocation — outside C07"]
    if not ctx.quick:
        thorough_rebuild(ctx)


def replay(data: dict) -> int:
    from harness.common import replay_by_rerun

    return replay_by_rerun("C07", run, data)
