"""C14 — process-based runners keep their worker pool at capacity when workers die.

Lean: Props/C14.lean over Model/Pool.lean (tracking dictionary, start, die, loop iteration per runner class,
      heartbeat ids; theorems for all configurations and all fault sequences).
Tie:  differential through the REAL `_on_start` / `runner_loop_iteration` / `_report_child_runner_heartbeats`
      of MultiThreadRunner, PersistentProcessRunner and ProcessRunner (and through the real `BaseRunner.run()`
      loop in a thread) on an in-memory and a SQLite app, with `multiprocessing.Process` / `Manager` / `cpu_count`
      replaced inside the runner modules by controllable stand-ins and the orchestrator's
      `register_runner_heartbeats` wrapped to record the ids it is given.  After every step the tracked ids,
      the alive tracked ids and the reported ids (uuids renamed by creation order) are compared with the Lean driver.
Search: an oracle written from the documentation / configuration alone judges every real step: live pool size ==
      documented capacity, no dead handle tracked, no alive worker forgotten, heartbeats only for alive workers,
      a dead worker is never reported again.  What it flags is a concrete failing fault sequence.
"""
from __future__ import annotations

import contextlib
import itertools
import os as _os
import threading
import warnings
from typing import Any

from harness import tasks as T
from harness.apps import inject_status, make_app
from harness.common import Ctx, LeanDriver, lean_stage, thorough_rebuild

THEOREMS = [
    "iteration_live", "iteration_forgets_dead", "iteration_keeps_alive", "iteration_spawns_fresh", "iteration_idle", "no_churn",
    "never_over_capacity", "after_iteration_full", "persistent_full", "multi_enforce_full",
    "multi_queue_demand_met", "process_full", "tracked_ids_distinct", "heartbeats_only_alive",
    "reports_alive_or_fresh", "dead_never_reported_again", "reports_are_own_workers",
    "unfixed_loop_refuted", "multi_queue_may_sit_below_min",
    # Props/C14Shape.lean: the shape of the bookkeeping read from the source (translate/pool.py -> Gen/PoolShape.lean)
    "code_prunes_the_dead_and_refills_unconditionally",
]

RUNNER_KEYS = ("min_processes", "max_processes", "enforce_max_processes", "num_processes", "min_parallel_slots")


# ------------------------------------------------------------------------------------------------
# stand-ins for the operating-system objects
# ------------------------------------------------------------------------------------------------

class Env:
    """One runner's world: every process object the runner creates, in creation order."""

    def __init__(self, cpu: int):
        self.cpu = cpu
        self.procs: list[Any] = []
        self.rid2idx: dict[str, int] = {}
        env = self

        class FakeProcess:
            def __init__(self, group=None, target=None, name=None, args=(), kwargs=None, *, daemon=None):
                self.idx = len(env.procs)
                env.procs.append(self)
                self.target, self.args, self.kwargs, self.daemon = target, args, kwargs or {}, daemon
                self.pid: int | None = None
                self.exitcode: int | None = None
                self._alive = False
                self.started = False
                self.joined = 0
                rid = self.kwargs.get("child_runner_id")
                if rid is None:
                    for a in args:
                        if hasattr(a, "runner_id") and hasattr(a, "parent_ctx"):
                            rid = a.runner_id
                if rid is not None:
                    env.rid2idx[rid] = self.idx

            def start(self) -> None:
                self.started = True
                self._alive = True
                self.pid = 40_000 + self.idx

            def is_alive(self) -> bool:
                return self._alive

            def terminate(self) -> None:
                if self._alive:
                    self._alive, self.exitcode = False, -15

            def kill(self) -> None:
                if self._alive:
                    self._alive, self.exitcode = False, -9

            def join(self, timeout: float | None = None) -> None:
                self.joined += 1

            def die(self) -> None:  # harness only: the OS process is gone, for whatever reason
                if self._alive:
                    # OOM kill, clean exit after an external SIGTERM (0), error exit, segfault, SIGTERM
                    self._alive, self.exitcode = False, (-9, 0, 1, -11, -15)[self.idx % 5]

        class FakeManager:
            def dict(self, *a, **k):
                return dict(*a, **k)

            def Event(self):
                return threading.Event()

            def shutdown(self) -> None:
                return None

        self.Process = FakeProcess
        self.Manager = FakeManager
        self.os_kill = _OsKillShim(self)


class _OsShim:
    def __init__(self, env: Env):
        self._env = env

    def cpu_count(self):
        return self._env.cpu

    def __getattr__(self, name):
        return getattr(_os, name)


class _OsKillShim(_OsShim):
    """`os` as seen by process_runner: signals sent to the stand-in workers are recorded; a worker that is gone cannot be signalled"""

    def __init__(self, env: Env):
        super().__init__(env)
        self.signals: list[tuple[int, int]] = []       # (worker index, signal number)

    def kill(self, pid, sig):  # type: ignore[no-untyped-def]
        idx = pid - 40_000
        if 0 <= idx < len(self._env.procs):
            if not self._env.procs[idx].is_alive():
                raise ProcessLookupError(3, "No such process")
            self.signals.append((idx, int(sig)))
            return None
        return _os.kill(pid, sig)


class _MpShim:
    """`multiprocessing` as seen by persistent_process_runner: never touches the harness's start method."""

    def get_start_method(self, allow_none: bool = False):
        return "spawn"

    def set_start_method(self, *a, **k) -> None:
        return None


@contextlib.contextmanager
def stand_ins(env: Env):
    import pynenc.runner.multi_thread_runner as MT
    import pynenc.runner.persistent_process_runner as PP
    import pynenc.runner.process_runner as PR

    patches = [
        (MT, "Process", env.Process), (MT, "Manager", env.Manager), (MT, "cpu_count", lambda: env.cpu),
        (PP, "Process", env.Process), (PP, "Manager", env.Manager), (PP, "os", _OsShim(env)),
        (PP, "multiprocessing", _MpShim()),
        (PR, "Process", env.Process), (PR, "Manager", env.Manager), (PR, "cpu_count", lambda: env.cpu), (PR, "os", env.os_kill),
    ]
    saved = [(m, n, getattr(m, n)) for m, n, _ in patches]
    for m, n, v in patches:
        setattr(m, n, v)
    try:
        with warnings.catch_warnings():
            warnings.simplefilter("ignore")
            yield
    finally:
        for m, n, v in saved:
            setattr(m, n, v)


def runner_class(kind: str):
    from pynenc.runner.multi_thread_runner import MultiThreadRunner
    from pynenc.runner.persistent_process_runner import PersistentProcessRunner
    from pynenc.runner.process_runner import ProcessRunner

    return {"persistent": PersistentProcessRunner, "multi": MultiThreadRunner, "process": ProcessRunner}[kind]


# ------------------------------------------------------------------------------------------------
# configurations
# ------------------------------------------------------------------------------------------------

def start_line(kind: str, conf: dict, cpu: int) -> str:
    if kind == "persistent":
        return f"pool.start persistent {conf['min_parallel_slots']} {conf['num_processes']} {cpu}"
    if kind == "multi":
        return f"pool.start multi {conf['min_processes']} {conf['max_processes']} {cpu} {1 if conf['enforce_max_processes'] else 0}"
    return f"pool.start process {conf['min_parallel_slots']} {cpu}"


def documented_capacity(kind: str, conf: dict, cpu: int) -> int:
    """The configured number, from docs/reference/runners.md + conf/config_runner.py only."""
    if kind == "persistent":  # "num_processes: Number of worker processes (0 = CPU count)"; min_parallel_slots is a floor
        return max(conf["min_parallel_slots"], conf["num_processes"] or cpu or 1)
    if kind == "multi":       # "max_processes: Maximum worker processes (0 = CPU count)"
        return conf["max_processes"] or cpu
    return max(conf["min_parallel_slots"], cpu)  # "up to cpu_count() concurrent"; min_parallel_slots is a floor


def mode_of(kind: str, conf: dict) -> str:
    if kind == "multi":
        return "multi-enforce" if conf["enforce_max_processes"] else "multi-queue"
    return kind


def expected_live(kind: str, conf: dict, cpu: int, alive_before: int, q: int) -> int:
    """Documented pool size right after one loop iteration (independent of the Lean model)."""
    cap = documented_capacity(kind, conf, cpu)
    if kind == "persistent":       # "Dead workers are automatically respawned to maintain pool size"
        return cap
    if kind == "multi":
        if conf["enforce_max_processes"]:  # "always runs max_processes workers" (survivors of a larger initial pool stay)
            return max(cap, alive_before)
        # "scales based on pending invocation count in the broker", never beyond max_processes, never kills live workers
        if q > alive_before and alive_before < cap:
            return min(q, cap)
        return alive_before
    # process: "One process per invocation, up to cpu_count() concurrent"
    return max(alive_before, min(cap, alive_before + q))


# ------------------------------------------------------------------------------------------------
# one runner under test
# ------------------------------------------------------------------------------------------------

def fmt(ids) -> str:
    ids = sorted(ids)
    return ",".join(str(i) for i in ids) if ids else "-"


class Impl:
    """Drives one real runner object over fake processes and observes it."""

    def __init__(self, app, kind: str, conf: dict, cpu: int):
        self.app, self.kind, self.conf, self.cpu = app, kind, conf, cpu
        self.env = Env(cpu)
        self.reports: list[tuple[str, str]] = []   # (runner id, 'alive' | 'dead' | 'unborn') at call time
        self.runner = None
        self.ever_dead: set[int] = set()
        self.dead_rids: set[str] = set()           # runner ids whose worker process died

    # -- plumbing ---------------------------------------------------------------------------------
    def handles(self) -> dict[str, Any]:
        return {rid: getattr(v, "process", v) for rid, v in self.runner.child_runner_ids.items()}

    def learn(self) -> None:
        for rid, h in self.handles().items():
            self.env.rid2idx.setdefault(rid, h.idx)

    def _wrap_heartbeats(self):
        orch = self.app.orchestrator
        real = orch.register_runner_heartbeats

        def rec(runner_ids, *a, **k):
            hs = self.handles() if self.runner is not None else {}
            for rid in list(runner_ids):
                h = hs.get(rid)
                if h is None and rid in self.env.rid2idx:
                    h = self.env.procs[self.env.rid2idx[rid]]
                st = "unborn" if h is None or not h.started else ("alive" if h.is_alive() else "dead")
                if rid in self.dead_rids:
                    st = "dead-id"      # the id of a worker that died, whatever process carries it now
                self.reports.append((rid, st))
            return real(runner_ids, *a, **k)

        orch.register_runner_heartbeats = rec
        return real

    @contextlib.contextmanager
    def installed(self):
        for k in RUNNER_KEYS:
            self.app.config_values.pop(k, None)
        self.app.config_values.update(self.conf)
        self.app.config_values["runner_loop_sleep_time_sec"] = 0
        real = self._wrap_heartbeats()
        try:
            with stand_ins(self.env):
                yield self
        finally:
            try:
                del self.app.orchestrator.register_runner_heartbeats
            except AttributeError:
                self.app.orchestrator.register_runner_heartbeats = real

    # -- operations -------------------------------------------------------------------------------
    def start(self) -> None:
        self.runner = runner_class(self.kind)(self.app)
        self.runner.running = True
        self.runner._on_start()
        self.learn()

    def cap(self) -> int:
        r = self.runner
        return {"persistent": lambda: r.num_processes, "multi": lambda: r.max_processes,
                "process": lambda: r.max_parallel_slots}[self.kind]()

    def die(self, idxs) -> None:
        idx2rid = {h.idx: rid for rid, h in self.handles().items()} if self.runner is not None else {}
        for i in idxs:
            if 0 <= i < len(self.env.procs):
                if self.env.procs[i].started:
                    self.ever_dead.add(i)
                    if i in idx2rid and self.env.procs[i].is_alive():
                        self.dead_rids.add(idx2rid[i])
                self.env.procs[i].die()

    def queued(self) -> int:
        return self.app.broker.count_invocations()

    def iterate(self) -> None:
        self.runner.runner_loop_iteration()
        self.learn()

    def beat(self) -> None:
        self.runner._report_child_runner_heartbeats()

    # -- observation ------------------------------------------------------------------------------
    def tracked(self) -> list[int]:
        return sorted(h.idx for h in self.handles().values())

    def alive(self) -> list[int]:
        return sorted(h.idx for h in self.handles().values() if h.is_alive())

    def public_alive(self) -> list[int]:
        return sorted(self.env.rid2idx.get(r, -1) for r in self.runner.get_active_child_runner_ids())

    def take_reports(self) -> list[tuple[int | str, str]]:
        out = []
        for rid, st in self.reports:
            out.append((self.env.rid2idx.get(rid, f"foreign:{rid[:8]}"), st))
        self.reports.clear()
        return out

    def render(self, reps) -> str:
        rr = [r for r, _ in reps]
        rtxt = fmt(rr) if all(isinstance(r, int) for r in rr) else "foreign"
        return f"t={fmt(self.tracked())} a={fmt(self.alive())} r={rtxt}"


# ------------------------------------------------------------------------------------------------
# scenarios
# ------------------------------------------------------------------------------------------------

_route_counter = itertools.count()
_stock: dict[int, list] = {}     # per app: registered invocation ids that are not queued at the moment (still REGISTERED)


def route(task, n: int) -> None:
    """Put n runnable invocations into the app's queue: re-queue registered ones taken out earlier, else call the task."""
    st = task.app.__dict__.setdefault("_c14_stock", [])      # (kept on the application object itself: `id()` values are re-used)
    take: list = []
    while st and len(take) < n:
        # only what is still runnable goes back: an id may be in stock as the second message of an invocation that has been claimed
        # through its first one in the meantime (the `retry` steps route a live worker's invocation again)
        i = st.pop(0)
        try:
            ok = i not in take and task.app.orchestrator.get_invocation_status(i).is_available_for_run()
        except Exception:  # noqa: BLE001
            ok = False
        if ok:
            take.append(i)
    if take:
        task.app.broker.route_invocations(take)
    for _ in range(n - len(take)):
        task(next(_route_counter), 1)


def drain(app) -> None:
    """Empty the queue (what is still queued was never handed to a runner, so it stays runnable: keep it in stock)."""
    st = app.__dict__.setdefault("_c14_stock", [])
    while (inv_id := app.broker.retrieve_invocation()) is not None:
        st.append(inv_id)


class Outcome:
    def __init__(self):
        self.lines: list[str] = []
        self.impl: list[str] = []
        self.trace: list[list] = []            # resolved steps (replayable)
        self.flags: list[tuple[str, str, int]] = []  # (signature, what, index of the failing step in trace)
        self.stats = {"retry-while-worker-tracked": 0, "die-whole-pool": 0, "die-unknown-or-dead-id": 0, "iter-with-dead-tracked": 0, "iter-all-dead": 0,
                      "beat-with-dead-tracked": 0, "iter-queue-loaded": 0}
        self.skipped = False


def judge_iteration(im: Impl, out: Outcome, before_tracked, before_alive, nprocs_before: int, q: int) -> None:
    """The property's own statement, evaluated on the real runner after one loop iteration."""
    mode = mode_of(im.kind, im.conf)
    hs = im.handles()
    dead_tracked = sorted(h.idx for h in hs.values() if not h.is_alive())
    tr = set(im.tracked())
    at = len(out.trace) - 1
    if dead_tracked:
        out.flags.append((f"{mode}:dead-worker-still-tracked",
                          f"after a loop iteration workers {dead_tracked} are dead but still tracked (tracked {sorted(tr)})", at))
    forgotten = sorted(set(before_alive) - tr)
    if forgotten:
        out.flags.append((f"{mode}:alive-worker-forgotten",
                          f"workers {forgotten} were alive and tracked before the iteration and are not tracked after it", at))
    strange = sorted(i for i in tr if i < nprocs_before and i not in before_alive)
    if strange and not dead_tracked:
        out.flags.append((f"{mode}:dead-worker-tracked-again", f"workers {strange} were dead or untracked and are tracked again", at))
    live = len(im.alive())
    want = expected_live(im.kind, im.conf, im.cpu, len(before_alive), q)
    if live < want:
        out.flags.append((f"{mode}:pool-below-capacity",
                          f"{live} live tracked workers after the loop iteration, documented capacity is {want} "
                          f"(alive before {len(before_alive)} of tracked {len(before_tracked)}, queued {q}, config {im.conf}, cpu {im.cpu})", at))
    elif live > want:
        out.flags.append((f"{mode}:pool-above-capacity",
                          f"{live} live tracked workers after the loop iteration, documented capacity is {want} "
                          f"(alive before {len(before_alive)}, queued {q}, config {im.conf}, cpu {im.cpu})", at))
    unstarted = sorted(h.idx for h in hs.values() if not h.started)
    if unstarted:
        out.flags.append((f"{mode}:tracked-never-started", f"workers {unstarted} are tracked but were never started", at))


def judge_reports(im: Impl, out: Outcome, reps, alive_after) -> None:
    mode = mode_of(im.kind, im.conf)
    at = len(out.trace) - 1
    for r, st in reps:
        if not isinstance(r, int):
            out.flags.append((f"{mode}:heartbeat-for-unknown-id", f"register_runner_heartbeats got {r}, which is no worker of this runner", at))
        elif st == "dead-id":
            out.flags.append((f"{mode}:heartbeat-for-dead-worker-id",
                              f"register_runner_heartbeats was given the runner id of worker {r}, which died: the id is reported alive again (carried by a "
                              f"replacement), so the dead worker's unfinished invocations never become recoverable", at))
        elif st == "dead" or r in im.ever_dead and st != "alive":
            out.flags.append((f"{mode}:heartbeat-for-dead-worker",
                              f"register_runner_heartbeats was given worker {r}, whose process is dead (died earlier: {r in im.ever_dead})", at))
        elif st == "unborn" and r not in alive_after:
            out.flags.append((f"{mode}:heartbeat-for-unstarted-worker",
                              f"worker {r} got a heartbeat before it existed and is not alive and tracked after the step", at))
    pa = im.public_alive()
    if pa != im.alive():
        out.flags.append((f"{mode}:active-children-not-the-alive-ones",
                          f"get_active_child_runner_ids() = {pa} but the alive tracked workers are {im.alive()}", at))


def do_step(im: Impl, task, out: Outcome, st: list) -> None:
    """Execute one resolved step on the real runner, log the model line and the canonical impl output."""
    op = st[0]
    if op == "route":
        route(task, st[1]); out.trace.append(st); return
    if op == "drain":
        drain(im.app); out.trace.append(st); return
    if op == "retry":
        # the invocation a live worker of a one-process-per-invocation runner is executing is retried: RETRY and back in the queue
        # while that worker is still exiting, so the SAME invocation can get a second worker (for the model: one more queued)
        from pynenc.invocation.status import InvocationStatus as S
        hs = im.handles()
        infos = {getattr(v, "process", v).idx: v for v in im.runner.child_runner_ids.values()}
        info = infos.get(st[1])
        inv_id = getattr(info, "invocation_id", None)
        if inv_id is not None and im.env.procs[st[1]].is_alive():
            inject_status(im.app, inv_id, S.RETRY, None, 0)
            im.app.broker.route_invocation(inv_id)
            out.stats["retry-while-worker-tracked"] += 1
        out.trace.append(st); return
    if op == "die":
        tr0, al0 = im.tracked(), im.alive()
        if tr0 and set(tr0) <= set(st[1]):
            out.stats["die-whole-pool"] += 1
        if any(i not in al0 for i in st[1]):
            out.stats["die-unknown-or-dead-id"] += 1
        im.die(st[1])
        out.trace.append(st)
        out.lines.append(f"pool.die {fmt(st[1])}")
        reps = im.take_reports()
        out.impl.append(im.render(reps))
        judge_reports(im, out, reps, im.alive())
    elif op == "beat":
        alive_now = im.alive()
        if len(alive_now) < len(im.tracked()):
            out.stats["beat-with-dead-tracked"] += 1
        im.beat()
        out.trace.append(st)
        out.lines.append("pool.beat")
        reps = im.take_reports()
        out.impl.append(im.render(reps))
        judge_reports(im, out, reps, im.alive())
        got = sorted(r for r, _ in reps if isinstance(r, int))
        if got != alive_now:
            mode = mode_of(im.kind, im.conf)
            missing = sorted(set(alive_now) - set(got))
            if missing:
                out.flags.append((f"{mode}:alive-worker-without-heartbeat",
                                  f"heartbeat report left out alive tracked workers {missing} (reported {got})", len(out.trace) - 1))
    elif op == "iter":
        bt, ba, n0 = im.tracked(), im.alive(), len(im.env.procs)
        q = im.queued()
        if len(ba) < len(bt):
            out.stats["iter-with-dead-tracked"] += 1
            if not ba:
                out.stats["iter-all-dead"] += 1
        if q:
            out.stats["iter-queue-loaded"] += 1
        im.iterate()
        out.trace.append(["iter", q])
        out.lines.append(f"pool.iter {q}")
        reps = im.take_reports()
        out.impl.append(im.render(reps))
        judge_iteration(im, out, bt, ba, n0, q)
        judge_reports(im, out, reps, im.alive())
    else:
        raise ValueError(op)


def run_scripted(app, task, kind: str, conf: dict, cpu: int, policy) -> Outcome:
    """`policy(im, k)` yields the next step given the runner's current state, or None to stop."""
    out = Outcome()
    im = Impl(app, kind, conf, cpu)
    drain(app)
    with im.installed():
        im.start()
        out.lines.append(start_line(kind, conf, cpu))
        out.impl.append(f"cap={im.cap()} " + im.render(im.take_reports()))
        k = 0
        while True:
            st = policy(im, k)
            if st is None:
                break
            if st[0] == "skip":
                out.skipped = True
                break
            do_step(im, task, out, st)
            k += 1
    return out


def fixed_policy(steps: list[list]):
    def pol(im, k):
        return steps[k] if k < len(steps) else None
    return pol


def subsets_policy(mask1: int, mask2: int, q0: int, q1: int):
    """start · [route q0] · iter · die S1 · beat · [route q1] · iter · die S2 · beat · iter · beat, where S1/S2 are the
    subsets of the then-tracked workers selected by the bit masks (positions in ascending creation order)."""
    plan = ["route0", "iter", "die1", "beat", "route1", "iter", "die2", "beat", "iter", "beat"]

    def pol(im: Impl, k: int):
        if k >= len(plan):
            return None
        p = plan[k]
        if p == "route0":
            return ["route", q0]
        if p == "route1":
            return ["route", q1]
        if p in ("die1", "die2"):
            m = mask1 if p == "die1" else mask2
            tr = im.tracked()
            if m >> len(tr):
                return ["skip"]      # this mask names positions the pool does not have: same scenario as a smaller mask
            return ["die", [w for j, w in enumerate(tr) if m >> j & 1]]
        return [p]
    return pol


def retry_policy(second_dies_first: bool):
    """one-process-per-invocation runners: route 1 · iter · the running invocation is retried (RETRY, re-queued) while its worker is
    still tracked · iter (a second worker for the same invocation) · the two workers die one after the other · iter x3 · route 2 · iter"""
    plan = ["route1", "iter", "retry", "iter", "dieA", "iter", "dieB", "iter", "iter", "route2", "iter", "beat"]

    def pol(im: Impl, k: int):
        if k >= len(plan):
            return None
        p = plan[k]
        tr = im.tracked()
        if p == "route1":
            return ["route", 1]
        if p == "route2":
            return ["route", 2]
        if p == "retry":
            return ["retry", tr[0]] if tr else ["skip"]
        if p in ("dieA", "dieB"):
            al = im.alive()
            if not al:
                return ["die", []]
            pick = (al[-1] if second_dies_first else al[0]) if p == "dieA" else al[0]
            return ["die", [pick]]
        return [p]
    return pol


def random_policy(rng, length: int):
    def pol(im: Impl, k: int):
        if k >= length:
            return None
        x = rng.random()
        tr, al = im.tracked(), im.alive()
        if x < 0.34:
            y = rng.random()
            if y < 0.2:
                ids = list(tr)                                    # the whole pool at once
            elif y < 0.4 and al:
                ids = [rng.choice(al)]
            elif y < 0.5:
                ids = [rng.randrange(len(im.env.procs) + 2)]      # possibly long gone / never created
            else:
                ids = [w for w in tr if rng.random() < 0.5]
            return ["die", sorted(set(ids))]
        if x < 0.70:
            return ["iter"]
        if x < 0.86:
            return ["beat"]
        if x < 0.93:
            return ["route", rng.choice([1, 1, 2, 3, 6])]
        if x < 0.97 and im.kind == "process" and al:
            return ["retry", rng.choice(al)]
        return ["drain"]
    return pol


# ------------------------------------------------------------------------------------------------
# the real BaseRunner.run() loop
# ------------------------------------------------------------------------------------------------

class _TimeShim:
    def __init__(self, hook):
        import time as _t
        self._t, self._hook = _t, hook

    def sleep(self, dt):
        self._hook()

    def __getattr__(self, name):
        return getattr(self._t, name)


def run_real_loop(app, task, kind: str, conf: dict, cpu: int, deaths: list[list[int] | str], q0: int) -> Outcome:
    """Runs `runner.run()` (the real loop: report heartbeats · atomic services · loop iteration · sleep) in a thread.
    The loop's `time.sleep` is the harness's hook: after pass k it lets `deaths[k]` die ('all' = every tracked worker,
    a list = positions in the tracked list) and stops the loop after the last pass."""
    import pynenc.runner.base_runner as BR

    out = Outcome()
    im = Impl(app, kind, conf, cpu)
    drain(app)
    route(task, q0)
    state = {"pass": 0, "err": None, "mark": 0, "q": 0, "before": None, "beat_called": False}

    def hook():
        try:
            k = state["pass"]
            reps = im.take_reports()
            nb = state["mark"]
            beat_reps, iter_reps = reps[:nb], reps[nb:]
            bt, ba, n0, alive_at_beat = state["before"]
            if not state["beat_called"]:
                # this pass of the loop made no heartbeat report at all: everything recorded belongs to the iteration
                beat_reps, iter_reps = [], reps
                if alive_at_beat:
                    out.trace.append(["beat"])
                    out.flags.append((f"{mode_of(kind, conf)}:alive-worker-without-heartbeat",
                                      f"run() loop pass {k} made no heartbeat report although workers {alive_at_beat} are alive and tracked", len(out.trace) - 1))
                    out.trace.pop()
            state["beat_called"] = False
            # the heartbeat report of this pass (made before the iteration, dead workers still tracked)
            out.trace.append(["beat"]); out.lines.append("pool.beat")
            out.impl.append(f"t={fmt(bt)} a={fmt(ba)} r={fmt([r for r, _ in beat_reps]) if all(isinstance(r, int) for r, _ in beat_reps) else 'foreign'}")
            for r, st in beat_reps:
                if st != "alive":
                    out.flags.append((f"{mode_of(kind, conf)}:heartbeat-for-dead-worker",
                                      f"run() loop pass {k}: register_runner_heartbeats was given worker {r} whose process is {st}", len(out.trace) - 1))
            if set(alive_at_beat) - set(r for r, _ in beat_reps):
                out.flags.append((f"{mode_of(kind, conf)}:alive-worker-without-heartbeat",
                                  f"run() loop pass {k}: reported {[r for r, _ in beat_reps]}, alive tracked {alive_at_beat}", len(out.trace) - 1))
            out.trace.append(["iter", state["q"]]); out.lines.append(f"pool.iter {state['q']}")
            out.impl.append(im.render(iter_reps))
            judge_iteration(im, out, bt, ba, n0, state["q"])
            judge_reports(im, out, iter_reps, im.alive())
            if k < len(deaths):
                d = deaths[k]
                tr = im.tracked()
                ids = tr if d == "all" else [tr[j] for j in d if j < len(tr)]
                im.die(ids)
                out.trace.append(["die", ids]); out.lines.append(f"pool.die {fmt(ids)}")
                out.impl.append(im.render([]))
            state["pass"] = k + 1
            if state["pass"] > len(deaths):
                im.runner.running = False
        except BaseException as e:  # noqa: BLE001
            state["err"] = e
            im.runner.running = False

    with im.installed():
        im.runner = runner_class(kind)(app)
        r = im.runner
        real_on_start, real_iter, real_beat = r._on_start, r.runner_loop_iteration, r._report_child_runner_heartbeats

        def on_start_obs():
            real_on_start()
            im.learn()
            out.lines.append(start_line(kind, conf, cpu))
            out.impl.append(f"cap={im.cap()} " + im.render(im.take_reports()))

        def beat_obs():
            im.learn()
            state["before"] = (im.tracked(), im.alive(), len(im.env.procs), im.alive())
            real_beat()
            state["mark"] = len(im.reports)
            state["beat_called"] = True

        def iter_obs():
            if not state["beat_called"]:
                im.learn()
                state["before"] = (im.tracked(), im.alive(), len(im.env.procs), im.alive())
                state["mark"] = 0
            state["q"] = im.queued()
            real_iter()
            im.learn()

        r._on_start, r.runner_loop_iteration, r._report_child_runner_heartbeats = on_start_obs, iter_obs, beat_obs
        r._check_atomic_services = lambda: None   # triggers / recovery are not this property's subject
        saved_time = BR.time
        BR.time = _TimeShim(hook)
        try:
            t = threading.Thread(target=r.run, daemon=True)
            t.start()
            t.join(timeout=60)
            if t.is_alive():
                r.running = False
                raise RuntimeError("run() loop did not stop")
        finally:
            BR.time = saved_time
    if state["err"] is not None:
        raise state["err"]
    return out


# ------------------------------------------------------------------------------------------------
# configuration spaces
# ------------------------------------------------------------------------------------------------

def paused_worker_dies(ctx: Ctx, app, task, backend: str) -> None:
    """ProcessRunner, one process per invocation: a worker whose invocation WAITS for another one is paused (SIGSTOP) and recorded in
    `wait_invocation`; it is killed in that state (the OOM killer does not care).  The loop must forget it like any other dead
    worker, send it no heartbeat, and give its slot to the queue - in particular to the invocation it was waiting for."""
    for slots, cpu in ((1, 1), (2, 2)):
        conf = {"min_parallel_slots": slots}
        im = Impl(app, "process", conf, cpu)
        drain(app)
        with im.installed():
            im.start()
            route(task, slots)
            im.iterate()                                   # the workers of the first invocations
            first = dict(im.runner.child_runner_ids)
            if not first:
                ctx.obligation("C14 paused-worker probe: the process runner starts a worker for a queued invocation", False, f"slots {slots}, cpu {cpu}")
                continue
            rid, info = next(iter(first.items()))
            route(task, 1)                                 # B: queued, what A's invocation waits for
            b_id = None
            q = app.broker.retrieve_invocation()
            if q is not None:
                b_id = q
                app.broker.route_invocation(q)
            im.runner.wait_invocation[b_id] = {info.invocation_id}      # what `_waiting_for_results` records for the paused worker
            im.die([getattr(info, "process", info).idx])                # ... and the paused worker is killed
            im.take_reports()
            for _ in range(5):
                im.iterate()
                im.beat()
            reps = im.take_reports()
            still = rid in im.runner.child_runner_ids
            beats_to_dead = [r for r, st in reps if st in ("dead", "dead-id")]
            alive_n = len(im.alive())
            ctx.count()
            ctx.distinct((backend, "paused-worker-dies", slots))
            if still or beats_to_dead or alive_n == 0:
                ctx.report(f"process:paused-worker-never-forgotten[{backend}]",
                           f"[{backend}] ProcessRunner with {slots} slot(s): the worker of an invocation that waits for a queued one is paused and then killed; after 5 loop "
                           f"iterations it is {'still tracked' if still else 'forgotten'}, heartbeats sent for dead workers: {beats_to_dead[:3]}, {alive_n} live worker(s) "
                           f"(the awaited invocation needs the slot)", {"family": "paused-worker", "backend": backend, "slots": slots, "cpu": cpu})


def waiting_workers_and_signals(ctx: Ctx, app, task, backend: str) -> None:
    """ProcessRunner: workers whose invocation waits are paused with SIGSTOP and resumed with SIGCONT.
    (a) a waiting worker dies right after the liveness check of an iteration, before that iteration signals it: the runner keeps
        running, forgets the worker at the next iteration and refills the pool;
    (b) three workers wait for one invocation, one of them dies while paused, the awaited invocation finishes: every LIVE waiter gets its
        SIGCONT (whatever the order in which the waiters are visited), none stays stopped for ever."""
    import signal as _signal

    from pynenc.invocation.status import InvocationStatus as S

    # ---- (a)
    im = Impl(app, "process", {"min_parallel_slots": 3}, 3)
    drain(app)
    with im.installed():
        im.start()
        route(task, 2)
        im.iterate()
        infos = list(im.runner.child_runner_ids.items())
        if len(infos) >= 2:
            (rid_a, a), (rid_b, b) = infos[0], infos[1]
            im.runner.wait_invocation[b.invocation_id] = {a.invocation_id}       # A waits for B (B is running in the other worker)
            real = im.runner._reclaim_available_slots
            once = []

            def reclaim():  # type: ignore[no-untyped-def]
                n = real()
                if not once:
                    once.append(1)
                    im.die([getattr(a, "process", a).idx])                      # A dies right after the liveness check
                return n

            im.runner._reclaim_available_slots = reclaim  # type: ignore[method-assign]
            err = None
            try:
                im.iterate()
            except BaseException as e:  # noqa: BLE001
                err = f"{type(e).__name__}: {e}"
            del im.runner._reclaim_available_slots
            running_after = bool(im.runner.running)
            route(task, 2)
            im.runner.running = True if running_after else im.runner.running
            for _ in range(3):
                im.iterate()
            still = rid_a in im.runner.child_runner_ids
            ctx.count()
            ctx.distinct((backend, "waiting-worker-dies-mid-iteration"))
            if err is not None or not running_after or still:
                ctx.report(f"process:waiting-worker-dies-mid-iteration[{backend}]",
                           f"[{backend}] ProcessRunner: a worker whose invocation waits for another one dies right after the liveness check of an iteration; that iteration "
                           f"{'raised ' + err if err else 'returned'}, the runner is {'still running' if running_after else 'SWITCHED OFF (running=False)'}, the dead worker is "
                           f"{'still tracked' if still else 'forgotten'} three iterations later", {"family": "waiting-signals", "backend": backend, "case": "a"})
    # ---- (b)
    for rnd in range(6):
        im = Impl(app, "process", {"min_parallel_slots": 4}, 4)
        drain(app)
        with im.installed():
            im.start()
            route(task, 4)
            im.iterate()
            infos = list(im.runner.child_runner_ids.values())
            if len(infos) < 4:
                continue
            waiters, awaited = infos[:3], infos[3]
            im.runner.wait_invocation[awaited.invocation_id] = {w.invocation_id for w in waiters}
            im.iterate()                                                         # the waiters are paused
            dead = waiters[rnd % 3]
            im.die([getattr(dead, "process", dead).idx])
            inject_status(app, awaited.invocation_id, S.SUCCESS, None, 0)          # the awaited invocation has finished
            im.env.os_kill.signals.clear()
            im.iterate()
            conts = {i for i, sg in im.env.os_kill.signals if sg == int(_signal.SIGCONT)}
            live = {getattr(w, "process", w).idx for w in waiters if w is not dead}
            ctx.count()
            ctx.distinct((backend, "three-waiters-one-dead", rnd % 3))
            if not live <= conts or not im.runner.running:
                ctx.report(f"process:live-waiter-never-resumed[{backend}]",
                           f"[{backend}] ProcessRunner: three paused workers wait for one invocation, one of them was killed, the awaited invocation finished: SIGCONT went to workers "
                           f"{sorted(conts)}, the live waiters are {sorted(live)} (runner running: {im.runner.running}) - a live worker stays stopped for ever", 
                           {"family": "waiting-signals", "backend": backend, "case": "b", "round": rnd})
                break


def all_configs(ctx: Ctx) -> list[tuple[str, dict, int]]:
    q = ctx.quick
    cfgs: list[tuple[str, dict, int]] = []
    for ms in ([1, 3] if q else [1, 2, 3, 5]):
        for num in ([0, 1, 2, 3, 5] if q else [0, 1, 2, 3, 4, 5, 7]):
            for cpu in ([1, 4] if q else [1, 2, 4]):
                cfgs.append(("persistent", {"min_parallel_slots": ms, "num_processes": num}, cpu))
    for mn in ([0, 1, 2, 4] if q else [0, 1, 2, 3, 4, 6]):
        for mx in ([0, 1, 3, 5] if q else [0, 1, 2, 3, 4, 5, 8]):
            for cpu in ([2] if q else [1, 2, 3]):
                for enf in (True, False):
                    cfgs.append(("multi", {"min_processes": mn, "max_processes": mx, "enforce_max_processes": enf}, cpu))
    for ms in ([1, 3] if q else [1, 2, 3, 5]):
        for cpu in ([1, 2, 4] if q else [1, 2, 3, 4, 6]):
            cfgs.append(("process", {"min_parallel_slots": ms}, cpu))
    return cfgs


def pool_bound(kind: str, conf: dict, cpu: int) -> int:
    cap = documented_capacity(kind, conf, cpu)
    return max(cap, conf.get("min_processes", 0)) if kind == "multi" else cap


# ------------------------------------------------------------------------------------------------
# the check
# ------------------------------------------------------------------------------------------------

def shrink(app, task, meta: dict, steps: list[list], sig: str) -> list[list]:
    """Greedy removal of steps while the same signature is still flagged on the real code (direct-call driver).
    Returns the executed trace of the smallest failing sequence (queue lengths as measured in that execution)."""
    def failing(st):
        st = [["iter"] if x[0] == "iter" else x for x in st]
        try:
            o = run_scripted(app, task, meta["kind"], meta["conf"], meta["cpu"], fixed_policy(st))
        except Exception:  # noqa: BLE001
            return None
        hit = [f for f in o.flags if f[0] == sig]
        return o.trace[: hit[0][2] + 1] if hit else None

    cur = failing(steps)
    if cur is None:
        return steps  # only the original driver (e.g. the run() loop) shows it: keep the input as found
    i = 0
    while i < len(cur):
        cand = failing(cur[:i] + cur[i + 1:])
        if cand is not None:
            cur = cand
        else:
            i += 1
    return cur


def run(ctx: Ctx) -> None:
    from harness.translate import pool as trpool

    lean_stage(ctx, trpool.gen, THEOREMS)
    drv = LeanDriver()
    ctx.cov["rule"] = (
        "scenario = (runner class, configuration, cpu count, backend, fault sequence); families: (A) for every pool of at most "
        "3 (quick) / 4 (thorough) workers every pair of death subsets (incl. none and the whole pool) around two loop iterations, "
        "queue empty and loaded; (B) seeded random sequences of die(any subset / whole pool / single / unknown or already dead id) · "
        "iter · beat · route · drain; (C) the real run() loop in a thread with deaths injected at its sleep; distinct+non-trivial = "
        "distinct (class, config, cpu, backend, resolved fault sequence) with at least one effective death")
    apps = {"mem": make_app("mem", ctx.tmp, app_id="c14mem"), "sqlite": make_app("sqlite", ctx.tmp, app_id="c14sql")}
    tasks = {k: a.task(T.add) for k, a in apps.items()}
    cfgs = all_configs(ctx)
    results: list[tuple[dict, Outcome]] = []
    hist: dict[str, int] = {"die": 0, "iter": 0, "beat": 0, "real-loop-passes": 0}
    by_mode: dict[str, int] = {}

    def record(meta: dict, out: Outcome) -> None:
        if out.skipped:
            return
        results.append((meta, out))
        key = (meta["kind"], tuple(sorted(meta["conf"].items())), meta["cpu"], meta["backend"], meta["family"] == "C",
               tuple((s[0], tuple(s[1]) if s[0] == "die" else s[1] if len(s) > 1 else 0) for s in out.trace))
        if any(s[0] == "die" and s[1] for s in out.trace):
            ctx.distinct(key)
        for s in out.trace:
            if s[0] in hist:
                hist[s[0]] += 1
        for k, v in out.stats.items():
            hist[k] = hist.get(k, 0) + v
        k = f"{mode_of(meta['kind'], meta['conf'])}/{meta['backend']}/{meta['family']}"
        by_mode[k] = by_mode.get(k, 0) + 1
        ctx.count(len(out.lines))

    for bk in ("mem", "sqlite"):
        paused_worker_dies(ctx, apps[bk], tasks[bk], bk)
        waiting_workers_and_signals(ctx, apps[bk], tasks[bk], bk)
    maxn = 3 if ctx.quick else 4
    # ---- (A) every pair of subsets ------------------------------------------------------------------
    order = list(cfgs)
    ctx.rng.shuffle(order)
    big: dict[str, int] = {}
    for kind, conf, cpu in order:
        n = pool_bound(kind, conf, cpu)
        if n > maxn:
            continue
        if kind == "persistent" or (kind == "multi" and conf["enforce_max_processes"]):
            queue_opts = [(0, 0)]
        elif kind == "multi":
            queue_opts = [(0, 0), (n + 1, 1), (1, n), (n, 0)]
        else:
            queue_opts = [(n + 1, 1), (1, n), (n, 0), (n, n)]
        if n == 4:      # thorough only: 256 pairs per queue option — a seeded sample of 4 configurations per runner mode
            m = mode_of(kind, conf)
            big[m] = big.get(m, 0) + 1
            if big[m] > 4:
                continue
            queue_opts = queue_opts[:1] + queue_opts[1:][: 1]
        for be in ("mem", "sqlite"):
            for q0, q1 in queue_opts:
                for m1 in range(1 << n):
                    for m2 in range(1 << n):
                        if ctx.quick and n == 3 and be == "sqlite" and (m1 * 8 + m2 + n) % 2:
                            continue        # quick: SQLite takes every other pair of the largest pools (mem takes all)
                        out = run_scripted(apps[be], tasks[be], kind, conf, cpu, subsets_policy(m1, m2, q0, q1))
                        record({"kind": kind, "conf": conf, "cpu": cpu, "backend": be, "family": "A"}, out)
    # ---- (B) random fault sequences ------------------------------------------------------------------
    reps = 3 if ctx.quick else 6
    for kind, conf, cpu in cfgs:
        for be in ("mem", "sqlite"):
            for _ in range(reps):
                length = ctx.rng.randint(6, 20 if ctx.quick else 48)
                out = run_scripted(apps[be], tasks[be], kind, conf, cpu, random_policy(ctx.rng, length))
                record({"kind": kind, "conf": conf, "cpu": cpu, "backend": be, "family": "B"}, out)
    # ---- (B') a retried invocation gets a second worker while the first is still tracked ------------------------------
    for kind, conf, cpu in cfgs:
        if kind != "process":
            continue
        for be in ("mem", "sqlite"):
            for flip in (False, True):
                out = run_scripted(apps[be], tasks[be], kind, conf, cpu, retry_policy(flip))
                record({"kind": kind, "conf": conf, "cpu": cpu, "backend": be, "family": "B"}, out)
    # ---- (C) the real run() loop ----------------------------------------------------------------------
    loop_cfgs = [c for c in cfgs if pool_bound(*c) <= 6]
    ctx.rng.shuffle(loop_cfgs)
    for kind, conf, cpu in loop_cfgs[: (30 if ctx.quick else 200)]:
        for be in ("mem", "sqlite"):
            npass = ctx.rng.randint(2, 5)
            deaths: list = []
            for _ in range(npass):
                y = ctx.rng.random()
                deaths.append("all" if y < 0.3 else sorted(set(ctx.rng.randrange(5) for _ in range(ctx.rng.randint(0, 3)))))
            q0 = ctx.rng.choice([0, 0, 2, 7])
            out = run_real_loop(apps[be], tasks[be], kind, conf, cpu, deaths, q0)
            hist["real-loop-passes"] += npass + 1
            record({"kind": kind, "conf": conf, "cpu": cpu, "backend": be, "family": "C", "loop": {"deaths": deaths, "q0": q0}}, out)

    # ---- compare with the model ---------------------------------------------------------------------
    lines = [ln for _, o in results for ln in o.lines]
    outs = drv.ask_many(lines)
    drv.close()
    pos = 0
    ndis = {"start": 0, "die": 0, "iter": 0, "beat": 0}
    first: dict[str, str] = {}
    disagreeing: list[tuple[dict, Outcome, int]] = []
    for meta, o in results:
        mo = outs[pos: pos + len(o.lines)]
        pos += len(o.lines)
        for j, (ln, i, m) in enumerate(zip(o.lines, o.impl, mo)):
            if i != m:
                fam = ln.split()[0].split(".")[1]
                ndis[fam] += 1
                first.setdefault(fam, f"{meta['kind']} {meta['conf']} cpu={meta['cpu']} {meta['backend']} family {meta['family']} step {j} "
                                      f"`{ln}` after {o.lines[:j][-6:]}: impl `{i}` model `{m}`")
                disagreeing.append((meta, o, j))
                break
    ctx.obligation("correspondence: _on_start == Pool.start (resolved capacity, initial pool) on mem and sqlite", ndis["start"] == 0,
                   f"{ndis['start']} disagreements, first: {first.get('start', '')}")
    ctx.obligation("correspondence: runner_loop_iteration == Pool.iteration (tracked ids, alive ids, ids registered while spawning)",
                   ndis["iter"] == 0, f"{ndis['iter']} disagreements, first: {first.get('iter', '')}")
    ctx.obligation("correspondence: _report_child_runner_heartbeats == Pool.heartbeatIds (ids given to register_runner_heartbeats)",
                   ndis["beat"] == 0, f"{ndis['beat']} disagreements, first: {first.get('beat', '')}")
    ctx.obligation("correspondence: worker deaths change nothing until the next iteration (Pool.die)", ndis["die"] == 0,
                   f"{ndis['die']} disagreements, first: {first.get('die', '')}")

    # ---- the property on the implementation ----------------------------------------------------------
    seen: set[str] = set()
    for meta, o in results:
        for sig, what, at in o.flags:
            if sig in seen:
                continue
            seen.add(sig)
            steps = o.trace[: at + 1]
            small = shrink(apps[meta["backend"]], tasks[meta["backend"]], meta, steps, sig)
            ctx.report(sig, f"{runner_class(meta['kind']).__name__} ({meta['backend']} backend, config {meta['conf']}, cpu_count {meta['cpu']}): "
                            f"{what}; found with fault sequence {steps}; smallest failing fault sequence {small}",
                       {"kind": meta["kind"], "conf": meta["conf"], "cpu": meta["cpu"], "backend": meta["backend"], "steps": small,
                        "found_with": steps, "family": meta["family"], "loop": meta.get("loop")})
    if disagreeing and not seen:
        meta, o, j = disagreeing[0]
        ctx.notes["first_disagreement"] = {"meta": dict(meta), "lines": o.lines[: j + 1], "impl": o.impl[: j + 1]}

    ctx.notes["scenarios"] = by_mode
    ctx.notes["steps"] = hist
    ctx.notes["configurations"] = len(cfgs)
    for meta, o in [r for r in results if any(s[0] == "die" and s[1] for s in r[1].trace)][:: max(1, len(results) // 7)][:7]:
        ctx.sample({"runner": meta["kind"], "conf": meta["conf"], "cpu": meta["cpu"], "backend": meta["backend"], "family": meta["family"],
                    "steps": o.trace[:9], "impl": o.impl[:7]})
    ctx.assumptions += [
        "a worker death is observed by the runner only through Process.is_alive() of the handle it tracks (stand-in processes; the OS is not modelled)",
        "deaths happen between loop iterations / heartbeat reports, not inside one (the property's quantifier)",
        "MultiThreadRunner without enforce_max_processes: capacity is the queue-driven formula; min_processes is only the initial pool size "
        "(theorem multi_queue_may_sit_below_min records that an idle pool is not refilled to min_processes)",
        "spawn failures (Process.start raising, pid None) are outside the quantifier",
    ]
    if not ctx.quick:
        thorough_rebuild(ctx)


# ------------------------------------------------------------------------------------------------
# replay
# ------------------------------------------------------------------------------------------------

def replay(data: dict) -> int:
    import tempfile

    r = data["replay"]
    tmp = tempfile.mkdtemp(prefix="verif-C14-replay-")
    try:
        app = make_app(r["backend"], tmp, app_id="c14replay")
        task = app.task(T.add)
        steps = [list(s) for s in r["steps"]]
        steps = [["iter"] if s[0] == "iter" else s for s in steps]
        out = run_scripted(app, task, r["kind"], r["conf"], r["cpu"], fixed_policy(steps))
        if not out.flags and r.get("loop"):   # found through the real run() loop only: replay it through that loop
            out = run_real_loop(app, task, r["kind"], r["conf"], r["cpu"], r["loop"]["deaths"], r["loop"]["q0"])
        for ln, i in zip(out.lines, out.impl):
            print(f"{ln:28s} -> {i}")
        for sig, what, at in out.flags:
            print(f"FAILS {sig}: {what}")
        return 1 if out.flags else 0
    finally:
        import shutil

        shutil.rmtree(tmp, ignore_errors=True)
