"""C19 — sync development mode and distributed execution give the same outcome.

Lean:   Model/Exec.lean (task programs, `evalSync` after ConcurrentInvocation, `evalDist` after DistributedInvocation.run +
        orchestrator + state backend), Props/C19.lean (sync_eq_dist on the `safe` programs, refutation of the full statement
        by the two lazy-sync witnesses, retry accounting, delivery order of group results, serializer hypothesis,
        order of counter / RETRY in set_invocation_retry).
Tie:    the same generated programs (harness/tasks.py `c19_*`: one generic scripted body, attempt counters and execution
        log kept in-process per run token) run (1) with dev_mode_force_sync_tasks, (2) on the in-memory stack and (3) on the
        SQLite stack, both with the real ThreadRunner in a background thread, and through `ex.sync` / `ex.dist` of the
        compiled model; outcome (value | exception type + args), executions per node with the `num_retries` each execution
        read, root `num_retries` and root executions are diffed.
Oracle: (independent of the model) sync outcome / executions / num_retries == distributed ones on both stacks; per invocation:
        executions ≤ max_retries + 1, every execution reads num_retries = number of earlier executions, and where the script
        alone decides (leaves, `early` raises) exactly the count the accounting rules give; direct flavour == plain flavour;
        a re-run never starts before the retry counter is incremented (increment delayed on purpose).
"""
from __future__ import annotations

import itertools
import json
import os
import threading
import time
import warnings
from collections import Counter

from harness.common import Ctx, LeanDriver, lean_stage, thorough_rebuild, tok

THEOREMS = [
    "invocation_sync_eq_dist", "retry_accounting_sync", "retry_accounting_dist", "always_retriable_runs_max_plus_one",
    "success_on_attempt_runs_k", "non_retriable_runs_once", "sync_eq_dist_refuted", "sync_group_stops_at_first_failure",
    "sync_eq_dist", "sync_outcome_eq_dist_inorder", "eager_sync_eq_dist", "eager_sync_eq_dist_any_order",
    "direct_flavour_irrelevant", "group_delivery_order_irrelevant", "group_failure_order_matters", "exception_identity_needs_roundtrip",
    "retry_status_before_counter_refuted", "retry_status_before_counter_unbounded", "retry_never_fewer_than_max_plus_one",
    "retry_counter_before_status_exact",
]

SIG_UNREAD = "sync-lazy:unread-invocation"
SIG_GROUP = "sync-lazy:group-stops-at-first-failure"
SIG_RACE = "dist-retry-race:rerun-before-increment"

NCLS = 4
RETRY_FOR = [[], [], ["C19Err"], ["LookupError", "ValueError"], ["KeyError"], ["Exception"], ["C19SubErr"], ["RetryError"],
             ["C19Other", "ConcurrencyRetryError"], ["ValueError", "C19Err", "KeyError"]]
KINDS = ["RetryError", "RetryError", "RetryError", "ConcurrencyRetryError", "C19Err", "C19SubErr", "C19Other", "ValueError",
         "KeyError", "LookupError"]
# (the last one is long enough to be externalised by the client data store when the failure is stored: default threshold 1024)
ARGS = [[], ["later"], ["a", 1], [3], ["k"], ["x", "y", "z"], ["big", "B" * 1500]]


def T():
    from harness import tasks

    return tasks


def mro_names(kind: str) -> list[str]:
    if kind == "C19Late":   # not looked up here: the class is to come into existence when it is first RAISED (see tasks.c19_late_cls)
        return ["C19Late"] + mro_names("RetryError")
    cls = T().c19_exc_types()[kind]
    return [c.__name__ for c in cls.__mro__ if c is not object]


# ------------------------------------------------------------------------------------------------
# programs
# ------------------------------------------------------------------------------------------------

def gen_exc(rng) -> tuple[str, list]:
    return rng.choice(KINDS), rng.choice(ARGS)


def gen_act(rng, final: bool = False) -> list:
    r = rng.random()
    if r < (0.62 if final else 0.42):
        return ["ret", rng.randint(-3, 9)]
    k, a = gen_exc(rng)
    return ["early" if rng.random() < 0.45 else "late", k, a]


def gen_node(rng, ids, depth: int, cls: int | None = None, may_direct: bool = True, lazy_ok: bool = True) -> dict:
    node = {
        "id": next(ids),
        "cls": rng.randrange(NCLS) if cls is None else cls,
        "direct": bool(may_direct and rng.random() < 0.4),
        "script": [gen_act(rng) for _ in range(rng.choice([0, 0, 1, 1, 2, 3]))],
        "dflt": gen_act(rng, final=True),
        "calls": [],
    }
    if depth > 0:
        for _ in range(rng.choice([0, 1, 1, 2, 2, 3]) if depth > 1 else rng.choice([0, 0, 1, 1, 2])):
            r = rng.random()
            if r < 0.55:
                node["calls"].append({"t": "single", "p": gen_node(rng, ids, depth - 1, lazy_ok=lazy_ok)})
            elif r < 0.88 or not lazy_ok:
                c = rng.randrange(NCLS)
                node["calls"].append({"t": "group", "direct": rng.random() < 0.4,
                                      "ps": [gen_node(rng, ids, depth - 1, cls=c, may_direct=False, lazy_ok=lazy_ok)
                                             for _ in range(rng.choice([1, 2, 2, 3]))]})
            else:
                node["calls"].append({"t": "forget", "p": gen_node(rng, ids, depth - 1, may_direct=False, lazy_ok=lazy_ok)})
    for c in node["calls"]:
        if c["t"] == "single" or (c["t"] == "group" and not c["direct"]):
            c["reads"] = rng.choice([1, 1, 2, 3])       # results may be read again (no effect in the model)
    if not node["calls"] and rng.random() < 0.3:
        # a body that returns None: every constant is 0 and the harness reads None as 0 (values of the model are integers)
        for a in node["script"] + [node["dflt"]]:
            if a[0] == "ret":
                a[1] = 0
        node["none"] = True
    return node


def gen_confs(rng) -> list:
    return [(rng.choice([0, 0, 1, 1, 2, 2, 3, 4]), rng.choice(RETRY_FOR)) for _ in range(NCLS)]


def leaf(i: int, cls: int, script: list, dflt: list, direct: bool = False, calls: list | None = None) -> dict:
    return {"id": i, "cls": cls, "direct": direct, "script": script, "dflt": dflt, "calls": calls or []}


def nodes_of(node: dict):
    yield node
    for c in node["calls"]:
        for p in ([c["p"]] if c["t"] != "group" else c["ps"]):
            yield from nodes_of(p)


def strip_direct(node: dict) -> dict:
    n = dict(node, direct=False, calls=[])
    for c in node["calls"]:
        if c["t"] == "group":
            n["calls"].append({"t": "group", "direct": False, "ps": [strip_direct(p) for p in c["ps"]], "reads": c.get("reads", 1)})
        else:
            n["calls"].append({"t": c["t"], "p": strip_direct(c["p"]), "reads": c.get("reads", 1)})
    return n


def has_direct(node: dict) -> bool:
    return any(n["direct"] for n in nodes_of(node)) or any(
        c["t"] == "group" and c["direct"] for n in nodes_of(node) for c in n["calls"])


# -- encoding for the Lean driver ------------------------------------------------------------------

def enc_exc(kind: str, args: list) -> list[str]:
    m = mro_names(kind)
    return [kind, str(len(m)), *m, str(len(args)), *[tok(json.dumps(a)) for a in args]]


def enc_act(a: list) -> list[str]:
    if a[0] == "ret":
        return ["R", str(a[1])]
    return ["E" if a[0] == "early" else "L", *enc_exc(a[1], a[2])]


def enc_prog(node: dict, confs: list) -> list[str]:
    mr, rf = confs[node["cls"]]
    out = ["N", str(node["id"]), str(mr), "1" if node["direct"] else "0", str(len(rf)), *rf, str(len(node["script"]))]
    for a in node["script"]:
        out += enc_act(a)
    out += enc_act(node["dflt"])
    out.append(str(len(node["calls"])))
    for c in node["calls"]:
        if c["t"] == "single":
            out += ["S", *enc_prog(c["p"], confs)]
        elif c["t"] == "forget":
            out += ["F", *enc_prog(c["p"], confs)]
        else:
            out += ["G", "1" if c["direct"] else "0", str(len(c["ps"]))]
            for p in c["ps"]:
                out += enc_prog(p, confs)
    return out


def parse_model(line: str) -> dict | None:
    parts = line.split(";")
    if len(parts) != 4:
        return None
    log = Counter()
    for e in parts[3].split(","):
        if e:
            i, s = e.split(":")
            log[(int(i), int(s))] += 1
    return {"out": parts[0].strip(), "retries": int(parts[1]), "runs": int(parts[2]), "log": log}


def canon_exc(e: BaseException) -> str:
    return (f"err {type(e).__name__} " + ",".join(tok(json.dumps(a, default=repr)) for a in e.args)).strip()


# ------------------------------------------------------------------------------------------------
# the three stacks
# ------------------------------------------------------------------------------------------------

_SERIAL = itertools.count()


class Stack:
    def __init__(self, kind: str, tmp: str, confs: list, tag: str):
        from harness.apps import make_app

        self.kind, self.confs = kind, confs
        n = next(_SERIAL)
        if kind == "sync":
            self.app = make_app("mem", tmp, app_id=f"c19_{tag}_sync_{n}", dev_mode_force_sync_tasks=True)
        else:
            self.app = make_app(kind, tmp, app_id=f"c19_{tag}_{kind}_{n}", db=os.path.join(tmp, f"c19_{tag}_{n}.db"),
                                runner_cls="ThreadRunner", min_threads=4, max_threads=8,
                                runner_loop_sleep_time_sec=0.002, invocation_wait_results_sleep_time_sec=0.002,
                                cached_status_time=0.0,
                                # housekeeping off the path: no recovery of "stuck" PENDING invocations on a loaded machine
                                atomic_service_check_interval_minutes=1000.0, max_pending_seconds=600.0)
        tasks = T()
        et = tasks.c19_exc_types()
        self.plain, self.direct, self.dgroup = [], [], []
        for i, (mr, rf) in enumerate(confs):
            opts = dict(max_retries=mr, retry_for=tuple(et[x] for x in rf))
            self.plain.append(self.app.task(getattr(tasks, f"c19_p{i}"), **opts))
            self.direct.append(self.app.direct_task(getattr(tasks, f"c19_d{i}"), **opts))
            self.dgroup.append(self.app.direct_task(getattr(tasks, f"c19_g{i}"), parallel_func=tasks.c19_fanout,
                                                    aggregate_func=tasks.c19_sum, **opts))
        self.thread: threading.Thread | None = None

    def reregister(self, confs: list) -> None:
        """the same functions registered again with other retry options on the living application (a re-deployed task module, an
        options change at run time): from now on these options apply, in sync mode and on the running runner alike"""
        tasks = T()
        et = tasks.c19_exc_types()
        self.confs = confs
        self.plain, self.direct, self.dgroup = [], [], []
        for i, (mr, rf) in enumerate(confs):
            opts = dict(max_retries=mr, retry_for=tuple(et[x] for x in rf))
            self.plain.append(self.app.task(getattr(tasks, f"c19_p{i}"), **opts))
            self.direct.append(self.app.direct_task(getattr(tasks, f"c19_d{i}"), **opts))
            self.dgroup.append(self.app.direct_task(getattr(tasks, f"c19_g{i}"), parallel_func=tasks.c19_fanout,
                                                    aggregate_func=tasks.c19_sum, **opts))

    def start(self) -> None:
        if self.kind == "sync":
            return
        _ = self.app.orchestrator, self.app.broker, self.app.state_backend, self.app.serializer, self.app.runner
        # ThreadRunner._waiting_for_results returns at once, so `while not final: waiting_for_results()` is a busy loop
        # that starves the worker threads; give each poll a 1 ms sleep (a scheduling decision only)
        runner = self.app.runner
        wait = runner._waiting_for_results
        runner._waiting_for_results = lambda *a, **k: (wait(*a, **k), time.sleep(0.001))[0]  # type: ignore[method-assign]
        self.thread = threading.Thread(target=self.app.runner.run, daemon=True)
        self.thread.start()
        t0 = time.time()
        while not self.app.runner.running and time.time() - t0 < 10:
            time.sleep(0.002)

    def idle(self) -> bool:
        """nothing queued and no worker thread alive"""
        if self.kind == "sync":
            return True
        try:
            return (all(not ti.thread.is_alive() for ti in list(self.app.runner.threads.values()))
                    and self.app.broker.count_invocations() == 0)
        except RuntimeError:
            return False

    def stop(self) -> None:
        if self.kind == "sync" or self.thread is None:
            return
        self.app.runner.stop_runner_loop()
        self.thread.join(5)


_HUNG: set[str] = set()  # stack kinds on which a program did not terminate (later batches get a short deadline)


def run_programs(stack: Stack, progs: list[dict], workers: int = 4, execs: int = 0) -> list[dict]:
    """Run every program on the stack (several in flight on the distributed stacks); returns per program:
    out, root retries (plain root), log [(id, key, k, seen)], ends [(key, k, 'val'|'err', x)], quiescent.
    `out` is "TIMEOUT" for a program that did not finish and "NOT-RUN" for one that could not be started because
    the worker slots were taken by programs that hang."""
    tasks = T()
    res: list[dict] = [{"out": "NOT-RUN", "log": [], "ends": [], "retries": None, "quiescent": True} for _ in progs]
    sem = threading.Semaphore(1 if stack.kind == "sync" else workers)
    # `execs` = executions the batch is expected to cause (an execution costs ~0.1 s on the SQLite stack)
    deadline = time.time() + (6.0 if stack.kind in _HUNG else 30.0 + 0.5 * len(progs) + (0.6 if stack.kind == "sqlite" else 0.1) * execs)

    def one(i: int) -> None:
        token = f"{stack.app.app_id}:{i}"
        st = tasks.c19_new_run(token, stack.plain, stack.direct, stack.dgroup)
        r = res[i]
        r["st"], r["token"] = st, token
        try:
            v = tasks.c19_call_root(token, progs[i])
            if v is None and progs[i].get("none"):
                v = 0       # a "none" root: None is the encoding of the model's 0
            r["out"] = f"val {v}" if isinstance(v, int) and not isinstance(v, bool) else f"val? {type(v).__name__}"
        except BaseException as e:  # noqa: BLE001 - the outcome of the program
            r["out"] = canon_exc(e)
        finally:
            sem.release()

    threads = []
    for i in range(len(progs)):
        if not sem.acquire(timeout=max(0.0, deadline - time.time())):
            break
        if stack.kind == "sync":
            res[i]["out"] = "TIMEOUT"
            one(i)
            continue
        res[i]["out"] = "TIMEOUT"  # until it finishes
        th = threading.Thread(target=one, args=(i,), daemon=True)
        th.start()
        threads.append(th)
    for th in threads:
        th.join(max(0.0, deadline - time.time()))
    started = [r for r in res if "st" in r]
    if any(r["out"] == "TIMEOUT" for r in started):
        _HUNG.add(stack.kind)
    # quiescence: every created invocation final, nothing queued, no worker thread alive (so every counter update has landed)
    deadline = max(deadline, time.time() + (3.0 if stack.kind in _HUNG else 20.0))
    for r in started:
        st = r["st"]
        while True:
            with st["lock"]:
                invs = list(st["invs"]) + ([st["root"]] if st["root"] is not None else [])
            pend = [x for x in invs if type(x).__name__ != "ConcurrentInvocation" and not x.status.is_final()]
            if not pend or time.time() > deadline:
                break
            time.sleep(0.003)
        r["quiescent"] = not pend
    calm = 0
    while calm < 4 and time.time() < deadline:  # also covers invocations the bodies cannot see (direct-task groups)
        calm = calm + 1 if stack.idle() else 0
        time.sleep(0.004)
    if calm < 4:
        for r in started:
            r["quiescent"] = False
    for r in started:
        st = r["st"]
        with st["lock"]:
            r["log"] = list(st["log"])
            r["ends"] = list(st["ends"])
        try:
            r["retries"] = st["root"].num_retries if st["root"] is not None else None
        except Exception as e:  # noqa: BLE001
            r["retries"] = f"error:{type(e).__name__}"
        tasks.C19_RUNS.pop(r["token"], None)
        del r["st"]
    return res


def summarize(r: dict) -> dict:
    """canonical observation of one run"""
    return {
        "out": r["out"],
        "retries": r["retries"],
        "runs": sum(1 for (_, key, _, _) in r["log"] if key == "r"),
        "log": Counter((i, s) for (i, _, _, s) in r["log"]),
    }


# ------------------------------------------------------------------------------------------------
# oracle on the implementation (does not use the model)
# ------------------------------------------------------------------------------------------------

def node_at(root: dict, key: str):
    """(node, how it was created: 'root' | 'single' | 'forget' | ('group', parent_key, attempt, call index, member index))"""
    parts = key.split(".")
    assert parts[0] == "r"
    node, how, i, pkey = root, "root", 1, "r"
    while i < len(parts):
        k, j = int(parts[i]), int(parts[i + 1])
        call = node["calls"][j]
        if call["t"] == "group":
            m = int(parts[i + 2])
            how = ("group", pkey, k, j, m)
            node = call["ps"][m]
            pkey = f"{pkey}.{k}.{j}.{m}"
            i += 3
        else:
            how = call["t"]
            node = call["p"]
            pkey = f"{pkey}.{k}.{j}"
            i += 2
    return node, how


def ancestors(key: str, root: dict) -> list[str]:
    """activation keys from the root down to `key` (inclusive)"""
    parts = key.split(".")
    out, node, i, cur = ["r"], root, 1, "r"
    while i < len(parts):
        k, j = int(parts[i]), int(parts[i + 1])
        call = node["calls"][j]
        if call["t"] == "group":
            m = int(parts[i + 2])
            cur = f"{cur}.{k}.{j}.{m}"
            node = call["ps"][m]
            i += 3
        else:
            cur = f"{cur}.{k}.{j}"
            node = call["p"]
            i += 2
        out.append(cur)
    return out


def retriable(kind: str, rf: list[str]) -> bool:
    m = mro_names(kind)
    return "RetryError" in m or any(x in m for x in rf)


def scripted_count(node: dict, confs: list) -> tuple[int, str, list | None] | None:
    """executions the accounting rules give, when the script alone decides every execution:
    (count, rule, final act) or None"""
    mr, rf = confs[node["cls"]]
    for k in range(mr + 1):
        a = node["script"][k] if k < len(node["script"]) else node["dflt"]
        if a[0] != "early" and node["calls"]:
            return None
        if a[0] == "ret":
            return k + 1, "success-on-attempt", a
        if not retriable(a[1], rf):
            return k + 1, "non-retriable", a
        if k == mr:
            return mr + 1, "always-retriable", a
    return None


def judge_stack(ctx: Ctx, prog: dict, confs: list, stack: str, r: dict, fam: str) -> set[str]:
    """per-invocation accounting on one stack; returns the signatures reported for this run"""
    sigs: set[str] = set()
    rep = {"prog": prog, "confs": confs, "stack": stack, "family": fam}
    if r["out"] == "NOT-RUN":
        return {"not-run"}
    if r["out"] == "TIMEOUT" or not r.get("quiescent", True):
        ctx.report(f"no-termination:{stack}", f"[{stack}] program did not finish: out={r['out']} quiescent={r.get('quiescent')}", rep)
        return {f"no-termination:{stack}"}
    by_key: dict[str, list] = {}
    for (i, key, k, seen) in r["log"]:
        by_key.setdefault(key, []).append((k, seen, i))
    for key, ex in by_key.items():
        node, _ = node_at(prog, key)
        mr, rf = confs[node["cls"]]
        ex.sort()
        foreign = sorted({i for (_, _, i) in ex if i != node["id"]})
        if foreign:
            # every call hands its callee the activation key of that callee: a body that runs under another member's key got
            # another call's arguments
            sig = f"arguments-of-another-call:{stack}"
            sigs.add(sig)
            ctx.report(sig, f"[{stack}] the body of node(s) {foreign} ran with the activation key {key}, which the program passes to node {node['id']}: "
                            f"a call of a group received arguments of another call of the group", rep)
            continue
        stale = [(k, s) for (k, s, _) in ex if s != k]
        if stale:
            sig = SIG_RACE if stack != "sync" and all(isinstance(s, int) and s < k for k, s in stale) else f"num-retries-inside-body:{stack}"
            sigs.add(sig)
            ctx.report(sig, f"[{stack}] execution #{stale[0][0]} of node {node['id']} (activation {key}) read num_retries={stale[0][1]}; "
                            f"(execution, num_retries read) = {[(k, s) for k, s, _ in ex][:10]}, max_retries={mr}", rep)
        if len(ex) > mr + 1:
            sig = SIG_RACE if stale and stack != "sync" else f"extra-execution:{stack}"
            sigs.add(sig)
            ctx.report(sig, f"[{stack}] node {node['id']} (activation {key}) executed {len(ex)} times, max_retries={mr}", rep)
        want = scripted_count(node, confs)
        if want and len(ex) != want[0] and not (stale and stack != "sync"):
            sig = f"retry-accounting:{want[1]}:{stack}"
            sigs.add(sig)
            ctx.report(sig, f"[{stack}] node {node['id']} (activation {key}, max_retries={mr}, retry_for={rf}) executed {len(ex)} times, "
                            f"the rule '{want[1]}' gives {want[0]}", rep)
    want = scripted_count(prog, confs)
    if want and not sigs:
        a = want[2]
        exp = f"val {a[1]}" if a[0] == "ret" else ("err " + a[1] + " " + ",".join(tok(json.dumps(x)) for x in a[2])).strip()
        if not prog["calls"] or a[0] == "early":
            if r["out"] != exp:
                sig = f"scripted-outcome:{stack}"
                sigs.add(sig)
                ctx.report(sig, f"[{stack}] root scripted to end with {exp!r} gave {r['out']!r}", rep)
    if r["retries"] is not None:
        runs = sum(1 for (_, key, _, _) in r["log"] if key == "r")
        if r["retries"] != runs - 1 and not sigs:
            sig = f"root-num-retries:{stack}"
            sigs.add(sig)
            ctx.report(sig, f"[{stack}] root executed {runs} times but invocation.num_retries = {r['retries']}", rep)
    return sigs


def failed_keys(r: dict) -> set[str]:
    """activations whose last execution raised"""
    last: dict[str, tuple] = {}
    for (key, k, what, _) in r["ends"]:
        if key not in last or last[key][0] < k:
            last[key] = (k, what)
    return {k for k, (_, w) in last.items() if w == "err"}


def judge_modes(ctx: Ctx, prog: dict, confs: list, sync: dict, dist: dict, stack: str, fam: str) -> set[str]:
    """sync run vs distributed run of the same program"""
    rep = {"prog": prog, "confs": confs, "stack": stack, "family": fam}
    sigs: set[str] = set()
    skeys = {key for (_, key, _, _) in sync["log"]}
    extra = sorted({key for (_, key, _, _) in dist["log"]} - skeys)
    roots: dict[str, str] = {}
    sfailed = failed_keys(sync)
    unexplained = []
    for key in extra:
        top = next(a for a in ancestors(key, prog) if a not in skeys)
        if top in roots:
            continue
        _, how = node_at(prog, top)
        if how == "forget":
            roots[top] = SIG_UNREAD
        elif isinstance(how, tuple):
            _, pkey, k, j, m = how
            if any(f"{pkey}.{k}.{j}.{m2}" in sfailed for m2 in range(m)):
                roots[top] = SIG_GROUP
            else:
                unexplained.append(top)
        else:
            unexplained.append(top)
    for top, sig in roots.items():
        node, how = node_at(prog, top)
        sigs.add(sig)
        if sig == SIG_UNREAD:
            ctx.report(sig, f"node {node['id']} is invoked and its result never read: executed "
                            f"{sum(1 for (_, key, _, _) in dist['log'] if key == top)} time(s) on the {stack} stack, never in sync mode "
                            f"(ConcurrentInvocation runs the body only inside .result)", rep)
        else:
            ctx.report(sig, f"member #{how[4]} (node {node['id']}) of a parallelize group comes after a member that fails: executed on the "
                            f"{stack} stack, never in sync mode (ConcurrentInvocationGroup.results stops at the first failing member)", rep)
    # what remains after removing the explained executions must agree exactly
    explained = tuple(roots)
    dlog = Counter((i, k, s) for (i, key, k, s) in dist["log"]
                   if not any(key == t or key.startswith(t + ".") for t in explained))
    slog = Counter((i, k, s) for (i, _, k, s) in sync["log"])
    if unexplained or dlog != slog:
        sig = f"sync-vs-dist:executions:{stack}"
        sigs.add(sig)
        d = (dlog - slog) or (slog - dlog)
        ctx.report(sig, f"executions differ between sync mode and the {stack} stack: (node, execution, num_retries read) "
                        f"only on one side {sorted(d.items())[:6]}; activations only distributed {unexplained[:4]}", rep)
    if sync["out"] != dist["out"]:
        sig = f"sync-vs-dist:outcome:{stack}"
        sigs.add(sig)
        ctx.report(sig, f"sync mode gives {sync['out']!r}, the {stack} stack gives {dist['out']!r}", rep)
    if sync["retries"] != dist["retries"]:
        sig = f"sync-vs-dist:num-retries:{stack}"
        sigs.add(sig)
        ctx.report(sig, f"root num_retries: sync {sync['retries']}, {stack} {dist['retries']}", rep)
    return sigs


# ------------------------------------------------------------------------------------------------
# the check
# ------------------------------------------------------------------------------------------------

def probe_sync_is_eager(tmp: str) -> bool:
    """does development mode run an invocation whose result is never read?  (selects the model evaluator)"""
    st = Stack("sync", tmp, [(0, [])] * NCLS, "probe")
    p = leaf(1, 0, [], ["ret", 1], calls=[{"t": "forget", "p": leaf(2, 0, [], ["ret", 2])}])
    r = run_programs(st, [p])[0]
    return any(i == 2 for (i, _, _, _) in r["log"])


def fixed_families(rng) -> list[tuple[str, list, list[dict]]]:
    """hand-built families: (name, confs, programs)"""
    fams = []
    R = ["late", "RetryError", ["later"]]
    confs = [(0, []), (2, ["C19Err"]), (1, ["LookupError", "ValueError"]), (3, ["KeyError"])]
    lazy = [
        leaf(1, 0, [], ["ret", 1], calls=[{"t": "forget", "p": leaf(2, 1, [R], ["ret", 3])}]),
        leaf(1, 2, [], ["ret", 1], calls=[{"t": "group", "direct": False, "ps": [leaf(2, 1, [], ["early", "ValueError", ["x"]]), leaf(3, 1, [], ["ret", 4])]}]),
        leaf(1, 2, [], ["ret", 1], calls=[{"t": "group", "direct": True, "ps": [leaf(2, 0, [], ["ret", 1]), leaf(3, 0, [], ["late", "C19Other", []]), leaf(4, 0, [], ["ret", 4])]}]),
    ]
    fams.append(("lazy-sync", confs, lazy))
    acc = []
    for cls in range(NCLS):
        mr = confs[cls][0]
        acc.append(leaf(1, cls, [], R))                                            # always retriable
        acc.append(leaf(1, cls, [], R, direct=True))
        for k in range(mr + 2):                                                    # success on attempt k + 1 (or too late)
            acc.append(leaf(1, cls, [R] * k, ["ret", 7]))
        acc.append(leaf(1, cls, [], ["early", "C19Other", ["no"]]))                # non-retriable
        acc.append(leaf(1, cls, [R], ["late", "C19Other", [1]]))                   # retried once, then non-retriable
        acc.append(leaf(1, 0, [], ["ret", 1], calls=[{"t": "single", "p": leaf(2, cls, [], R, direct=bool(cls % 2))}]))
        acc.append(leaf(1, 0, [], ["ret", 1], calls=[{"t": "group", "direct": bool(cls % 2), "ps": [leaf(2, cls, [R], ["ret", 2]), leaf(3, cls, [], ["ret", 3])]}]))
    fams.append(("accounting", confs, acc))
    ident = []
    kinds = sorted(set(KINDS)) + ["C19Late"]
    for kind in kinds:
        for a in (ARGS if kind in ("RetryError", "C19SubErr", "KeyError") else [rng.choice(ARGS), ["later"]]):
            inner = leaf(2, 1, [], ["late", kind, a], direct=rng.random() < 0.5)
            ident.append(leaf(1, 0, [], ["early", kind, a]))
            ident.append(leaf(1, 2, [], ["ret", 0], direct=rng.random() < 0.5, calls=[{"t": "single", "p": inner}]))
    fams.append(("exception-identity", confs, ident))
    return fams


def run(ctx: Ctx) -> None:
    warnings.filterwarnings("ignore")
    lean_stage(ctx, None, THEOREMS)
    drv = LeanDriver()
    old_hook = threading.excepthook
    threading.excepthook = lambda a: None  # DistributedInvocation.run re-raises in the worker thread by design
    try:
        _run(ctx, drv)
    finally:
        threading.excepthook = old_hook
        drv.close()
    if not ctx.quick:
        thorough_rebuild(ctx)


def _run(ctx: Ctx, drv: LeanDriver) -> None:
    rng = ctx.rng
    eager = probe_sync_is_eager(ctx.tmp)
    sync_op = "ex.eager" if eager else "ex.sync"
    ctx.notes["sync_mode_executes_unread_invocations"] = eager
    ctx.cov["rule"] = ("one evaluation = one program on one stack or one model evaluator; distinct+non-trivial = distinct "
                       "(configuration, program) pairs with a sub-task call or a retry, run in sync mode and on the in-memory stack "
                       "(a budgeted sample of them also on the SQLite stack, ~0.1 s per execution there)")
    # cap = executions per program; sq_* = executions on the SQLite stack per family
    n_conf, n_prog, cap, sq_fixed, sq_random = (4, 24, 40, 45, 28) if ctx.quick else (24, 60, 90, 300, 80)
    families = [(f, c, ps, sq_fixed) for f, c, ps in fixed_families(rng)]
    for c in range(n_conf):
        confs = gen_confs(rng)
        progs = [gen_node(rng, itertools.count(1), rng.choice([0, 1, 1, 2, 2, 3]), lazy_ok=(i % 4 != 0)) for i in range(n_prog * 3)]
        for p in progs:
            p["root_reads"] = rng.choice([1, 2, 2])   # the caller of the program reads a successful result again
        families.append((f"random-{c}", confs, progs, sq_random))

    stats = Counter()
    nd = Counter()
    ncmp = Counter()
    first: dict[str, tuple] = {}
    for fam, confs, cand, sq_budget in families:
        # model first: it also classifies the inputs (size cap; programs whose groups have two failing members have no
        # deterministic distributed outcome and are handled by the dedicated family below)
        lines = []
        for p in cand:
            e = " ".join(enc_prog(p, confs))
            lines += [f"{sync_op} {e}", f"ex.dist {e}", f"ex.class {e}"]
        outs = drv.ask_many(lines)
        progs, model = [], []
        for i, p in enumerate(cand):
            ms, md, cl = parse_model(outs[3 * i]), parse_model(outs[3 * i + 1]), outs[3 * i + 2]
            if ms is None or md is None or "=" not in cl:
                ctx.obligation("model accepts every generated program", False, f"{lines[3 * i][:200]} -> {outs[3 * i][:80]}")
                continue
            if fam.startswith("random") and len(progs) >= n_prog:
                break
            if sum(md["log"].values()) > cap:
                stats["skipped: too many executions"] += 1
                continue
            if "unamb=true" not in cl:
                stats["skipped: two failing members in one group (outcome depends on completion order)"] += 1
                continue
            progs.append(p)
            model.append((ms, md, "safe=true" in cl))
        ctx.count(3 * len(progs))
        if not progs:
            continue
        # the SQLite sample of this family
        order = list(range(len(progs)))
        rng.shuffle(order)
        sq, spent = [], 0
        for i in order:
            n = sum(model[i][1]["log"].values())
            if spent + n <= sq_budget:
                sq.append(i)
                spent += n
        sq.sort()
        runs: dict[str, dict[int, dict]] = {}
        for kind in ("sync", "mem", "sqlite"):
            idx = sq if kind == "sqlite" else list(range(len(progs)))
            st = Stack(kind, ctx.tmp, confs, f"{ctx.seed}")
            st.start()
            try:
                rs = run_programs(st, [progs[i] for i in idx], workers=2 if kind == "sqlite" else 4,
                                  execs=sum(sum(model[i][1]["log"].values()) for i in idx))
            finally:
                st.stop()
            runs[kind] = dict(zip(idx, rs))
            ctx.count(len(idx))
        # direct flavour == plain flavour (sync mode)
        dprogs = [(i, strip_direct(p)) for i, p in enumerate(progs) if has_direct(p)]
        if dprogs:
            st = Stack("sync", ctx.tmp, confs, f"{ctx.seed}")
            plain_runs = run_programs(st, [p for _, p in dprogs])
            ctx.count(len(dprogs))
            for (i, _), pr in zip(dprogs, plain_runs):
                a, b = summarize(runs["sync"][i]), summarize(pr)
                stats["direct flavour vs plain flavour"] += 1
                if (a["out"], a["log"]) != (b["out"], b["log"]):
                    ctx.report("direct-vs-plain:sync", f"with direct_task wrappers: {a['out']!r}, {sum(a['log'].values())} executions; the same "
                               f"program with plain tasks: {b['out']!r}, {sum(b['log'].values())} executions",
                               {"prog": progs[i], "confs": confs, "stack": "sync", "family": fam})
        for i, p in enumerate(progs):
            ms, md, safe = model[i]
            nontrivial = any(n["calls"] for n in nodes_of(p)) or sum(md["log"].values()) > 1
            if nontrivial:
                ctx.distinct(json.dumps([confs, p], sort_keys=True))
            stats["programs"] += 1
            stats["programs: safe" if safe else "programs: lazy-sensitive"] += 1
            for n in nodes_of(p):
                for cc in n["calls"]:
                    stats[f"calls: {cc['t']}" + ("/direct" if cc.get("direct") or (cc["t"] == "single" and cc["p"]["direct"]) else "")] += 1
            stats["outcome: " + " ".join(md["out"].split(" ")[:1 if md["out"].startswith("val") else 2])] += 1
            stats[f"root retries: {md['retries']}"] += 1
            kinds = [k for k in ("sync", "mem", "sqlite") if i in runs[k]]
            sigs = {}
            for kind in kinds:
                sigs[kind] = judge_stack(ctx, p, confs, kind, runs[kind][i], fam)
            for kind in kinds[1:]:
                if not any(x == SIG_RACE or x.startswith(("no-termination", "not-run")) for x in sigs[kind]):  # those runs differ for that reason
                    sigs[kind] |= judge_modes(ctx, p, confs, runs["sync"][i], runs[kind][i], kind, fam)
            # correspondence with the model
            for kind in kinds:
                m = ms if kind == "sync" else md
                obs = summarize(runs[kind][i])
                ncmp[kind] += 1
                # a run on which the implementation itself breaks the retry accounting is a finding, not a model disagreement
                excused = any(s == SIG_RACE or s.startswith(("extra-execution", "no-termination", "not-run")) for s in sigs[kind])
                same = (obs["out"] == m["out"] and obs["log"] == m["log"] and obs["runs"] == m["runs"]
                        and (obs["retries"] is None or obs["retries"] == m["retries"]))
                if not same and not excused:
                    nd[kind] += 1
                    first.setdefault(kind, (fam, p, confs, {k: (v if k != "log" else sorted(v.items())) for k, v in obs.items()},
                                            {k: (v if k != "log" else sorted(v.items())) for k, v in m.items()}))
                elif excused:
                    stats[f"excused from correspondence ({kind})"] += 1
            if len(ctx.cov["samples"]) < 6 and nontrivial and rng.random() < 0.15:
                ctx.sample({"family": fam, "confs": confs, "prog": p, "model_sync": ms["out"], "model_dist": md["out"],
                            "executions": sum(md["log"].values()), **{k: runs[k][i]["out"] for k in kinds}})
    for kind, what in (("sync", f"dev_mode_force_sync_tasks == {sync_op}"), ("mem", "in-memory stack + ThreadRunner == ex.dist"),
                       ("sqlite", "SQLite stack + ThreadRunner == ex.dist")):
        ctx.obligation(f"correspondence: {what} (outcome, executions with the num_retries each read, root num_retries, root executions) "
                       f"on {ncmp[kind]} programs", nd[kind] == 0 and ncmp[kind] > 0, f"{nd[kind]} disagreements, first {first.get(kind)}")
    ctx.notes["programs_per_stack"] = dict(ncmp)

    race_probe(ctx, drv, stats)
    multi_failure(ctx, drv, stats)
    reregistration(ctx, drv, stats)
    ctx.notes["histogram"] = dict(sorted(stats.items()))
    ctx.assumptions += [
        "a stored exception comes back from the state backend unchanged (hypothesis `rt` of the theorems; C05/C15) — exercised for "
        "every exception class of the catalogue with several argument lists, through one and two invocation levels",
        "bodies are pure and consume every result they ask for; a body that catches a sub-task's exception and reads `.result` again "
        "is outside the program language (sync mode would re-execute the failed invocation, distributed mode re-raises the stored exception)",
        "group results are compared as multisets (bodies sum them): DistributedInvocationGroup.results yields in completion order, "
        "ConcurrentInvocationGroup.results in list order; programs with two failing members in one group are checked by the dedicated family only",
        "executions are counted after quiescence (every created invocation final, broker empty, no worker thread alive)",
        "ThreadRunner's busy wait for results gets a 1 ms sleep per poll (scheduling only; without it the worker threads starve under the GIL)",
    ]


def race_probe(ctx: Ctx, drv: LeanDriver, stats: Counter) -> None:
    """set_invocation_retry must count the retry before RETRY is visible: with the increment delayed on purpose, an awaited
    invocation must still be executed exactly max_retries + 1 times."""
    R = ["late", "RetryError", ["later"]]
    confs = [(0, []), (2, []), (1, []), (3, [])]
    progs = [leaf(1, 0, [], ["ret", 1], calls=[{"t": "single", "p": leaf(2, c, [], R, direct=d)}]) for c, d in ((1, False), (2, True), (3, False))]
    for kind in ("mem", "sqlite"):
        st = Stack(kind, ctx.tmp, confs, f"{ctx.seed}r")
        orch = st.app.orchestrator
        orig = orch.increment_invocation_retries

        delay = 0.06 if kind == "mem" else 0.3  # one runner loop iteration on SQLite takes ~0.1 s

        def slow(inv_id, orig=orig, delay=delay):  # a scheduling decision only: the call still happens, later
            time.sleep(delay)
            orig(inv_id)

        orch.increment_invocation_retries = slow  # type: ignore[method-assign]
        st.start()
        try:
            rs = run_programs(st, progs, workers=3)
        finally:
            st.stop()
            orch.increment_invocation_retries = orig  # type: ignore[method-assign]
        ctx.count(len(progs))
        bad = 0
        for p, r in zip(progs, rs):
            stats["race probe runs"] += 1
            child = p["calls"][0]["p"]
            mr = confs[child["cls"]][0]
            n = sum(1 for (i, _, _, _) in r["log"] if i == 2)
            readings = sorted((k, s) for (i, _, k, s) in r["log"] if i == 2)
            if n > mr + 1 and any(isinstance(s, int) and s < k for k, s in readings):
                bad += 1
                still = drv.ask(f"ex.racy {mr} {n} " + "0" * n)
                ctx.report(SIG_RACE, f"[{kind}] child with max_retries={mr} that always raises RetryError, awaited by its parent, with "
                           f"increment_invocation_retries delayed by {int(delay * 1000)} ms: executed {n} times (expected {mr + 1}), "
                           f"(execution, num_retries read) = {readings}, parent saw {r['out']!r}; model of the old order with no increment "
                           f"landed in time: still retrying after {still} executions",
                           {"prog": p, "confs": confs, "stack": kind, "family": "race-probe", "delay_increment_s": delay})
            else:
                judge_stack(ctx, p, confs, kind, r, "race-probe")
        stats[f"race probe: runs with extra executions ({kind})"] += bad


def reregistration(ctx: Ctx, drv: LeanDriver, stats: Counter) -> None:
    """one application per mode lives through TWO registrations of the same functions with different retry options; the programs
    run after the second registration must behave as the model does under the second options - in sync mode and on the stacks whose
    runner has been resolving these tasks all along"""
    rng = ctx.rng
    for rnd in range(1 if ctx.quick else 4):
        confs1 = gen_confs(rng)
        confs2 = [((mr + rng.choice([1, 2, 3])) % 5, rng.choice(RETRY_FOR) if rng.random() < 0.5 else rf) for mr, rf in confs1]
        cand = [gen_node(rng, itertools.count(1), rng.choice([0, 1, 1, 2]), lazy_ok=False) for _ in range(30)]
        progs, models = [], []
        for p in cand:
            outs = drv.ask_many([f"ex.dist {' '.join(enc_prog(p, c))}" for c in (confs1, confs2)] + [f"ex.class {' '.join(enc_prog(p, confs2))}", f"ex.class {' '.join(enc_prog(p, confs1))}"])
            m1, m2 = parse_model(outs[0]), parse_model(outs[1])
            if m1 is None or m2 is None or "unamb=true" not in outs[2] or "unamb=true" not in outs[3] or "safe=true" not in outs[2]:
                continue
            if sum(m1["log"].values()) > 25 or sum(m2["log"].values()) > 25:
                continue
            differs = (m1["out"], m1["log"]) != (m2["out"], m2["log"])
            if differs or len(progs) < 3:
                progs.append(p)
                models.append((m2, differs))
            if len(progs) >= (6 if ctx.quick else 12):
                break
        if not progs:
            continue
        runs = {}
        for kind in ("sync", "mem") + (() if ctx.quick else ("sqlite",)):
            st = Stack(kind, ctx.tmp, confs1, f"{ctx.seed}r{rnd}")
            st.start()
            try:
                run_programs(st, progs, workers=2 if kind == "sqlite" else 4, execs=60)     # under the first registration
                st.reregister(confs2)
                runs[kind] = run_programs(st, progs, workers=2 if kind == "sqlite" else 4, execs=60)
            finally:
                st.stop()
            ctx.count(2 * len(progs))
        for i, p in enumerate(progs):
            m2, differs = models[i]
            stats["programs run after a second registration" + (" (options matter)" if differs else "")] += 1
            ctx.distinct(json.dumps(["rereg", confs1, confs2, p], sort_keys=True))
            for kind, rs in runs.items():
                obs = summarize(rs[i])
                if (obs["out"], obs["log"]) != (m2["out"], m2["log"]):
                    ctx.report(f"stale-task-options:{kind}",
                               f"[{kind}] the task functions were registered with {confs1} and then again with {confs2}; a program run afterwards gives {obs['out']!r} with "
                               f"{sum(obs['log'].values())} executions, the options now in force give {m2['out']!r} with {sum(m2['log'].values())} executions"
                               + ("" if kind == "sync" else f" (sync mode: {summarize(runs['sync'][i])['out']!r})"),
                               {"prog": p, "confs": confs2, "confs_before": confs1, "stack": kind, "family": "reregistration"})


def multi_failure(ctx: Ctx, drv: LeanDriver, stats: Counter) -> None:
    """two members of one group fail differently: sync reports the first in list order, distributed whichever is delivered first"""
    confs = [(0, []), (1, []), (0, ["ValueError"]), (0, [])]
    a, b = ["early", "ValueError", ["first"]], ["late", "KeyError", ["second"]]
    progs = [leaf(1, 0, [], ["ret", 0], calls=[{"t": "group", "direct": d, "ps": [leaf(2, 3, [], a), leaf(3, 3, [], ["ret", 1]), leaf(4, 3, [], b)]}])
             for d in (False, True)]
    exp = {"err ValueError " + tok(json.dumps("first")), "err KeyError " + tok(json.dumps("second"))}
    outs = {}
    for kind in ("sync", "mem", "sqlite"):
        st = Stack(kind, ctx.tmp, confs, f"{ctx.seed}m")
        st.start()
        try:
            outs[kind] = run_programs(st, progs)
        finally:
            st.stop()
        ctx.count(len(progs))
    for i, p in enumerate(progs):
        m = parse_model(drv.ask("ex.sync " + " ".join(enc_prog(p, confs))))
        stats["two failing members in one group"] += 1
        rep = {"prog": p, "confs": confs, "family": "multi-failure"}
        if outs["sync"][i]["out"] != "err ValueError " + tok(json.dumps("first")) or (m and m["out"] != outs["sync"][i]["out"]):
            ctx.report("group-multi-failure:sync", f"sync mode must report the first failing member in list order, got {outs['sync'][i]['out']!r}", rep)
        for kind in ("mem", "sqlite"):
            if outs[kind][i]["out"] not in exp:
                ctx.report(f"group-multi-failure:{kind}", f"[{kind}] the consumer of a group with two failing members saw {outs[kind][i]['out']!r}, "
                           f"not the exception of one of them", dict(rep, stack=kind))
            n = Counter(j for (j, _, _, _) in outs[kind][i]["log"])
            if (n[2], n[3], n[4]) != (1, 1, 1):
                ctx.report(f"group-members-executed:{kind}", f"[{kind}] members of a routed group executed {dict(n)} times", dict(rep, stack=kind))
            judge_modes(ctx, p, confs, outs["sync"][i], dict(outs[kind][i], out=outs["sync"][i]["out"]), kind, "multi-failure")


def replay(data: dict) -> int:
    import tempfile

    warnings.filterwarnings("ignore")
    threading.excepthook = lambda a: None
    r = data["replay"]
    prog, confs = r["prog"], [tuple(c) for c in r["confs"]]
    tmp = tempfile.mkdtemp(prefix="verif-C19-replay-")
    res = {}
    for kind in ("sync", "mem", "sqlite"):
        st = Stack(kind, tmp, confs, "replay")
        if r.get("delay_increment_s") and kind != "sync":
            orig = st.app.orchestrator.increment_invocation_retries
            st.app.orchestrator.increment_invocation_retries = lambda i, orig=orig: (time.sleep(r["delay_increment_s"]), orig(i))[1]
        st.start()
        try:
            res[kind] = run_programs(st, [prog])[0]
        finally:
            st.stop()
        s = summarize(res[kind])
        print(f"{kind:7s} out={s['out']!r} root num_retries={s['retries']} executions (node, num_retries read) = {sorted(s['log'].items())}")
    c = Ctx("C19", "quick", 0)
    c._known = []
    for kind in ("sync", "mem", "sqlite"):
        judge_stack(c, prog, confs, kind, res[kind], "replay")
    for kind in ("mem", "sqlite"):
        judge_modes(c, prog, confs, res["sync"], res[kind], kind, "replay")
    for v in c.violations:
        print("still failing:", v["signature"], "-", v["what"])
    c.cleanup()
    return 1 if c.violations else 0
